/-
  C15 at the level of the whole node — the token generator changes only by the lazy rotation at the head
  of handling an allowed request, and a token stays valid for five minutes whatever the node does.

  * `step_tokens`: one iteration of the loop leaves `core.server.tokens` as it was, or — when the datagram
    is a request the node serves — applies `C15.lazyStep` to it once (with some random stream): nothing
    else in the node rotates the secrets (no timer, no maintenance, no API call).
  * `node_token_valid_5min`: a token made with the current secret at time `t` is accepted at the end of
    every run whose clock stays within `[t, t + 5 min]` — whatever datagrams and API calls the run holds.
-/
import MainlineModel.Props.C15
import MainlineModel.Props.C14Node
import MainlineModel.Props.C18
namespace Mainline.Props.C15Node
open Mainline Mainline.Actor Mainline.Tokens Mainline.Props.C15

/-- the part of the core this file frames -/
def srv (c : Core) : Tokens := c.server.tokens

theorem getCached_srv (c : Core) (t : Id) (now : Nat) : srv (getCachedClosestNodes c t now).1 = srv c := by
  unfold getCachedClosestNodes; split <;> rfl

theorem createIter_srv (c : Core) (k : GetKind) (t : Id) (ex : List Addr) (now : Nat) :
    srv (createIterativeQuery c k t ex now).1 = srv c := by
  unfold createIterativeQuery
  split
  · rfl
  · simp only; exact getCached_srv c t now

theorem startLookup_srv (a : Actor) (k : GetKind) (t : Id) (ex : List Addr) (now : Nat) :
    srv (a.startLookup k t ex now).core = srv a.core := by
  have := createIter_srv a.core k t ex now
  unfold startLookup
  split
  · rename_i core q tv hm
    rw [hm] at this
    exact this
  · rename_i core hm
    rw [hm] at this
    exact this

theorem get_srv (a : Actor) (k : GetKind) (t : Id) (ex : List Addr) (now : Nat) : srv (a.get k t ex now).1.core = srv a.core := by
  unfold Actor.get
  split
  · rfl
  · exact startLookup_srv a k t ex now

theorem populate_srv (a : Actor) (now : Nat) : srv (a.populate now).core = srv a.core := by
  unfold populate
  split
  · rfl
  · exact get_srv a _ _ _ now

theorem checkConcurrency_srv (c : Core) (spec : PutSpec) : srv (checkConcurrency c spec).1 = srv c := by
  unfold checkConcurrency
  split
  · split
    · split
      · split
        · rfl
        · split
          · rfl
          · split
            · split <;> rfl
            · rfl
      · rfl
    · rfl
  · rfl

theorem sendPuts_srv (spec : PutSpec) (sent : List ((Addr × Bytes) × Nat)) (a : Actor) :
    srv (sendPuts a spec sent).core = srv a.core := by
  rw [sendPuts_eq]
  induction sent generalizing a with
  | nil => rfl
  | cons x xs ih => simp only [List.foldl_cons]; rw [ih]; rfl

theorem startPut_srv (a : Actor) (e : PutEntry) (closest : List Node) (now : Nat) :
    srv (startPut a e closest now).1.core = srv a.core := by
  rw [(startPut_eq a e closest now).1, sendPuts_srv]

theorem putFromCache_srv (a : Actor) (spec : PutSpec) (extra closest : List Node) (now : Nat) :
    srv (putFromCache a spec extra closest now).1.core = srv a.core := by
  have h := startPut_srv a (newPutEntry spec extra) closest now
  unfold putFromCache
  split
  · exact h
  · simp only [registerPut]; exact h

theorem putAfterCheck_srv (a : Actor) (spec : PutSpec) (extra : List Node) (now : Nat) :
    srv (putAfterCheck a spec extra now).1.core = srv a.core := by
  have h1 := getCached_srv a.core spec.target now
  unfold putAfterCheck
  split
  · exact (putFromCache_srv _ spec extra _ now).trans h1
  · simp only [registerPut]
    exact (get_srv { a with core := (getCachedClosestNodes a.core spec.target now).1 } (GetKind.ofPut spec) spec.target [] now).trans h1

theorem put_srv (a : Actor) (spec : PutSpec) (extra : List Node) (now : Nat) : srv (a.put spec extra now).1.core = srv a.core := by
  have h0 := checkConcurrency_srv a.core spec
  unfold Actor.put
  split
  · exact h0
  · exact (putAfterCheck_srv { a with core := (checkConcurrency a.core spec).1 } spec extra now).trans h0

theorem pickup_srv (a : Actor) (env : Env) (msg : Option ApiMsg) : srv (a.pickup env msg).core = srv a.core := by
  unfold pickup
  split
  · rfl
  · rfl
  · rfl
  · rename_i c spec extra
    unfold pickupPut
    have := put_srv a spec extra env.now
    split
    · exact this
    · exact this
  · unfold pickupGet
    exact get_srv a _ _ _ env.now

theorem visitClosest_srv (a : Actor) (t : Id) (now : Nat) : srv (a.visitClosest t now).core = srv a.core := by
  unfold visitClosest
  split
  · simp only
    rw [(visitAll_core _ _ _ _).1]
    rfl
  · rfl

theorem visitClosestAll_srv (a : Actor) (now : Nat) : srv (a.visitClosestAll now).core = srv a.core := by
  unfold visitClosestAll
  have : ∀ (l : List (Id × IterQuery)) (b : Actor),
      srv (l.foldl (fun (a : Actor) (p : Id × IterQuery) => a.visitClosest p.1 now) b).core = srv b.core := by
    intro l
    induction l with
    | nil => intro b; rfl
    | cons p ps ih => intro b; simp only [List.foldl_cons]; rw [ih, visitClosest_srv]
  exact this a.core.iter a

theorem startPuts_srv (now : Nat) (di : List (Id × List Node)) (acc : Actor × List (Id × Option PutErr)) :
    srv (di.foldl (startPutOne now) acc).1.core = srv acc.1.core := by
  induction di generalizing acc with
  | nil => rfl
  | cons d ds ih =>
    simp only [List.foldl_cons]
    rw [ih]
    unfold startPutOne
    split
    · rename_i e _
      have := startPut_srv acc.1 e d.2 now
      split <;> exact this
    · rfl

theorem decrementCached_srv (c : Core) (e : Option CachedQuery) : srv (decrementCached c e) = srv c := by
  unfold decrementCached
  split
  · split
    · rfl
    · split <;> rfl
  · rfl

theorem countEntry_srv (c : Core) (e : CachedQuery) : srv (countEntry c e) = srv c := by
  unfold countEntry
  split
  · rfl
  · split <;> rfl

theorem evictIfFull_srv (c : Core) : srv (evictIfFull c) = srv c := by
  unfold evictIfFull
  split
  · exact decrementCached_srv _ _
  · rfl

theorem cacheQuery_srv (c : Core) (q : IterQuery) (nodes : List Node) : srv (cacheQuery c q nodes) = srv c := by
  unfold cacheQuery
  split
  · exact evictIfFull_srv c
  · rw [countEntry_srv, decrementCached_srv]
    exact evictIfFull_srv c

theorem updateAddressVotes_srv (c : Core) (q : IterQuery) : srv (updateAddressVotes c q).1 = srv c := by
  unfold updateAddressVotes
  split
  · split <;> rfl
  · rfl

theorem cleanupDone_srv (c : Core) (di : List (Id × List Node)) (dp : List (Id × Option PutErr)) :
    srv (cleanupDone c di dp).1 = srv c := by
  unfold cleanupDone
  have h1 : ∀ (l : List (Id × List Node)) (acc : Core × Option Addr), srv (l.foldl cleanupOneLookup acc).1 = srv acc.1 := by
    intro l
    induction l with
    | nil => intro acc; rfl
    | cons d ds ih =>
      intro acc
      simp only [List.foldl_cons]
      rw [ih]
      unfold cleanupOneLookup
      split
      · rename_i q _
        have := (updateAddressVotes_srv (cacheQuery { acc.1 with iter := alRemove acc.1.iter d.1 } q d.2) q).trans
          (cacheQuery_srv { acc.1 with iter := alRemove acc.1.iter d.1 } q d.2)
        split <;> exact this
      · rfl
  have h2 : ∀ (l : List (Id × Option PutErr)) (c' : Core), srv (l.foldl removePut c') = srv c' := by
    intro l
    induction l with
    | nil => intro c'; rfl
    | cons d ds ih => intro c'; simp only [List.foldl_cons]; rw [ih]; rfl
  simp only
  rw [h2]
  exact h1 di (c, none)

theorem finishTick_srv (a : Actor) (now : Nat) (dp0 : List (Id × Option PutErr)) : srv (finishTick a now dp0).core = srv a.core := by
  unfold finishTick
  have hsp : startPuts a now (a.doneLookups now) dp0 = (a.doneLookups now).foldl (startPutOne now) (a, dp0) := rfl
  rw [hsp]
  have h1 := startPuts_srv now (a.doneLookups now) (a, dp0)
  generalize (a.doneLookups now).foldl (startPutOne now) (a, dp0) = sp at h1
  have h2 := cleanupDone_srv sp.1.core (a.doneLookups now) sp.2
  generalize cleanupDone sp.1.core (a.doneLookups now) sp.2 = cd at h2
  have hping : ∀ (b : Actor) (to : Option Addr), (b.pingOpt to now).core = b.core := by
    intro b to; unfold pingOpt; split <;> rfl
  rw [(releasePutCallers_time _ _).2.2, (releaseGetCallers_time _ _).2.2, hping]
  exact h2.trans h1


theorem maintenance_srv (a : Actor) (now : Nat) : srv (a.maintenance now).core = srv a.core := by
  unfold maintenance
  have h1 : srv (a.bootstrapIfEmpty now).core = srv a.core := by
    unfold bootstrapIfEmpty; split
    · exact populate_srv a now
    · rfl
  have h2 : ∀ b : Actor, srv (b.refreshTable now).core = srv b.core := by
    intro b
    unfold refreshTable
    split
    · rw [populate_srv]
      unfold adaptiveSwitch; split <;> rfl
    · rfl
  have h3 : ∀ b : Actor, srv (b.pingTable now).core = srv b.core := by
    intro b
    unfold pingTable
    split
    · have hfold : ∀ (l : List Addr) (x : Actor), (l.foldl (fun a addr => a.ping addr now) x).core = x.core := by
        intro l
        induction l with
        | nil => intro x; rfl
        | cons y ys ih => intro x; simp only [List.foldl_cons]; rw [ih]; rfl
      rw [hfold]; rfl
    · rfl
  rw [h3, h2, h1]

theorem verifySelfPing_srv (c : Core) (src : Addr) (req : Request) (now : Nat) :
    srv (verifySelfPing c src req now).1 = srv c := by
  unfold verifySelfPing
  split
  · split
    · split <;> rfl
    · rfl
  · rfl

theorem maybeAdd_srv (c : Core) (src : Addr) (version : Option Bytes) (ro : Bool) (req : Request) (now : Nat) :
    srv (maybeAddNodeFromRequest c src version ro req now) = srv c := by
  unfold maybeAddNodeFromRequest
  split
  · split
    · unfold addRequester
      split
      · split <;> rfl
      · split <;> rfl
    · rfl
  · rfl

/-- what handling a request does to the token generator: nothing, or one lazy step at the current time -/
def Stepped (t t' : Tokens) (now : Nat) : Prop := t' = t ∨ ∃ r, t' = (lazyStep t r now).1

theorem core_handleRequest_tokens (c : Core) (env : Env) (src : Addr) (ro : Bool) (version : Option Bytes) (req : Request) :
    Stepped (srv c) (srv (handleRequest c env src ro version req).1) env.now := by
  unfold handleRequest
  split
  · exact Or.inl rfl
  · have h1 : srv (verifySelfPing (maybeAddNodeFromRequest c src version ro req env.now) src req env.now).1 = srv c :=
      (verifySelfPing_srv _ src req env.now).trans (maybeAdd_srv c src version ro req env.now)
    generalize (verifySelfPing (maybeAddNodeFromRequest c src version ro req env.now) src req env.now).1 = c2 at h1
    unfold serveRequest
    split
    · by_cases ha : c2.allow req src = true
      · right
        refine ⟨c2.server.rng, ?_⟩
        unfold srv
        simp only
        rw [C15.handleRequest_tokens c2.server env.verify c2.allow c2.rt c2.srt src env.now env.wall req ha]
        unfold srv at h1
        rw [h1]
      · left
        have ha' : c2.allow req src = false := by simpa using ha
        unfold srv
        simp only
        rw [C15.filtered_no_rotation c2.server env.verify c2.allow c2.rt c2.srt src env.now env.wall req ha']
        exact h1
    · exact Or.inl h1

/-- **The whole node rotates its token secrets only lazily, at the head of handling a request.** -/
theorem step_tokens (a : Actor) (env : Env) (dgram : Option (Message × Addr)) (msg : Option ApiMsg) :
    Stepped a.core.server.tokens (a.step env dgram msg).core.server.tokens env.now := by
  have hrest : srv (a.step env dgram msg).core = srv (a.preDone env dgram).core := by
    rw [C06Time.step_core, maintenance_srv, pickup_srv]
    unfold afterRecv
    rw [finishTick_srv, visitClosestAll_srv]
  have hpre : Stepped (srv a.core) (srv (a.preDone env dgram).core) env.now := by
    unfold preDone
    rw [C06Time.forwardValue_core]
    obtain ⟨_, rc, _, _⟩ := recvPhase_time a env.now dgram
    generalize (a.recvPhase env.now dgram).1 = a1 at rc
    generalize (a.recvPhase env.now dgram).2 = handed
    rw [← rc]
    unfold handleIncoming
    split
    · exact Or.inl rfl
    · rename_i m src
      split
      · rename_i req _
        have h := core_handleRequest_tokens a1.core env src m.readOnly m.version req
        unfold handleIncomingRequest
        split
        · rw [populate_srv, sendReply_core]; exact h
        · rw [sendReply_core]; exact h
      · simp only
        obtain ⟨_, h2⟩ := C18.handleResponse_mode a1.core env src m
        left; unfold srv; rw [h2]
  unfold srv at hrest hpre
  rw [hrest]
  exact hpre

/-- the secret a token was made with is still one of the two the generator accepts -/
def Alive (T S : Tokens) (t : Nat) : Prop :=
  S.currSecret = T.currSecret ∨ (S.prevSecret = T.currSecret ∧ t ≤ S.lastUpdated)

theorem stepped_alive (T S S' : Tokens) (t now : Nat) (hw : t ≤ now ∧ now ≤ t + FIVE_MIN) (h : Alive T S t)
    (hs : Stepped S S' now) : Alive T S' t := by
  rcases hs with rfl | ⟨r, rfl⟩
  · exact h
  · unfold lazyStep
    cases hup : S.shouldUpdate now with
    | false => simpa using h
    | true =>
      simp only [ite_true]
      rcases h with h | ⟨_, h2⟩
      · right
        have := rotate_secrets S r now
        exact ⟨by rw [this.1, h], by rw [this.2]; exact hw.1⟩
      · exfalso
        have := (shouldUpdate_iff S now).1 hup
        omega

theorem alive_valid (T S : Tokens) (t : Nat) (ip : UInt32) (h : Alive T S t) : S.validate ip (T.generate ip) = true := by
  rw [validate_iff]
  unfold generate
  rcases h with h | ⟨h, _⟩
  · left; rw [h]
  · right; rw [h]

/-- **A token stays valid for five minutes, whatever the node does.**  Take any node state, note the
    token its generator would hand to `ip` now (time `t`), and let the node run through any datagrams and
    API calls while the clock stays within `[t, t + 5 min]`: at the end the generator still accepts that
    token from `ip`. -/
theorem node_token_valid_5min (ip : UInt32) (t : Nat) : ∀ (ins : List StepIn) (a : Actor) (T : Tokens),
    Alive T a.core.server.tokens t →
    (∀ x ∈ ins, t ≤ x.env.now ∧ x.env.now ≤ t + FIVE_MIN) →
    (runSteps a ins).core.server.tokens.validate ip (T.generate ip) = true := by
  intro ins
  induction ins with
  | nil => intro a T h _; exact alive_valid T _ t ip h
  | cons x xs ih =>
    intro a T h hw
    have : runSteps a (x :: xs) = runSteps (a.step x.env x.dgram x.msg) xs := rfl
    rw [this]
    exact ih _ T (stepped_alive T _ _ t x.env.now (hw x List.mem_cons_self) h (step_tokens a x.env x.dgram x.msg))
      (fun y hy => hw y (List.mem_cons_of_mem _ hy))

/-- in particular for the token of the current secret -/
theorem own_token_valid_5min (ip : UInt32) (t : Nat) (ins : List StepIn) (a : Actor)
    (hw : ∀ x ∈ ins, t ≤ x.env.now ∧ x.env.now ≤ t + FIVE_MIN) :
    (runSteps a ins).core.server.tokens.validate ip (a.core.server.tokens.generate ip) = true :=
  node_token_valid_5min ip t ins a a.core.server.tokens (Or.inl rfl) hw

end Mainline.Props.C15Node
