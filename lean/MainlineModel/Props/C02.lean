/-
  C02 — Lookups only return authentic data, whatever responders send.

  Model: `Actor.queryValue` / `Actor.mutableFromMessage` / `Actor.verifySignedPeers` (the value
  extraction of `Core::handle_response`, `MutableItem::from_dht_message` after the `fix:` commit,
  `SignedAnnounce::from_dht_response`, `validate_immutable`) and `Actor.handleResponse`.  Ed25519
  verification is the parameter `verify : key → message → signature → Bool`; the theorems hold for
  every such function, the real one included.  SHA-1 is the executable model of `Model/Sha1.lean`.
-/
import MainlineModel.Lemmas.ActorLemmas
namespace Mainline.Props.C02
open Mainline Mainline.Actor

/-- what "authentic for the lookup `q`" means, per kind of value -/
def Authentic (verify : Verify) (q : IterQuery) : Value → Prop
  | .immutable v => hashImmutable v = q.target.bytes
  | .mutable i =>
    i.target = q.target ∧ targetFromKey i.key i.salt = q.target.bytes ∧ i.salt = q.salt ∧
    verify i.key (encodeSignable i.seq i.value i.salt) i.sig = true
  | .signedPeers ps => ∀ p ∈ ps, verify p.k (encodeSignableAnnounce q.target p.t) p.sig = true
  | .peers _ => True   -- unsigned by design (BEP5): addresses are hints, not data

/-- `MutableItem::from_dht_message` accepts an item only if its key (with the salt) hashes to the
    target and the signature over (salt, seq, value) verifies under that key -/
theorem mutableFromMessage_sound (verify : Verify) (target : Id) (k v : Bytes) (seq : Int) (sig : Bytes)
    (salt : Option Bytes) (i : MItem) (h : mutableFromMessage verify target k v seq sig salt = some i) :
    i = { target, key := k, value := v, seq, sig, salt } ∧ k.length = 32 ∧ sig.length = 64 ∧
    targetFromKey k salt = target.bytes ∧ verify k (encodeSignable seq v salt) sig = true := by
  unfold mutableFromMessage at h
  split at h
  · cases h
  · split at h
    · cases h
    · split at h
      · cases h
      · split at h
        · cases h
        · rename_i h1 h2 h3 h4
          injection h with h
          refine ⟨h.symm, by simpa using h1, by simpa using h3, by simpa using h2, by simpa using h4⟩

theorem verifySignedPeers_sound (verify : Verify) (target : Id) (peers ps : List SignedPeer)
    (h : verifySignedPeers verify target peers = some ps) :
    ps = peers ∧ ∀ p ∈ ps, verify p.k (encodeSignableAnnounce target p.t) p.sig = true := by
  unfold verifySignedPeers at h
  split at h
  · rename_i hall
    injection h with h
    subst h
    refine ⟨rfl, ?_⟩
    intro p hp
    have := List.all_eq_true.1 hall p hp
    simp only [Bool.and_eq_true] at this
    exact this.2
  · cases h

/-- **Whatever the response contains, the value extracted for the callers is authentic.** -/
theorem queryValue_authentic (verify : Verify) (q : IterQuery) (m : MessageType) (v : Value) (b : Bool)
    (h : queryValue verify q m = (some v, b)) : Authentic verify q v := by
  unfold queryValue at h
  split at h
  · injection h with h _; injection h with h; subst h; trivial
  · split at h
    · rename_i ps hv
      injection h with h _; injection h with h; subst h
      exact (verifySignedPeers_sound verify q.target _ ps hv).2
    · injection h with h _; cases h
  · split at h
    · rename_i hh
      injection h with h _; injection h with h; subst h
      simpa [Authentic] using hh
    · injection h with h _; cases h
  · split at h
    · rename_i item hm
      injection h with h _; injection h with h; subst h
      obtain ⟨hi, _, _, ht, hv⟩ := mutableFromMessage_sound verify q.target _ _ _ _ _ item hm
      subst hi
      exact ⟨rfl, ht, rfl, hv⟩
    · injection h with h _; cases h
  · injection h with h _; cases h

end Mainline.Props.C02

namespace Mainline.Props.C02
open Mainline Mainline.Actor

/-! ### from one message to everything a caller can ever receive -/

theorem addCandidates_fields (q : IterQuery) (ns : List Node) (now : Nat) :
    (addCandidates q ns now).target = q.target ∧ (addCandidates q ns now).kind = q.kind ∧
    (addCandidates q ns now).responses = q.responses := by
  unfold addCandidates
  induction ns generalizing q with
  | nil => exact ⟨rfl, rfl, rfl⟩
  | cons n ns ih =>
    simp only [List.foldl_cons]
    obtain ⟨h1, h2, h3⟩ := ih { q with closest := q.closest.add { n with lastSeen := now } }
    exact ⟨h1, h2, h3⟩

theorem addVote_fields (q : IterQuery) (a : Addr) :
    (q.addVote a).target = q.target ∧ (q.addVote a).kind = q.kind ∧ (q.addVote a).responses = q.responses :=
  ⟨rfl, rfl, rfl⟩

/-- absorbing nodes, tokens and votes never changes what the lookup is for, nor what it yielded -/
theorem absorb_fields (q : IterQuery) (now : Nat) (src : Addr) (m : Message) :
    (absorb q now src m).target = q.target ∧ (absorb q now src m).kind = q.kind ∧
    (absorb q now src m).responses = q.responses := by
  have h1 : (absorbNodes q now m).target = q.target ∧ (absorbNodes q now m).kind = q.kind ∧
      (absorbNodes q now m).responses = q.responses := by
    unfold absorbNodes
    split
    · split
      · exact addCandidates_fields q _ now
      · exact ⟨rfl, rfl, rfl⟩
    · exact ⟨rfl, rfl, rfl⟩
  have h2 : ∀ q1 : IterQuery, (absorbToken q1 now src m).target = q1.target ∧
      (absorbToken q1 now src m).kind = q1.kind ∧ (absorbToken q1 now src m).responses = q1.responses := by
    intro q1
    unfold absorbToken
    split
    · split <;> exact ⟨rfl, rfl, rfl⟩
    · exact ⟨rfl, rfl, rfl⟩
  have h3 : ∀ q2 : IterQuery, (absorbVote q2 m).target = q2.target ∧ (absorbVote q2 m).kind = q2.kind ∧
      (absorbVote q2 m).responses = q2.responses := by
    intro q2
    unfold absorbVote
    split <;> exact ⟨rfl, rfl, rfl⟩
  unfold absorb
  obtain ⟨a1, a2, a3⟩ := h1
  obtain ⟨b1, b2, b3⟩ := h2 (absorbNodes q now m)
  obtain ⟨c1, c2, c3⟩ := h3 (absorbToken (absorbNodes q now m) now src m)
  exact ⟨c1.trans (b1.trans a1), c2.trans (b2.trans a2), c3.trans (b3.trans a3)⟩

theorem authentic_congr (verify : Verify) (q q' : IterQuery) (ht : q'.target = q.target) (hk : q'.kind = q.kind)
    (v : Value) (h : Authentic verify q' v) : Authentic verify q v := by
  have hs : q'.salt = q.salt := by unfold IterQuery.salt; rw [hk]
  cases v with
  | immutable x => simpa [Authentic, ht] using h
  | mutable i => simpa [Authentic, ht, hs] using h
  | signedPeers ps => simpa [Authentic, ht] using h
  | peers l => trivial

/-- every value a lookup has yielded so far is authentic for it -/
def ResponsesAuthentic (verify : Verify) (q : IterQuery) : Prop := ∀ v ∈ q.responses, Authentic verify q v

/-- **One message.** Whatever a responder sends, the value handed to the lookup's callers (if any)
    is authentic for that lookup, the lookup stays the same lookup, and the values it remembers for
    callers joining later stay authentic. -/
theorem lookupStep_authentic (q : IterQuery) (env : Env) (src : Addr) (m : Message)
    (hinv : ResponsesAuthentic env.verify q) :
    (lookupStep q env src m).1.target = q.target ∧ (lookupStep q env src m).1.kind = q.kind ∧
    (∀ v, (lookupStep q env src m).2.1 = some v → Authentic env.verify q v) ∧
    ResponsesAuthentic env.verify (lookupStep q env src m).1 := by
  obtain ⟨ht, hk, hr⟩ := absorb_fields q env.now src m
  unfold lookupStep
  cases hq : queryValue env.verify (absorb q env.now src m) m.mtype with
  | mk val b =>
    cases val with
    | none =>
      refine ⟨ht, hk, by simp, ?_⟩
      intro v hv
      simp only at hv
      rw [hr] at hv
      exact authentic_congr env.verify _ q (by rw [ht]) (by rw [hk]) v (hinv v hv)
    | some v =>
      have ha := queryValue_authentic env.verify _ m.mtype v b hq
      refine ⟨ht, hk, ?_, ?_⟩
      · intro v' hv'
        injection hv' with hv'
        rw [← hv']
        exact authentic_congr env.verify q (absorb q env.now src m) ht hk v ha
      · intro w hw
        simp only [List.mem_append, List.mem_singleton] at hw
        have hq' : ∀ w, Authentic env.verify q w →
            Authentic env.verify { (absorb q env.now src m) with
              responses := (absorb q env.now src m).responses ++ [v] } w :=
          fun w h => authentic_congr env.verify _ q (by simp [ht]) (by simp [hk]) w h
        rcases hw with hw | hw
        · rw [hr] at hw
          exact hq' w (hinv w hw)
        · subst hw
          exact hq' w (authentic_congr env.verify q (absorb q env.now src m) ht hk w ha)

/-- a fresh lookup has yielded nothing -/
theorem new_lookup_authentic (verify : Verify) (rid target : Id) (k : GetKind) :
    ResponsesAuthentic verify (IterQuery.new rid target k) := by
  intro v hv; cases hv

/-! ### what a forger can and cannot do: concrete witnesses (tests, labelled as tests) -/

/-- a responder answering with its own validly signed item is rejected (its key does not hash to the
    target), a re-targeted salt too; the honest item is accepted -/
example :
    let verify : Verify := fun k m s => (k, m, s) == (List.replicate 32 7, encodeSignable 3 [1] none, List.replicate 64 9)
      || (k, m, s) == (List.replicate 32 8, encodeSignable 3 [1] none, List.replicate 64 9)
    let target : Id := ⟨targetFromKey (List.replicate 32 7) none⟩
    (mutableFromMessage verify target (List.replicate 32 7) [1] 3 (List.replicate 64 9) none).isSome = true ∧
    (mutableFromMessage verify target (List.replicate 32 8) [1] 3 (List.replicate 64 9) none).isSome = false ∧
    (mutableFromMessage verify target (List.replicate 32 7) [1] 3 (List.replicate 64 9) (some [5])).isSome = false ∧
    (mutableFromMessage verify target (List.replicate 32 7) [2] 3 (List.replicate 64 9) none).isSome = false := by
  decide +kernel

end Mainline.Props.C02
