/-
  C06 (time bound, continued) — the store phase of puts, and C20's quiescence.

  * `put_tick`        — a tick at which every request of a registered, started put is older than the
    timeout bound `T` unregisters the put and hands every caller parked on it the put's one outcome;
    before that the put stays as it is (it never sends further requests) and its deadline does not move;
  * `waiting_put_tick` — the tick that releases the lookup a registered put waits on either starts the
    put — all its requests are then due `T` later — or fails it and answers its callers;
  * `quiescent_tick`  — C20: when every request of every registered lookup and put is older than `T`
    and no put is still waiting for its lookup, one tick without a datagram leaves no registered lookup,
    no registered put, no parked caller.
-/
import MainlineModel.Props.C06Time
namespace Mainline.Props.C06Puts
open Mainline Mainline.Actor Mainline.Props.C06Time

/-! ### one put per target -/

def PutKeys (l : List (Id × PutEntry)) : Prop := (l.map (·.1)).Nodup

theorem putKeys_alSet (l : List (Id × PutEntry)) (k : Id) (v : PutEntry) (h : PutKeys l) : PutKeys (alSet l k v) := by
  unfold PutKeys at *
  rcases alSet_keys l k v with e | ⟨e, hn⟩
  · rw [e]; exact h
  · rw [e, List.nodup_append]
    refine ⟨h, by simp, ?_⟩
    intro a ha b hb
    simp only [List.mem_singleton] at hb
    subst hb
    intro e; subst e; exact hn ha

theorem putKeys_alRemove (l : List (Id × PutEntry)) (k : Id) (h : PutKeys l) : PutKeys (alRemove l k) := by
  unfold PutKeys alRemove at *
  exact h.sublist (List.Sublist.map _ (List.filter_sublist))

theorem startLookup_puts (a : Actor) (k : GetKind) (t : Id) (extra : List Addr) (now : Nat) :
    (a.startLookup k t extra now).core.puts = a.core.puts := by
  obtain ⟨_, _, _, _, c5, _⟩ := createIter_fields a.core k t extra now
  unfold startLookup
  split
  · rename_i core q toVisit hm
    rw [hm] at c5
    exact c5
  · rename_i core hm
    rw [hm] at c5
    exact c5

theorem get_puts (a : Actor) (k : GetKind) (t : Id) (extra : List Addr) (now : Nat) :
    (a.get k t extra now).1.core.puts = a.core.puts := by
  unfold Actor.get
  split
  · rfl
  · exact startLookup_puts a k t extra now

theorem populate_puts (a : Actor) (now : Nat) : (a.populate now).core.puts = a.core.puts := by
  unfold populate
  split
  · rfl
  · exact get_puts a _ _ _ now

/-! ### deadlines of puts -/

def DuePut (T : Nat) (a : Actor) (e : PutEntry) (D : Nat) : Prop :=
  ∀ r ∈ a.sock.requests, r.tid ∈ e.q.inflight → r.sentAt + T ≤ D

theorem duePut_same {T now : Nat} {a a' : Actor} (f : Facts now a a') (e : PutEntry)
    (hq : ∀ tid ∈ e.q.inflight, tid < a.sock.nextTid) (D : Nat) (hD : DuePut T a e D) : DuePut T a' e D := by
  intro r hr ht
  rcases f.reqs r hr with h | ⟨h, _⟩
  · exact hD r h ht
  · have := hq r.tid ht; omega

theorem duePut_congr {T : Nat} {a : Actor} {e e' : PutEntry} {D : Nat} (h : e'.q.inflight = e.q.inflight)
    (hD : DuePut T a e D) : DuePut T a e' D := by
  intro r hr ht; rw [h] at ht; exact hD r hr ht

/-- a started put with a request outstanding has one younger than the timeout in the table -/
theorem pending_young (s : Inflight) (now0 : Nat) (ho : SockOrd s now0) (q : PutQuery) (now : Nat)
    (hq : ∀ tid ∈ q.inflight, tid < s.nextTid) (hs : q.inflight ≠ []) (h : q.isDone s now = false) :
    ∃ r ∈ s.requests, r.tid ∈ q.inflight ∧ now < r.sentAt + s.timeout := by
  have hex : ∃ tid ∈ q.inflight, s.isInflight tid now = true := by
    by_cases hall : ∀ tid ∈ q.inflight, s.isInflight tid now = false
    · have := (C08.isDone_iff q s now).2 ⟨hs, hall⟩
      rw [this] at h; cases h
    · apply Classical.byContradiction
      intro hno
      apply hall
      intro tid ht
      cases hh : s.isInflight tid now with
      | true => exact absurd ⟨tid, ht, hh⟩ hno
      | false => rfl
  obtain ⟨tid, ht, hin⟩ := hex
  unfold Inflight.isInflight at hin
  cases hg : s.get tid now with
  | none => rw [hg] at hin; cases hin
  | some r =>
    obtain ⟨h1, h2, h3⟩ := (C09.get_iff s ho.inv tid now (Nat.lt_trans (hq tid ht) ho.next_lt) r).1 hg
    refine ⟨r, h1, by rw [h2]; exact ht, ?_⟩
    simp only [Inflight.live, decide_eq_true_eq] at h3
    omega

/-- a started put all of whose requests are at least as old as the timeout is decided -/
theorem due_put_decided (T : Nat) (s : Inflight) (now0 now : Nat) (ho : SockOrd s now0) (q : PutQuery)
    (hq : ∀ tid ∈ q.inflight, tid < s.nextTid) (hs : q.inflight ≠ []) (hT : s.timeout ≤ T)
    (hd : ∀ r ∈ s.requests, r.tid ∈ q.inflight → r.sentAt + T ≤ now) : q.check s now ≠ .ok false := by
  apply C06.put_not_pending_when_expired q s now hs
  intro tid ht
  have htid : tid < two32 := Nat.lt_trans (hq tid ht) ho.next_lt
  by_cases hex : ∃ r ∈ s.requests, r.tid = tid
  · obtain ⟨r, hr, rfl⟩ := hex
    have := hd r hr ht
    exact C06.expired_not_inflight s ho.inv r hr now (by omega)
  · exact C06.absent_not_inflight s ho.inv tid now htid (fun r hr e => hex ⟨r, hr, e⟩)

/-! ### following one put through the tick -/

theorem handleResponse_put_tracked (c : Core) (env : Env) (src : Addr) (m : Message) (hk : PutKeys c.puts)
    (t : Id) (e : PutEntry) (he : alGet c.puts t = some e) :
    ∃ e', alGet (handleResponse c env src m).1.puts t = some e' ∧ e'.q.inflight = e.q.inflight ∧ e'.spec = e.spec := by
  unfold handleResponse
  split
  · exact ⟨e, he, rfl, rfl⟩
  · split
    · rename_i target e0 hf
      have hmem : (target, e0) ∈ c.puts := List.mem_of_find?_eq_some hf
      have hg0 := alGet_of_mem c.puts hk target e0 hmem
      by_cases ht : target = t
      · subst ht
        rw [he] at hg0
        injection hg0 with hg0
        subst hg0
        exact ⟨_, alGet_alSet_self _ _ _, putStep_inflight' _ _, rfl⟩
      · refine ⟨e, ?_, rfl, rfl⟩
        simp only
        rw [alGet_alSet_other _ _ _ _ (fun h => ht h.symm)]; exact he
    · split
      · split
        · simp only; rw [(addResponder_time _ _ _ _).2]; exact ⟨e, he, rfl, rfl⟩
        · exact ⟨e, he, rfl, rfl⟩
      · split
        · rw [(addResponder_time _ _ _ _).2]; exact ⟨e, he, rfl, rfl⟩
        · exact ⟨e, he, rfl, rfl⟩

theorem preDone_put_tracked (a : Actor) (env : Env) (dgram : Option (Message × Addr)) (hk : PutKeys a.core.puts)
    (t : Id) (e : PutEntry) (he : alGet a.core.puts t = some e) :
    ∃ e', alGet (a.preDone env dgram).core.puts t = some e' ∧ e'.q.inflight = e.q.inflight ∧ e'.spec = e.spec := by
  unfold preDone
  rw [forwardValue_core]
  obtain ⟨_, rc, _, _⟩ := recvPhase_time a env.now dgram
  generalize (a.recvPhase env.now dgram).1 = a1 at rc
  generalize (a.recvPhase env.now dgram).2 = handed
  rw [← rc] at he hk
  unfold handleIncoming
  split
  · exact ⟨e, he, rfl, rfl⟩
  · rename_i m src
    split
    · rename_i req _
      refine ⟨e, ?_, rfl, rfl⟩
      unfold handleIncomingRequest
      have c2 := handleRequest_puts a1.core env src m.readOnly m.version req
      split
      · rw [populate_puts, sendReply_core]; simp only; rw [c2]; exact he
      · rw [sendReply_core]; simp only; rw [c2]; exact he
    · exact handleResponse_put_tracked a1.core env src m hk t e he

theorem start_started (q : PutQuery) (h : q.inflight ≠ []) (sock : Inflight) (closest : List Node) (now : Nat) :
    q.start sock closest now = (q, sock, .ok (), []) := by
  unfold PutQuery.start PutQuery.started
  cases hq : q.inflight with
  | nil => exact absurd hq h
  | cons x xs => simp

/-- `start_put_queries` leaves a put that has already sent its requests alone -/
theorem startPutOne_started (now : Nat) (acc : Actor × List (Id × Option PutErr)) (d : Id × List Node) (t : Id)
    (e : PutEntry) (he : alGet acc.1.core.puts t = some e) (hs : e.q.inflight ≠ []) :
    alGet (startPutOne now acc d).1.core.puts t = some e ∧
    (t ∈ (startPutOne now acc d).2.map (·.1) → t ∈ acc.2.map (·.1)) := by
  by_cases hd : d.1 = t
  · unfold startPutOne
    rw [hd, he]
    simp only
    have hst : (startPut acc.1 e d.2 now) = (acc.1, e, .ok ()) := by
      unfold startPut
      rw [start_started e.q hs]
      simp [sendPuts]
    rw [hst]
    simp only
    exact ⟨alGet_alSet_self _ _ _, fun h => h⟩
  · obtain ⟨_, _, _, _, h5, _, _⟩ := C06.startPutOne_spec now acc d
    refine ⟨by rw [h5 t (fun e => hd e.symm)]; exact he, ?_⟩
    intro hin
    unfold startPutOne at hin
    split at hin
    · split at hin
      · simp only [List.map_append, List.mem_append, List.map_cons, List.map_nil, List.mem_singleton] at hin
        rcases hin with h | h
        · exact h
        · exact absurd h.symm hd
      · exact hin
    · exact hin

theorem startPuts_started (now : Nat) (di : List (Id × List Node)) (acc : Actor × List (Id × Option PutErr)) (t : Id)
    (e : PutEntry) (he : alGet acc.1.core.puts t = some e) (hs : e.q.inflight ≠ []) :
    alGet (di.foldl (startPutOne now) acc).1.core.puts t = some e ∧
    (t ∈ (di.foldl (startPutOne now) acc).2.map (·.1) → t ∈ acc.2.map (·.1)) := by
  induction di generalizing acc with
  | nil => exact ⟨he, fun h => h⟩
  | cons d ds ih =>
    simp only [List.foldl_cons]
    obtain ⟨h1, h2⟩ := startPutOne_started now acc d t e he hs
    obtain ⟨i1, i2⟩ := ih (startPutOne now acc d) h1
    exact ⟨i1, fun h => h2 (i2 h)⟩

theorem checkDonePuts_mem (a : Actor) (now : Nat) (t : Id) (e : PutEntry) (he : alGet a.core.puts t = some e)
    (h : e.q.check a.sock now ≠ .ok false) : t ∈ (a.checkDonePuts now).map (·.1) := by
  unfold checkDonePuts
  simp only [List.mem_map, List.mem_filterMap]
  cases hc : e.q.check a.sock now with
  | error err => exact ⟨(t, some err), ⟨(t, e), mem_of_alGet _ _ _ he, by simp [hc]⟩, rfl⟩
  | ok b =>
    cases b with
    | true => exact ⟨(t, none), ⟨(t, e), mem_of_alGet _ _ _ he, by simp [hc]⟩, rfl⟩
    | false => exact absurd hc h

theorem checkDonePuts_not_mem (a : Actor) (now : Nat) (t : Id) (e : PutEntry)
    (he : alGet a.core.puts t = some e) (h : t ∉ (a.checkDonePuts now).map (·.1)) : e.q.check a.sock now = .ok false := by
  cases hc : e.q.check a.sock now with
  | error err => exact absurd (checkDonePuts_mem a now t e he (by rw [hc]; intro h; cases h)) h
  | ok b =>
    cases b with
    | true => exact absurd (checkDonePuts_mem a now t e he (by rw [hc]; intro h; cases h)) h
    | false => rfl

/-- every caller parked on a finished put gets the put's outcome -/
theorem releasePut_events (done : List (Id × Option PutErr)) (b : Actor) (t : Id) (ht : t ∈ done.map (·.1))
    (cs : List Nat) (hs : alGet b.putSenders t = some cs) :
    ∃ outcome, ∀ c ∈ cs, Event.putResult c outcome ∈ (b.releasePutCallers done).events := by
  induction done generalizing b with
  | nil => simp at ht
  | cons d ds ih =>
    by_cases hd : d.1 = t
    · refine ⟨putOutcome d, ?_⟩
      intro c hc
      have : (b.releasePutCallers (d :: ds)) = (b.releasePutOne d).releasePutCallers ds := rfl
      rw [this]
      apply releasePut_events_mono
      unfold releasePutOne
      rw [hd, hs]
      simp only
      exact List.mem_append_right _ (List.mem_map_of_mem hc)
    · have hin : t ∈ ds.map (·.1) := by
        simp only [List.map_cons, List.mem_cons] at ht
        rcases ht with h | h
        · exact absurd h.symm hd
        · exact h
      have hs' : alGet (b.releasePutOne d).putSenders t = some cs := by
        unfold releasePutOne
        split
        · simp only; rw [alGet_alRemove_other _ _ _ (fun e => hd e.symm)]; exact hs
        · exact hs
      exact ih (b.releasePutOne d) hin hs'

/-- what the end of the tick makes of the callers parked on the put for `t`: all handed its one
    outcome, nobody left parked, no put left registered -/
structure ReleasedPut (a a' : Actor) (t : Id) : Prop where
  unregistered : alGet a'.core.puts t = none
  unparked : alGet a'.putSenders t = none
  answered : ∀ cs, alGet a.putSenders t = some cs → ∃ outcome, ∀ c ∈ cs, Event.putResult c outcome ∈ a'.events

/-- the second half of the tick: a put found decided is unregistered and its callers are handed its
    outcome; a started put that is not decided stays as it is -/
theorem finishTick_put (a4 : Actor) (now : Nat) (dp0 : List (Id × Option PutErr)) (t : Id) :
    (t ∈ dp0.map (·.1) → ReleasedPut a4 (finishTick a4 now dp0) t) ∧
    (∀ e, alGet a4.core.puts t = some e → e.q.inflight ≠ [] → t ∉ dp0.map (·.1) →
      alGet (finishTick a4 now dp0).core.puts t = some e) := by
  unfold finishTick
  generalize a4.doneLookups now = di
  obtain ⟨_, _, s3, _, _, _, s7⟩ := C06.startPuts_spec now di (a4, dp0)
  have hstarted := startPuts_started now di (a4, dp0) t
  have hsp : startPuts a4 now di dp0 = di.foldl (startPutOne now) (a4, dp0) := rfl
  rw [hsp]
  generalize di.foldl (startPutOne now) (a4, dp0) = sp at s3 s7 hstarted
  simp only at s3 s7 hstarted
  obtain ⟨_, c2, c3⟩ := C06.cleanupDone_spec sp.1.core di sp.2
  generalize cleanupDone sp.1.core di sp.2 = cd at c2 c3
  have hping : ∀ (b : Actor) (to : Option Addr), (b.pingOpt to now).core = b.core ∧
      (b.pingOpt to now).putSenders = b.putSenders := by
    intro b to; unfold pingOpt; split <;> exact ⟨rfl, rfl⟩
  obtain ⟨g1, g3⟩ := hping { sp.1 with core := cd.1 } cd.2
  obtain ⟨rg1, rg2, _⟩ := C06.releaseGet_spec (pingOpt { sp.1 with core := cd.1 } cd.2 now) di
  obtain ⟨rp1, _, rp3⟩ := C06.releasePut_spec
    (releaseGetCallers (pingOpt { sp.1 with core := cd.1 } cd.2 now) di) sp.2
  have hcore : (releasePutCallers (releaseGetCallers (pingOpt { sp.1 with core := cd.1 } cd.2 now) di) sp.2).core = cd.1 := by
    rw [rp1, rg1, g1]
  constructor
  · intro hin0
    have hin := s7 t hin0
    refine ⟨?_, ?_, ?_⟩
    · rw [hcore]; exact c3 t hin
    · apply not_hasKey_none
      intro hh
      exact ((rp3 t).1 hh).2 hin
    · intro cs hcs
      have hs' : alGet (releaseGetCallers (pingOpt { sp.1 with core := cd.1 } cd.2 now) di).putSenders t = some cs := by
        rw [rg2, g3]; simp only; rw [s3]; exact hcs
      exact releasePut_events sp.2 _ t hin cs hs'
  · intro e he hs hnin
    obtain ⟨h1, h2⟩ := hstarted e he hs
    rw [hcore, c2 t (fun h => hnin (h2 h))]
    exact h1

/-! ## One tick, one started put -/

/-- **One tick, one started put.**  Let `e` be the put registered for `t`, with requests out, all
    due by `D`.  After the tick — whatever datagram arrived — either the put is unregistered and every
    caller parked on it has been handed its one outcome and is un-parked, or the clock has not
    reached `D` yet and the put is still registered with the same requests, still due by `D`
    (a put never sends a second round). -/
theorem put_tick (T : Nat) (a : Actor) (now0 : Nat) (hs : SockOk a now0) (hk : PutKeys a.core.puts)
    (env : Env) (hnow : now0 ≤ env.now) (dgram : Option (Message × Addr))
    (hb : a.sock.nextTid + ((a.afterRecv env dgram).out.length - a.out.length) < two32)
    (hT1 : (a.recvPhase env.now dgram).1.sock.timeout ≤ T)
    (t : Id) (e : PutEntry) (he : alGet a.core.puts t = some e) (hst : e.q.inflight ≠ []) (D : Nat) (hD : DuePut T a e D) :
    ReleasedPut a (a.afterRecv env dgram) t ∨
    (env.now < D ∧ ∃ e', alGet (a.afterRecv env dgram).core.puts t = some e' ∧ e'.q.inflight = e.q.inflight ∧
        e'.spec = e.spec ∧ DuePut T (a.afterRecv env dgram) e' D) := by
  have hs0 := hs.mono hnow
  have A03 := preDone_adv a env dgram
  have A35 := (visitClosestAll_adv (a.preDone env dgram) env.now).trans
    (finishTick_adv ((a.preDone env dgram).visitClosestAll env.now) env.now ((a.preDone env dgram).checkDonePuts env.now))
  have hb' : a.sock.nextTid + ((finishTick ((a.preDone env dgram).visitClosestAll env.now) env.now
      ((a.preDone env dgram).checkDonePuts env.now)).out.length - a.out.length) < two32 := hb
  obtain ⟨F03, _, F35⟩ := Adv.split A03 A35 hb'
  have hs3 := F03.sockOk hs0
  have ht3 : (a.preDone env dgram).sock.timeout ≤ T := by
    unfold preDone; rw [forwardValue_sock, handleIncoming_tmo]; exact hT1
  obtain ⟨_, p2, _⟩ := C06.preDone_frame a env dgram
  obtain ⟨v1, _, v3, _⟩ := C06.visitClosestAll_frame (a.preDone env dgram) env.now
  obtain ⟨e3, g3, i3, sp3⟩ := preDone_put_tracked a env dgram hk t e he
  have helt : ∀ tid ∈ e.q.inflight, tid < a.sock.nextTid := hs.puts (t, e) (mem_of_alGet _ _ _ he)
  have hd3 : DuePut T (a.preDone env dgram) e3 D := duePut_congr i3 (duePut_same F03 e helt D hD)
  have hst3 : e3.q.inflight ≠ [] := by rw [i3]; exact hst
  have he3lt : ∀ tid ∈ e3.q.inflight, tid < (a.preDone env dgram).sock.nextTid :=
    hs3.puts (t, e3) (mem_of_alGet _ _ _ g3)
  unfold afterRecv
  generalize ha3 : a.preDone env dgram = a3 at *
  obtain ⟨fr, fk⟩ := finishTick_put (a3.visitClosestAll env.now) env.now (a3.checkDonePuts env.now) t
  by_cases hin : t ∈ (a3.checkDonePuts env.now).map (·.1)
  · left
    obtain ⟨r1, r2, r3⟩ := fr hin
    exact ⟨r1, r2, fun cs hcs => r3 cs (by rw [v3, p2]; exact hcs)⟩
  · right
    have hcheck := checkDonePuts_not_mem a3 env.now t e3 g3 hin
    have hnd := C08.pending_only_while_outstanding e3.q a3.sock env.now hcheck
    obtain ⟨r, hr, hrt, hry⟩ := pending_young a3.sock env.now hs3.ord e3.q env.now he3lt hst3 hnd
    have := hd3 r hr hrt
    refine ⟨by omega, e3, ?_, i3, sp3, ?_⟩
    · exact fk e3 (by rw [v1]; exact g3) hst3 hin
    · exact duePut_same F35 e3 he3lt D hd3

/-! ## C20: nothing is retained at quiescence -/

theorem eq_nil_of_no_keys {β : Type} (l : List (Id × β)) (h : ∀ t, alGet l t = none) : l = [] := by
  cases l with
  | nil => rfl
  | cons p ps =>
    have := h p.1
    rw [alGet_cons] at this
    simp at this

theorem preDone_none (a : Actor) (env : Env) : a.preDone env none = a := rfl

theorem hasKey_iff_some {β : Type} (l : List (Id × β)) (t : Id) : hasKey l t ↔ ∃ v, alGet l t = some v := by
  unfold hasKey
  cases alGet l t with
  | none => simp
  | some v => simp

/-- a tick in which no datagram arrives registers nothing and parks nobody -/
theorem idle_tick_adds_nothing (a : Actor) (env : Env) (t : Id) :
    (alGet a.core.iter t = none → alGet (a.afterRecv env none).core.iter t = none) ∧
    (alGet a.core.puts t = none → alGet (a.afterRecv env none).core.puts t = none) ∧
    (alGet a.getSenders t = none → alGet (a.afterRecv env none).getSenders t = none) ∧
    (alGet a.putSenders t = none → alGet (a.afterRecv env none).putSenders t = none) := by
  unfold afterRecv finishTick
  rw [preDone_none]
  obtain ⟨v1, v2, v3, v4⟩ := C06.visitClosestAll_frame a env.now
  generalize a.checkDonePuts env.now = dp0
  generalize hv : a.visitClosestAll env.now = a4 at v1 v2 v3 v4
  generalize a4.doneLookups env.now = di
  obtain ⟨s1, s2, s3, s4, _⟩ := C06.startPuts_spec env.now di (a4, dp0)
  have hsp : startPuts a4 env.now di dp0 = di.foldl (startPutOne env.now) (a4, dp0) := rfl
  rw [hsp]
  generalize di.foldl (startPutOne env.now) (a4, dp0) = sp at s1 s2 s3 s4
  simp only at s1 s2 s3 s4
  obtain ⟨c1, c2, c3⟩ := C06.cleanupDone_spec sp.1.core di sp.2
  generalize cleanupDone sp.1.core di sp.2 = cd at c1 c2 c3
  have hping : ∀ (b : Actor) (to : Option Addr), (b.pingOpt to env.now).core = b.core ∧
      (b.pingOpt to env.now).getSenders = b.getSenders ∧ (b.pingOpt to env.now).putSenders = b.putSenders := by
    intro b to; unfold pingOpt; split <;> exact ⟨rfl, rfl, rfl⟩
  obtain ⟨g1, g2, g3⟩ := hping { sp.1 with core := cd.1 } cd.2
  obtain ⟨rg1, rg2, rg3⟩ := C06.releaseGet_spec (pingOpt { sp.1 with core := cd.1 } cd.2 env.now) di
  obtain ⟨rp1, rp2, rp3⟩ := C06.releasePut_spec
    (releaseGetCallers (pingOpt { sp.1 with core := cd.1 } cd.2 env.now) di) sp.2
  have hcore : (releasePutCallers (releaseGetCallers (pingOpt { sp.1 with core := cd.1 } cd.2 env.now) di) sp.2).core = cd.1 := by
    rw [rp1, rg1, g1]
  have nk : ∀ {β : Type} (l : List (Id × β)), alGet l t = none → ¬ hasKey l t := by
    intro β l h hh; unfold hasKey at hh; rw [h] at hh; cases hh
  refine ⟨?_, ?_, ?_, ?_⟩
  · intro h
    rw [hcore]
    apply not_hasKey_none
    intro hh
    have := ((c1 t).1 hh).1
    rw [s1] at this
    exact nk _ h ((v4 t).1 this)
  · intro h
    rw [hcore]
    apply not_hasKey_none
    intro hh
    by_cases hdp : t ∈ sp.2.map (·.1)
    · unfold hasKey at hh; rw [c3 t hdp] at hh; cases hh
    · unfold hasKey at hh
      rw [c2 t hdp] at hh
      have : hasKey sp.1.core.puts t := hh
      rw [s4] at this
      rw [v1] at this
      exact nk _ h this
  · intro h
    rw [rp2]
    apply not_hasKey_none
    intro hh
    have := ((rg3 t).1 hh).1
    rw [g2] at this
    simp only at this
    rw [s2, v2] at this
    exact nk _ h this
  · intro h
    apply not_hasKey_none
    intro hh
    have := ((rp3 t).1 hh).1
    rw [rg2, g3] at this
    simp only at this
    rw [s3, v3] at this
    exact nk _ h this

/-- **Quiescence (C20).**  Suppose every request in the table is at least `T` old, where `T` bounds
    the request timeout, and every registered put has sent its requests (no put is still waiting for
    its lookup).  Then one tick in which no datagram arrives leaves **no registered lookup, no
    registered put and no parked caller**: every lookup and every put is found finished, unregistered
    (the lookups cached), and every caller parked on them is answered — nothing per-call is retained. -/
theorem quiescent_tick (T : Nat) (a : Actor) (now0 : Nat) (hr : Ready a now0) (hkp : PutKeys a.core.puts)
    (hw : C06.Waits a) (env : Env) (hnow : now0 ≤ env.now)
    (hb : a.sock.nextTid + ((a.afterRecv env none).out.length - a.out.length) < two32)
    (hT : a.sock.timeout ≤ T)
    (hdue : ∀ r ∈ a.sock.requests, r.sentAt + T ≤ env.now)
    (hstarted : ∀ p ∈ a.core.puts, p.2.q.inflight ≠ []) :
    (a.afterRecv env none).core.iter = [] ∧ (a.afterRecv env none).core.puts = [] ∧
    (a.afterRecv env none).getSenders = [] ∧ (a.afterRecv env none).putSenders = [] := by
  have hT1 : (a.recvPhase env.now none).1.sock.timeout ≤ T := hT
  have hiter : ∀ t, alGet (a.afterRecv env none).core.iter t = none ∧ alGet (a.afterRecv env none).getSenders t = none := by
    intro t
    obtain ⟨i1, _, i3, _⟩ := idle_tick_adds_nothing a env t
    cases hq : alGet a.core.iter t with
    | none =>
      refine ⟨i1 hq, i3 ?_⟩
      apply not_hasKey_none
      intro hh
      have := hw.getWaits t hh
      unfold hasKey at this; rw [hq] at this; cases this
    | some q =>
      rcases lookup_tick T a now0 hr.sock hr.keys env hnow none hb hT hT1 t q hq (hr.closed t q hq) env.now
        (fun r hrm _ => hdue r hrm) with h | ⟨hlt, _⟩
      · exact ⟨h.unregistered, h.unparked⟩
      · exact absurd hlt (Nat.lt_irrefl _)
  have hputs : ∀ t, alGet (a.afterRecv env none).core.puts t = none ∧ alGet (a.afterRecv env none).putSenders t = none := by
    intro t
    obtain ⟨_, i2, _, i4⟩ := idle_tick_adds_nothing a env t
    cases he : alGet a.core.puts t with
    | none =>
      refine ⟨i2 he, i4 ?_⟩
      apply not_hasKey_none
      intro hh
      have := hw.callerWaits t hh
      unfold hasKey at this; rw [he] at this; cases this
    | some e =>
      rcases put_tick T a now0 hr.sock hkp env hnow none hb hT1 t e he (hstarted (t, e) (mem_of_alGet _ _ _ he)) env.now
        (fun r hrm _ => hdue r hrm) with h | ⟨hlt, _⟩
      · exact ⟨h.unregistered, h.unparked⟩
      · exact absurd hlt (Nat.lt_irrefl _)
  exact ⟨eq_nil_of_no_keys _ (fun t => (hiter t).1), eq_nil_of_no_keys _ (fun t => (hputs t).1),
    eq_nil_of_no_keys _ (fun t => (hiter t).2), eq_nil_of_no_keys _ (fun t => (hputs t).2)⟩

/-! ### one put per target, in every reachable state -/

theorem handleResponse_putKeys (c : Core) (env : Env) (src : Addr) (m : Message) (h : PutKeys c.puts) :
    PutKeys (handleResponse c env src m).1.puts := by
  unfold handleResponse
  split
  · exact h
  · split
    · exact putKeys_alSet _ _ _ h
    · split
      · split
        · simp only; rw [(addResponder_time _ _ _ _).2]; exact h
        · exact h
      · split
        · rw [(addResponder_time _ _ _ _).2]; exact h
        · exact h

theorem preDone_putKeys (a : Actor) (env : Env) (dgram : Option (Message × Addr)) (h : PutKeys a.core.puts) :
    PutKeys (a.preDone env dgram).core.puts := by
  unfold preDone
  rw [forwardValue_core]
  obtain ⟨_, rc, _, _⟩ := recvPhase_time a env.now dgram
  generalize (a.recvPhase env.now dgram).1 = a1 at rc
  generalize (a.recvPhase env.now dgram).2 = handed
  rw [← rc] at h
  unfold handleIncoming
  split
  · exact h
  · rename_i m src
    split
    · rename_i req _
      unfold handleIncomingRequest
      have c2 := handleRequest_puts a1.core env src m.readOnly m.version req
      split
      · rw [populate_puts, sendReply_core]; simp only; rw [c2]; exact h
      · rw [sendReply_core]; simp only; rw [c2]; exact h
    · exact handleResponse_putKeys a1.core env src m h

theorem startPut_puts (a : Actor) (e : PutEntry) (closest : List Node) (now : Nat) :
    (startPut a e closest now).1.core.puts = a.core.puts := by
  obtain ⟨e1, _⟩ := startPut_eq a e closest now
  rw [e1]
  exact (sendPuts_fields _ _ _).2.2.1

theorem startPuts_putKeys (now : Nat) (di : List (Id × List Node)) (acc : Actor × List (Id × Option PutErr))
    (h : PutKeys acc.1.core.puts) : PutKeys (di.foldl (startPutOne now) acc).1.core.puts := by
  induction di generalizing acc with
  | nil => exact h
  | cons d ds ih =>
    simp only [List.foldl_cons]
    apply ih
    unfold startPutOne
    split
    · rename_i e _
      split <;> (simp only; rw [startPut_puts]; exact putKeys_alSet _ _ _ h)
    · exact h

theorem cleanupDone_putKeys (c : Core) (di : List (Id × List Node)) (dp : List (Id × Option PutErr)) (h : PutKeys c.puts) :
    PutKeys (cleanupDone c di dp).1.puts := by
  unfold cleanupDone
  have h1 : ∀ (l : List (Id × List Node)) (acc : Core × Option Addr), (l.foldl cleanupOneLookup acc).1.puts = acc.1.puts := by
    intro l
    induction l with
    | nil => intro acc; rfl
    | cons d ds ih => intro acc; simp only [List.foldl_cons]; rw [ih, (cleanupOneLookup_time acc d).2]
  have h2 : ∀ (l : List (Id × Option PutErr)) (c' : Core), PutKeys c'.puts → PutKeys (l.foldl removePut c').puts := by
    intro l
    induction l with
    | nil => intro c' hc; exact hc
    | cons d ds ih => intro c' hc; simp only [List.foldl_cons]; exact ih _ (putKeys_alRemove _ _ hc)
  simp only
  apply h2
  rw [h1]; exact h

theorem finishTick_putKeys (a4 : Actor) (now : Nat) (dp0 : List (Id × Option PutErr)) (h : PutKeys a4.core.puts) :
    PutKeys (finishTick a4 now dp0).core.puts := by
  unfold finishTick
  have hsp : startPuts a4 now (a4.doneLookups now) dp0 = (a4.doneLookups now).foldl (startPutOne now) (a4, dp0) := rfl
  rw [hsp]
  have h1 := startPuts_putKeys now (a4.doneLookups now) (a4, dp0) h
  generalize (a4.doneLookups now).foldl (startPutOne now) (a4, dp0) = sp at h1
  have h2 := cleanupDone_putKeys sp.1.core (a4.doneLookups now) sp.2 h1
  generalize cleanupDone sp.1.core (a4.doneLookups now) sp.2 = cd at h2
  have hping : ∀ (b : Actor) (to : Option Addr), (b.pingOpt to now).core = b.core := by
    intro b to; unfold pingOpt; split <;> rfl
  rw [(releasePutCallers_time _ _).2.2, (releaseGetCallers_time _ _).2.2, hping]
  exact h2

theorem put_putKeys (a : Actor) (spec : PutSpec) (extra : List Node) (now : Nat) (h : PutKeys a.core.puts) :
    PutKeys (a.put spec extra now).1.core.puts := by
  have h0 : PutKeys (checkConcurrency a.core spec).1.puts := by
    unfold checkConcurrency
    split
    · split
      · split
        · split
          · exact h
          · split
            · exact h
            · split
              · split
                · exact putKeys_alRemove _ _ h
                · exact h
              · exact h
        · exact h
      · exact h
    · exact h
  unfold Actor.put
  split
  · exact h0
  · unfold putAfterCheck
    obtain ⟨_, _, _, _, g5, _⟩ := getCached_fields (checkConcurrency a.core spec).1 spec.target now
    split
    · unfold putFromCache
      split
      · rw [startPut_puts]; simp only; rw [g5]; exact h0
      · simp only [registerPut]
        rw [startPut_puts]; simp only; rw [g5]
        exact putKeys_alSet _ _ _ h0
    · simp only [registerPut]
      rw [get_puts]; simp only; rw [g5]
      exact putKeys_alSet _ _ _ h0

theorem pickup_putKeys (a : Actor) (env : Env) (msg : Option ApiMsg) (h : PutKeys a.core.puts) :
    PutKeys (a.pickup env msg).core.puts := by
  unfold pickup
  split
  · exact h
  · exact h
  · exact h
  · rename_i c spec extra
    unfold pickupPut
    have := put_putKeys a spec extra env.now h
    split
    · simpa [parkPutCaller] using this
    · simpa using this
  · unfold pickupGet
    simp only [parkGetCaller]
    rw [get_puts]; exact h

theorem maintenance_puts (a : Actor) (now : Nat) : (a.maintenance now).core.puts = a.core.puts := by
  unfold maintenance
  have h1 : (a.bootstrapIfEmpty now).core.puts = a.core.puts := by
    unfold bootstrapIfEmpty; split
    · exact populate_puts a now
    · rfl
  have h2 : ∀ b : Actor, (b.refreshTable now).core.puts = b.core.puts := by
    intro b
    unfold refreshTable
    split
    · rw [populate_puts]
      unfold adaptiveSwitch; split <;> rfl
    · rfl
  have h3 : ∀ b : Actor, (b.pingTable now).core.puts = b.core.puts := by
    intro b
    unfold pingTable
    split
    · have hfold : ∀ (l : List Addr) (x : Actor), (l.foldl (fun a addr => a.ping addr now) x).core = x.core := by
        intro l
        induction l with
        | nil => intro x; rfl
        | cons y ys ih => intro x; simp only [List.foldl_cons]; rw [ih]; rfl
      rw [hfold]
      rfl
    · rfl
  rw [h3, h2, h1]

/-- **one put per target**, after every iteration of the loop -/
theorem step_putKeys (a : Actor) (h : PutKeys a.core.puts) (env : Env) (dgram : Option (Message × Addr)) (msg : Option ApiMsg) :
    PutKeys (a.step env dgram msg).core.puts := by
  rw [step_core, maintenance_puts]
  apply pickup_putKeys
  unfold afterRecv
  apply finishTick_putKeys
  rw [(C06.visitClosestAll_frame _ _).1]
  exact preDone_putKeys a env dgram h

theorem create_putKeys (cfg : NodeConfig) (seed : UInt64) (now : Nat) : PutKeys (Actor.create cfg seed now).core.puts := by
  unfold Actor.create
  split <;>
  · simp only
    rw [maintenance_puts]
    simp [PutKeys]

theorem run_putKeys (ins : List StepIn) : ∀ a : Actor, PutKeys a.core.puts → PutKeys (runSteps a ins).core.puts := by
  unfold runSteps
  induction ins with
  | nil => intro a h; exact h
  | cons i is ih => intro a h; simp only [List.foldl_cons]; exact ih _ (step_putKeys a h i.env i.dgram i.msg)

theorem run_good (ins : List StepIn) : ∀ a : Actor, C06.Good a → C06.Good (runSteps a ins) := by
  unfold runSteps
  induction ins with
  | nil => intro a h; exact h
  | cons i is ih => intro a h; simp only [List.foldl_cons]; exact ih _ (C06.step_good a h i.env i.dgram i.msg)

/-- **Quiescence in every reachable state (C20).**  Take any node, any run from its creation (any
    datagrams, any API calls) with a monotone clock, request timeouts at or below `T` and no wrap of
    the id counter.  If in the state reached every request in the table is at least `T` old at the
    next tick and no put is still waiting for its lookup, that tick — when no datagram arrives —
    leaves no registered lookup, no registered put and no parked caller. -/
theorem reachable_quiescent (T : Nat) (cfg : NodeConfig) (seed : UInt64) (t0 : Nat)
    (hb0 : cfg.firstTid % two32 + (Actor.create cfg seed t0).out.length < two32)
    (ins : List StepIn) (hok : RunOk T (Actor.create cfg seed t0) t0 ins) (env : Env)
    (hnow : endNow t0 ins ≤ env.now)
    (hb : (runSteps (Actor.create cfg seed t0) ins).sock.nextTid +
      (((runSteps (Actor.create cfg seed t0) ins).afterRecv env none).out.length -
        (runSteps (Actor.create cfg seed t0) ins).out.length) < two32)
    (hT : (runSteps (Actor.create cfg seed t0) ins).sock.timeout ≤ T)
    (hdue : ∀ r ∈ (runSteps (Actor.create cfg seed t0) ins).sock.requests, r.sentAt + T ≤ env.now)
    (hstarted : ∀ p ∈ (runSteps (Actor.create cfg seed t0) ins).core.puts, p.2.q.inflight ≠ []) :
    ((runSteps (Actor.create cfg seed t0) ins).afterRecv env none).core.iter = [] ∧
    ((runSteps (Actor.create cfg seed t0) ins).afterRecv env none).core.puts = [] ∧
    ((runSteps (Actor.create cfg seed t0) ins).afterRecv env none).getSenders = [] ∧
    ((runSteps (Actor.create cfg seed t0) ins).afterRecv env none).putSenders = [] :=
  quiescent_tick T _ _ (reachable_ready T cfg seed t0 hb0 ins hok)
    (run_putKeys ins _ (create_putKeys cfg seed t0))
    (run_good ins _ (C06.create_good cfg seed t0)).waits env hnow hb hT hdue hstarted

/-! ## The tick that ends the lookup a put waits on -/

/-- a lookup all of whose requests are at least `T` old is found done in this tick -/
theorem due_lookup_done (T : Nat) (a : Actor) (now0 : Nat) (hs : SockOk a now0) (hk : IterKeys a.core.iter)
    (env : Env) (hnow : now0 ≤ env.now) (dgram : Option (Message × Addr))
    (hb : a.sock.nextTid + ((a.afterRecv env dgram).out.length - a.out.length) < two32)
    (hT0 : a.sock.timeout ≤ T) (hT1 : (a.recvPhase env.now dgram).1.sock.timeout ≤ T)
    (t : Id) (q : IterQuery) (hq : alGet a.core.iter t = some q) (hc : C07.Closed q) (hD : DueBy T a q env.now) :
    t ∈ (((a.preDone env dgram).visitClosestAll env.now).doneLookups env.now).map (·.1) := by
  have hs0 := hs.mono hnow
  have A03 := preDone_adv a env dgram
  have A34 := visitClosestAll_adv (a.preDone env dgram) env.now
  have A45 := finishTick_adv ((a.preDone env dgram).visitClosestAll env.now) env.now ((a.preDone env dgram).checkDonePuts env.now)
  have hb' : a.sock.nextTid + ((finishTick ((a.preDone env dgram).visitClosestAll env.now) env.now
      ((a.preDone env dgram).checkDonePuts env.now)).out.length - a.out.length) < two32 := hb
  obtain ⟨F03, hb35, _⟩ := Adv.split A03 (A34.trans A45) hb'
  obtain ⟨F34, _, _⟩ := Adv.split A34 A45 hb35
  have hs4 := F34.sockOk (F03.sockOk hs0)
  have hk4 := visitClosestAll_keys _ env.now (preDone_keys a env dgram hk)
  have ht4 : ((a.preDone env dgram).visitClosestAll env.now).sock.timeout ≤ T := by
    rw [visitClosestAll_tmo]; unfold preDone; rw [forwardValue_sock, handleIncoming_tmo]; exact hT1
  have hqlt : ∀ tid ∈ q.inflight, tid < a.sock.nextTid := hs.iter (t, q) (mem_of_alGet _ _ _ hq)
  rcases preDone_tracked a env dgram hk t q hq with h3 | ⟨m, src, hh, hnr, hin, _⟩
  · obtain ⟨q4, g4, c4, _⟩ := visitClosestAll_tracked (a.preDone env dgram) env.now t q h3
    have e4 := c4 hc
    subst e4
    have hd4 : DueBy T ((a.preDone env dgram).visitClosestAll env.now) q4 env.now :=
      dueBy_same (F03.trans F34) q4 hqlt _ hD
    exact (doneLookups_keys _ env.now t q4 hk4 g4).2
      (due_done T _ env.now env.now hs4.ord q4 (hs4.iter (t, q4) (mem_of_alGet _ _ _ g4)) ht4 hd4)
  · obtain ⟨r, hr, hrt, hlive⟩ := handed_live a env.now dgram m src hs.ord.inv hh hnr
    have hrin : r.tid ∈ q.inflight := by
      rw [hrt]; unfold IterQuery.isInflight at hin; simpa using hin
    have := hD r hr hrin
    simp only [Inflight.live, decide_eq_true_eq] at hlive
    omega

/-- `start_put_queries`: the ids a put lists afterwards are the ones it listed before, or new -/
theorem startPuts_tids (now : Nat) (t : Id) (N : Nat) (di : List (Id × List Node)) (acc : Actor × List (Id × Option PutErr))
    (e : PutEntry) (he : alGet acc.1.core.puts t = some e) (hN : N ≤ acc.1.sock.nextTid)
    (hlo : ∀ tid ∈ e.q.inflight, N ≤ tid)
    (hb : acc.1.sock.nextTid + ((di.foldl (startPutOne now) acc).1.out.length - acc.1.out.length) < two32) :
    ∃ e', alGet (di.foldl (startPutOne now) acc).1.core.puts t = some e' ∧ ∀ tid ∈ e'.q.inflight, N ≤ tid := by
  induction di generalizing acc e with
  | nil => exact ⟨e, he, hlo⟩
  | cons d ds ih =>
    simp only [List.foldl_cons] at hb ⊢
    have A1 := startPutOne_adv now acc d
    have A2 : Adv now (startPutOne now acc d).1 (ds.foldl (startPutOne now) (startPutOne now acc d)).1 := by
      have : ∀ (l : List (Id × List Node)) (x : Actor × List (Id × Option PutErr)),
          Adv now x.1 (l.foldl (startPutOne now) x).1 := by
        intro l
        induction l with
        | nil => intro x; exact Adv.refl now _
        | cons y ys ihh => intro x; simp only [List.foldl_cons]; exact (startPutOne_adv now x y).trans (ihh _)
      exact this ds _
    obtain ⟨F1, hb2, _⟩ := Adv.split A1 A2 hb
    have hb1 : acc.1.sock.nextTid + ((startPutOne now acc d).1.out.length - acc.1.out.length) < two32 := by
      obtain ⟨l2, e2⟩ := A2.out
      have : (ds.foldl (startPutOne now) (startPutOne now acc d)).1.out.length
          = (startPutOne now acc d).1.out.length + l2.length := by rw [e2, List.length_append]
      omega
    have hN1 : N ≤ (startPutOne now acc d).1.sock.nextTid := Nat.le_trans hN F1.next
    by_cases hd : d.1 = t
    · -- the put's own lookup: it is started (or fails) here
      have key : ∃ e1, alGet (startPutOne now acc d).1.core.puts t = some e1 ∧ ∀ tid ∈ e1.q.inflight, N ≤ tid := by
        unfold startPutOne at hb1 ⊢
        rw [hd, he] at hb1 ⊢
        simp only at hb1 ⊢
        obtain ⟨_, h2⟩ := startPut_adv acc.1 e d.2 now
        have hb1' : acc.1.sock.nextTid + ((startPut acc.1 e d.2 now).1.out.length - acc.1.out.length) < two32 := by
          split at hb1 <;> exact hb1
        have htids := h2 hb1'
        have hfin : ∀ tid ∈ (startPut acc.1 e d.2 now).2.1.q.inflight, N ≤ tid := by
          intro tid ht
          rcases htids tid ht with h | ⟨h, _⟩
          · exact hlo tid h
          · exact Nat.le_trans hN h
        split
        · exact ⟨_, alGet_alSet_self _ _ _, hfin⟩
        · exact ⟨_, alGet_alSet_self _ _ _, hfin⟩
      obtain ⟨e1, g1, l1⟩ := key
      exact ih (startPutOne now acc d) e1 g1 hN1 l1 hb2
    · obtain ⟨_, _, _, _, h5, _, _⟩ := C06.startPutOne_spec now acc d
      exact ih (startPutOne now acc d) e (by rw [h5 t (fun x => hd x.symm)]; exact he) hN1 hlo hb2

/-- a put found decided or failed at the end of the tick is unregistered and its callers are handed
    its outcome (as `finishTick_put`, for everything `start_put_queries` reports) -/
theorem finishTick_put_failed (a4 : Actor) (now : Nat) (dp0 : List (Id × Option PutErr)) (t : Id)
    (h : t ∈ (startPuts a4 now (a4.doneLookups now) dp0).2.map (·.1)) : ReleasedPut a4 (finishTick a4 now dp0) t := by
  unfold finishTick
  generalize a4.doneLookups now = di at h ⊢
  obtain ⟨_, _, s3, _⟩ := C06.startPuts_spec now di (a4, dp0)
  have hsp : startPuts a4 now di dp0 = di.foldl (startPutOne now) (a4, dp0) := rfl
  rw [hsp] at h ⊢
  generalize di.foldl (startPutOne now) (a4, dp0) = sp at s3 h
  simp only at s3
  obtain ⟨_, _, c3⟩ := C06.cleanupDone_spec sp.1.core di sp.2
  generalize cleanupDone sp.1.core di sp.2 = cd at c3
  have hping : ∀ (b : Actor) (to : Option Addr), (b.pingOpt to now).core = b.core ∧
      (b.pingOpt to now).putSenders = b.putSenders := by
    intro b to; unfold pingOpt; split <;> exact ⟨rfl, rfl⟩
  obtain ⟨g1, g3⟩ := hping { sp.1 with core := cd.1 } cd.2
  obtain ⟨rg1, rg2, _⟩ := C06.releaseGet_spec (pingOpt { sp.1 with core := cd.1 } cd.2 now) di
  obtain ⟨rp1, _, rp3⟩ := C06.releasePut_spec
    (releaseGetCallers (pingOpt { sp.1 with core := cd.1 } cd.2 now) di) sp.2
  refine ⟨?_, ?_, ?_⟩
  · rw [rp1, rg1, g1]; exact c3 t h
  · apply not_hasKey_none
    intro hh
    exact ((rp3 t).1 hh).2 h
  · intro cs hcs
    have hs' : alGet (releaseGetCallers (pingOpt { sp.1 with core := cd.1 } cd.2 now) di).putSenders t = some cs := by
      rw [rg2, g3]; simp only; rw [s3]; exact hcs
    exact releasePut_events sp.2 _ t h cs hs'

/-- a put that `start_put_queries` does not report stays registered through the end of the tick -/
theorem finishTick_put_kept (a4 : Actor) (now : Nat) (dp0 : List (Id × Option PutErr)) (t : Id)
    (h : t ∉ (startPuts a4 now (a4.doneLookups now) dp0).2.map (·.1)) :
    alGet (finishTick a4 now dp0).core.puts t = alGet (startPuts a4 now (a4.doneLookups now) dp0).1.core.puts t := by
  unfold finishTick
  generalize startPuts a4 now (a4.doneLookups now) dp0 = sp at h ⊢
  obtain ⟨_, c2, _⟩ := C06.cleanupDone_spec sp.1.core (a4.doneLookups now) sp.2
  generalize cleanupDone sp.1.core (a4.doneLookups now) sp.2 = cd at c2
  have hping : ∀ (b : Actor) (to : Option Addr), (b.pingOpt to now).core = b.core := by
    intro b to; unfold pingOpt; split <;> rfl
  rw [(releasePutCallers_time _ _).2.2, (releaseGetCallers_time _ _).2.2, hping]
  exact c2 t h

/-- **The tick that ends the lookup a put waits on.**  Let `e` be the put registered for `t` that has
    not sent its requests yet, and `q` the lookup it waits on, all of whose requests are at least `T`
    old.  In this tick the lookup is found done and the put is started: afterwards either the put is
    unregistered and its callers have been handed its outcome (nobody to write to), or it is
    registered with requests out, all of them due by `now + T`. -/
theorem waiting_put_tick (T : Nat) (a : Actor) (now0 : Nat) (hs : SockOk a now0) (hki : IterKeys a.core.iter)
    (hkp : PutKeys a.core.puts) (env : Env) (hnow : now0 ≤ env.now) (dgram : Option (Message × Addr))
    (hb : a.sock.nextTid + ((a.afterRecv env dgram).out.length - a.out.length) < two32)
    (hT0 : a.sock.timeout ≤ T) (hT1 : (a.recvPhase env.now dgram).1.sock.timeout ≤ T)
    (t : Id) (e : PutEntry) (he : alGet a.core.puts t = some e) (hu : e.q.inflight = [])
    (q : IterQuery) (hq : alGet a.core.iter t = some q) (hc : C07.Closed q) (hD : DueBy T a q env.now) :
    ReleasedPut a (a.afterRecv env dgram) t ∨
    ∃ e', alGet (a.afterRecv env dgram).core.puts t = some e' ∧ e'.q.inflight ≠ [] ∧
      DuePut T (a.afterRecv env dgram) e' (env.now + T) := by
  have hdone := due_lookup_done T a now0 hs hki env hnow dgram hb hT0 hT1 t q hq hc hD
  have hs0 := hs.mono hnow
  have A03 := preDone_adv a env dgram
  have A34 := visitClosestAll_adv (a.preDone env dgram) env.now
  have A4s := startPuts_adv ((a.preDone env dgram).visitClosestAll env.now) env.now
    (((a.preDone env dgram).visitClosestAll env.now).doneLookups env.now) ((a.preDone env dgram).checkDonePuts env.now)
  have As5 := finishTick_rest_adv ((a.preDone env dgram).visitClosestAll env.now) env.now ((a.preDone env dgram).checkDonePuts env.now)
  have hb' : a.sock.nextTid + ((finishTick ((a.preDone env dgram).visitClosestAll env.now) env.now
      ((a.preDone env dgram).checkDonePuts env.now)).out.length - a.out.length) < two32 := hb
  obtain ⟨F03, hb35, _⟩ := Adv.split A03 (A34.trans (A4s.trans As5)) hb'
  obtain ⟨F34, hb45, F45⟩ := Adv.split A34 (A4s.trans As5) hb35
  obtain ⟨_, _, _⟩ := Adv.split A4s As5 hb45
  have hb4s : ((a.preDone env dgram).visitClosestAll env.now).sock.nextTid +
      ((startPuts ((a.preDone env dgram).visitClosestAll env.now) env.now
        (((a.preDone env dgram).visitClosestAll env.now).doneLookups env.now) ((a.preDone env dgram).checkDonePuts env.now)).1.out.length
        - ((a.preDone env dgram).visitClosestAll env.now).out.length) < two32 := by
    obtain ⟨l2, e2⟩ := As5.out
    have : (finishTick ((a.preDone env dgram).visitClosestAll env.now) env.now ((a.preDone env dgram).checkDonePuts env.now)).out.length
        = (startPuts ((a.preDone env dgram).visitClosestAll env.now) env.now
            (((a.preDone env dgram).visitClosestAll env.now).doneLookups env.now) ((a.preDone env dgram).checkDonePuts env.now)).1.out.length
          + l2.length := by rw [e2, List.length_append]
    omega
  have hs4 := F34.sockOk (F03.sockOk hs0)
  obtain ⟨_, p2, _⟩ := C06.preDone_frame a env dgram
  obtain ⟨v1, _, v3, _⟩ := C06.visitClosestAll_frame (a.preDone env dgram) env.now
  obtain ⟨e3, g3, i3, _⟩ := preDone_put_tracked a env dgram hkp t e he
  have hu3 : e3.q.inflight = [] := by rw [i3]; exact hu
  unfold afterRecv
  generalize ha4 : (a.preDone env dgram).visitClosestAll env.now = a4 at *
  generalize hdp : (a.preDone env dgram).checkDonePuts env.now = dp0 at *
  have g4 : alGet a4.core.puts t = some e3 := by rw [v1]; exact g3
  have hsp : startPuts a4 env.now (a4.doneLookups env.now) dp0 = (a4.doneLookups env.now).foldl (startPutOne env.now) (a4, dp0) := rfl
  obtain ⟨e', ge', hlo⟩ := startPuts_tids env.now t a4.sock.nextTid (a4.doneLookups env.now) (a4, dp0) e3 g4
    (Nat.le_refl _) (by rw [hu3]; intro tid h; cases h) (by rw [← hsp]; exact hb4s)
  obtain ⟨_, _, _, _, _, s6, _⟩ := C06.startPuts_spec env.now (a4.doneLookups env.now) (a4, dp0)
  rw [← hsp] at ge' s6
  by_cases hin : t ∈ (startPuts a4 env.now (a4.doneLookups env.now) dp0).2.map (·.1)
  · left
    obtain ⟨r1, r2, r3⟩ := finishTick_put_failed a4 env.now dp0 t hin
    exact ⟨r1, r2, fun cs hcs => r3 cs (by rw [v3, p2]; exact hcs)⟩
  · right
    have hst : e'.q.inflight ≠ [] := by
      rcases s6 t hdone e' ge' with h | h
      · exact h
      · exact absurd h hin
    refine ⟨e', by rw [finishTick_put_kept a4 env.now dp0 t hin]; exact ge', hst, ?_⟩
    intro r hr ht
    rcases F45.reqs r hr with h | ⟨_, h⟩
    · have h1 := hs4.ord.tid_lt r h
      have h2 := hlo r.tid ht
      omega
    · omega

/-! ### the hypotheses are satisfiable (a test, labelled as a test) -/

example : PutKeys (Actor.create demoCfg 7 0).core.puts ∧ C06.Waits (Actor.create demoCfg 7 0) :=
  ⟨create_putKeys _ _ _, (C06.create_good _ _ _).waits⟩

end Mainline.Props.C06Puts
