/-
  C01, one hop for mutable items: every reachable reader, every reachable holder.
-/
import MainlineModel.Props.C01HopMut
import MainlineModel.Props.StoreLift
namespace Mainline.Props.C01HopMut
open Mainline Mainline.Actor Mainline.Props.C01Hop

/-- bookkeeping is an invariant (mutable callers): see `C01Hop.outstanding_of_state` -/
theorem outstandingMut_of_state (b : Actor) (now0 : Nat) (hord : SockOrd b.sock now0) (hat : Attr b)
    (htg : C09Own.Targeted b.core.iter) (hk : C06Time.IterKeys b.core.iter)
    (target : Id) (q : IterQuery) (hq : alGet b.core.iter target = some q)
    (r : InflightReq) (hr : r ∈ b.sock.requests) (hin : r.tid ∈ q.inflight) (now : Nat) (hlive : b.sock.live r now = true)
    (senders : List Sender) (c : Nat) (hs : alGet b.getSenders target = some senders) (hc : Sender.mutable c ∈ senders) :
    ∃ x : Message, (r.to, x) ∈ b.out ∧ x.mtype = .request ⟨q.requesterId, q.kind.request target⟩ ∧
      OutstandingMut b now x.tid r.to target q.salt c := by
  have hmem : (target, q) ∈ b.core.iter := mem_of_alGet _ _ _ hq
  obtain ⟨x, hx, hxt, hxm⟩ := C09Own.sock_entry hat (target, q) hmem r hr hin
  have htq : q.target = target := htg (target, q) hmem
  obtain ⟨o1, o2⟩ := C09Own.owner_found hat htg hk target q hq r.tid hin
  refine ⟨x, hx, by rw [hxm]; simp only [IterQuery.request, htq], ?_⟩
  exact ⟨hord.inv, ⟨r, hr, ⟨hxt.symm, compareAddr_self r.to⟩, hlive⟩, by rw [hxt]; exact o1,
    ⟨q, by rw [hxt]; exact o2, htq, rfl⟩, ⟨senders, hs, hc⟩⟩

/-- **One hop, mutable items, every reachable reader and every reachable holder.**  Reader: any node after
    any run from its creation, with a `get` lookup (no seq filter, salt `salt`) of `target` registered, a
    caller parked for mutable items and a request of the lookup live in the request table.  Holder: any
    node after any run from ITS creation (under the same signature check) that is in server mode and holds
    an item with that salt under `target`.  The request datagram is in the reader's log; delivered to the
    holder it brings an answer; delivered back in time, the answer makes the reader hand the stored item to
    the caller. -/
theorem reachable_mutable_round_trip (T : Nat) (verify : Verify)
    (cfgB : NodeConfig) (seedB : UInt64) (tB : Nat)
    (hbB : cfgB.firstTid % two32 + (Actor.create cfgB seedB tB).out.length < two32)
    (insB : List Actor.StepIn) (hokB : C06Time.RunOk T (Actor.create cfgB seedB tB) tB insB)
    (cfgA : NodeConfig) (seedA : UInt64) (tA : Nat) (insA : List Actor.StepIn)
    (hvA : ∀ i ∈ insA, i.env.verify = verify)
    (hrA : C14Node.RunWf tA insA) (hwfA : ∀ i ∈ insA, C01.DgramTyped i.dgram)
    (reader : Addr) (target : Id) (q : IterQuery) (item : StoredItem)
    (hq : alGet (Actor.runSteps (Actor.create cfgB seedB tB) insB).core.iter target = some q)
    (hkind : q.kind = .getValue none item.salt)
    (r : InflightReq) (hr : r ∈ (Actor.runSteps (Actor.create cfgB seedB tB) insB).sock.requests) (hin : r.tid ∈ q.inflight)
    (senders : List Sender) (c : Nat)
    (hs : alGet (Actor.runSteps (Actor.create cfgB seedB tB) insB).getSenders target = some senders)
    (hc : Sender.mutable c ∈ senders)
    (hsA : (Actor.runSteps (Actor.create cfgA seedA tA) insA).core.serverMode = true)
    (hsA' : (Actor.runSteps (Actor.create cfgA seedA tA) insA).sockServerMode = true)
    (hheld : (Actor.runSteps (Actor.create cfgA seedA tA) insA).core.server.mutable.find? target = some item)
    (hno : (Actor.runSteps (Actor.create cfgA seedA tA) insA).core.server.immutable.find? target = none)
    (hallow : (Actor.runSteps (Actor.create cfgA seedA tA) insA).core.allow ⟨q.requesterId, .getValue target none item.salt⟩ reader = true)
    (hreader : reader.port ≠ 0) (hholder : r.to.port ≠ 0)
    (envA envB : Env) (hverify : envB.verify = verify) (msgA msgB : Option ApiMsg)
    (hlive : (Actor.runSteps (Actor.create cfgB seedB tB) insB).sock.live r envB.now = true) :
    ∃ x : Message, (r.to, x) ∈ (Actor.runSteps (Actor.create cfgB seedB tB) insB).out ∧
      ∃ l, ((Actor.runSteps (Actor.create cfgA seedA tA) insA).step envA (some (x, reader)) msgA).out =
          (Actor.runSteps (Actor.create cfgA seedA tA) insA).out ++ l ∧ ∃ y ∈ l, y.1 = reader ∧
        Event.value c (.mutable { target := target, key := item.key, value := item.value, seq := item.seq,
                                  sig := item.sig, salt := item.salt }) ∈
          ((Actor.runSteps (Actor.create cfgB seedB tB) insB).step envB (some (y.2, r.to)) msgB).events := by
  have hready := C06Time.reachable_ready T cfgB seedB tB hbB insB hokB
  obtain ⟨x, hx, hxm, hout⟩ := outstandingMut_of_state _ _ hready.sock.ord (C09Own.reachable_attr T cfgB seedB tB hbB insB hokB)
    (C09Own.reachable_targeted cfgB seedB tB insB) hready.keys target q hq r hr hin envB.now hlive senders c hs hc
  have hsalt : q.salt = item.salt := by unfold IterQuery.salt; rw [hkind]
  have hxm' : x.mtype = .request ⟨q.requesterId, .getValue target none item.salt⟩ := by rw [hxm, hkind]; rfl
  rw [hsalt] at hout
  have hvalid := (StoreLift.reachable_stores_valid verify cfgA seedA tA insA hvA).1
  have hok := (C01.reachable_srvOk cfgA seedA tA insA hrA hwfA).1
  exact ⟨x, hx, round_trip_mutable _ _ r.to reader x q.requesterId target item c verify hsA hsA' hheld hno hvalid hok hallow
    hreader hholder hxm' envA envB hverify msgA msgB hout⟩

end Mainline.Props.C01HopMut
