/-
  C14 for the whole node — "peers that stop answering disappear from the routing table within about
  20 minutes".

  `Props/C14.lean` proves what one 5-minute round does to a table (`prune_spec`).  Here the statement is
  an invariant of every reachable node state:

      every entry of both routing tables was heard from at most 15 minutes before the last ping round.

  (`Heard`, `step_tables`, `reachable_tables`.)  Since the round runs in the first iteration of the loop
  that finds the last one more than 5 minutes old (`C14.ping_round_when_due`), an entry was heard from
  within 15 min + 5 min + the gap between two iterations: a silent peer is gone about 20 minutes after
  its last answer (`silent_peer_bound`).  The structural invariant of C12 (`TableInv`) is carried along:
  it holds for both tables of every reachable state.

  Hypotheses: the clock does not run backwards, and the ids in delivered datagrams are 20 bytes long
  (the decoder accepts nothing else: `Id` is `[u8; 20]` in the code).
-/
import MainlineModel.Props.C14
import MainlineModel.Props.C19
import MainlineModel.Lemmas.TimeLemmas
import MainlineModel.Props.C06Time
namespace Mainline.Props.C14Node
open Mainline Mainline.Actor Mainline.RoutingTable Mainline.Props.C12

def staleNs : Nat := secsToNs Constants.STALE_TIME_SECS

/-- every entry was heard from no more than the staleness time before `since` -/
def Heard (rt : RoutingTable) (since : Nat) : Prop := ∀ e ∈ rt.entries, since ≤ e.lastSeen + staleNs

theorem entries_add (rt : RoutingTable) (hinv : TableInv rt) (n : Node) (now : Nat) (e : Node)
    (h : e ∈ (rt.add n now).1.entries) : e = n ∨ e ∈ rt.entries := by
  unfold RoutingTable.add at h
  split at h
  · exact Or.inr h
  · split at h
    · exact Or.inr h
    · simp only at h
      rcases (mem_entries_setBucket rt hinv.sorted _ _ e).1 h with h | ⟨b, hb, _, heb⟩
      · rcases kbucketAdd_mem _ n now e h with h | h
        · exact Or.inl h
        · right
          cases hb : rt.bucket (rt.id.distance n.id) with
          | none => rw [hb] at h; simp at h
          | some b =>
            rw [hb] at h
            simp only [Option.getD_some] at h
            exact (mem_entries rt e).2 ⟨_, findB_some_mem rt.buckets _ b (by rw [← bucket_eq_findB]; exact hb), h⟩
      · exact Or.inr ((mem_entries rt e).2 ⟨b, hb, heb⟩)

theorem heard_add (rt : RoutingTable) (hinv : TableInv rt) (n : Node) (now since : Nat) (h : Heard rt since)
    (hn : since ≤ n.lastSeen + staleNs) : Heard (rt.add n now).1 since := by
  intro e he
  rcases entries_add rt hinv n now e he with rfl | h'
  · exact hn
  · exact h e h'

theorem heard_fold_add (ns : List Node) (now since : Nat) (hwf : ∀ n ∈ ns, n.id.bytes.length = 20)
    (hns : ∀ n ∈ ns, since ≤ n.lastSeen + staleNs) :
    ∀ t : RoutingTable, TableInv t → Heard t since → Heard (ns.foldl (fun t n => (t.add n now).1) t) since := by
  induction ns with
  | nil => intro t _ h; exact h
  | cons n ns ih =>
    intro t hinv h
    simp only [List.foldl_cons]
    exact ih (fun m hm => hwf m (List.mem_cons_of_mem _ hm)) (fun m hm => hns m (List.mem_cons_of_mem _ hm)) _
      (inv_add t hinv n now (hwf n List.mem_cons_self))
      (heard_add t hinv n now since h (hns n List.mem_cons_self))

/-- re-keying keeps nothing that was not there -/
theorem heard_resetId (rt : RoutingTable) (hinv : TableInv rt) (id : Id) (hid : id.bytes.length = 20) (now since : Nat)
    (h : Heard rt since) : Heard (rt.resetId id now) since := by
  unfold RoutingTable.resetId
  apply heard_fold_add
  · intro n hn
    obtain ⟨b, hb, heb⟩ := (mem_entries rt n).1 (mem_nodes_imp_mem_entries rt n hn)
    exact hinv.wf b hb n heb
  · intro n hn
    exact h n (mem_nodes_imp_mem_entries rt n hn)
  · exact inv_new id hid
  · intro e he
    simp [RoutingTable.entries] at he

/-- after the ping round every entry left was heard from within the staleness time of `now` -/
theorem heard_prune (rt : RoutingTable) (hinv : TableInv rt) (now : Nat) : Heard (pruneAndPing rt now).1 now := by
  intro e he
  obtain ⟨_, hns⟩ := (C14.prune_spec rt hinv now e).1 he
  unfold Node.isStale Node.age at hns
  simp only [gt_iff_lt, decide_eq_false_iff_not, Nat.not_lt] at hns
  unfold staleNs
  omega

/-! ### the invariant of the node -/

/-- both tables satisfy the structural invariant of C12, and every entry of either was heard from no
    more than the staleness time before the last ping round -/
structure TOk (c : Core) (now : Nat) : Prop where
  inv : TableInv c.rt
  sinv : TableInv c.srt
  heard : Heard c.rt c.lastPing
  sheard : Heard c.srt c.lastPing
  clock : c.lastPing ≤ now

/-- the part of the core the invariant looks at -/
def tbl (c : Core) : RoutingTable × RoutingTable × Nat := (c.rt, c.srt, c.lastPing)

theorem TOk.of_tbl {c c' : Core} {now : Nat} (h : tbl c' = tbl c) (hk : TOk c now) : TOk c' now := by
  unfold tbl at h
  injection h with h1 h2
  injection h2 with h2 h3
  exact ⟨h1 ▸ hk.inv, h2 ▸ hk.sinv, by rw [h1, h3]; exact hk.heard, by rw [h2, h3]; exact hk.sheard, by rw [h3]; exact hk.clock⟩

theorem TOk.mono {c : Core} {now now' : Nat} (hk : TOk c now) (h : now ≤ now') : TOk c now' :=
  ⟨hk.inv, hk.sinv, hk.heard, hk.sheard, Nat.le_trans hk.clock h⟩

/-- offering a node that was just heard from to either table keeps the invariant -/
theorem tok_add_both (c : Core) (now : Nat) (hk : TOk c now) (n : Node) (hwf : n.id.bytes.length = 20) (hn : n.lastSeen = now) :
    TOk { c with rt := (c.rt.add n now).1, srt := (c.srt.add n now).1 } now ∧
    TOk { c with rt := (c.rt.add n now).1 } now ∧ TOk { c with srt := (c.srt.add n now).1 } now := by
  have hb : c.lastPing ≤ n.lastSeen + staleNs := by rw [hn]; exact Nat.le_trans hk.clock (Nat.le_add_right _ _)
  have h1 := inv_add c.rt hk.inv n now hwf
  have h2 := inv_add c.srt hk.sinv n now hwf
  have g1 := heard_add c.rt hk.inv n now c.lastPing hk.heard hb
  have g2 := heard_add c.srt hk.sinv n now c.lastPing hk.sheard hb
  exact ⟨⟨h1, h2, g1, g2, hk.clock⟩, ⟨h1, hk.sinv, g1, hk.sheard, hk.clock⟩, ⟨hk.inv, h2, hk.heard, g2, hk.clock⟩⟩

theorem rngFill_length (n : Nat) (s : UInt64) : (rngFill n s).1.length = n := by
  induction n generalizing s with
  | zero => rfl
  | succ n ih => simp [rngFill, ih]

theorem maybeAdd_tok (c : Core) (now : Nat) (hk : TOk c now) (src : Addr) (version : Option Bytes) (ro : Bool) (req : Request)
    (hwf : ∀ t, req.rtype = .findNode t → t.bytes.length = 20) :
    TOk (maybeAddNodeFromRequest c src version ro req now) now := by
  unfold maybeAddNodeFromRequest
  split
  · split
    · rename_i target htarget
      obtain ⟨k1, k2, k3⟩ := tok_add_both c now hk { id := target, addr := src, lastSeen := now } (hwf target htarget) rfl
      unfold addRequester
      split
      · split
        · exact k1
        · exact k2
      · split
        · exact k3
        · exact hk
    · exact hk
  · exact hk

theorem verifySelfPing_tok (c : Core) (now : Nat) (hk : TOk c now) (src : Addr) (req : Request) :
    TOk (verifySelfPing c src req now).1 now := by
  unfold verifySelfPing
  split
  · split
    · split
      · unfold rekey
        have hid : (Id.fromIpv4 (rngFill 21 c.server.rng).1 src.ip).bytes.length = 20 := by
          unfold Id.fromIpv4
          apply C19.fromIpv4AndR_wf
          simp [rngFill_length]
        rename_i our _ hsrc _
        have hsrc' : src = our := by
          simp only [Bool.and_eq_true, beq_iff_eq] at hsrc
          exact hsrc.1
        subst hsrc'
        exact ⟨inv_resetId c.rt hk.inv _ now hid, inv_resetId c.srt hk.sinv _ now hid,
          heard_resetId c.rt hk.inv _ hid now c.lastPing hk.heard,
          heard_resetId c.srt hk.sinv _ hid now c.lastPing hk.sheard, hk.clock⟩
      · exact ⟨hk.inv, hk.sinv, hk.heard, hk.sheard, hk.clock⟩
    · exact hk
  · exact hk

theorem handleRequest_tok (c : Core) (env : Env) (hk : TOk c env.now) (src : Addr) (ro : Bool) (version : Option Bytes)
    (req : Request) (hwf : ∀ t, req.rtype = .findNode t → t.bytes.length = 20) :
    TOk (handleRequest c env src ro version req).1 env.now := by
  unfold handleRequest
  split
  · exact hk
  · unfold serveRequest
    have h := verifySelfPing_tok _ env.now (maybeAdd_tok c env.now hk src version ro req hwf) src req
    split
    · exact ⟨h.inv, h.sinv, h.heard, h.sheard, h.clock⟩
    · exact h

theorem addResponder_tok (c : Core) (now : Nat) (hk : TOk c now) (src : Addr) (m : Message)
    (hwf : ∀ i, authorId m = some i → i.bytes.length = 20) : TOk (addResponder c now src m) now := by
  unfold addResponder
  split
  · rename_i i hi
    obtain ⟨k1, k2, _⟩ := tok_add_both c now hk { id := i, addr := src, lastSeen := now } (hwf i hi) rfl
    split
    · exact k1
    · exact k2
  · exact hk

theorem handleResponse_tok (c : Core) (env : Env) (hk : TOk c env.now) (src : Addr) (m : Message)
    (hwf : ∀ i, authorId m = some i → i.bytes.length = 20) : TOk (handleResponse c env src m).1 env.now := by
  unfold handleResponse
  split
  · exact hk
  · split
    · exact TOk.of_tbl (c := c) rfl hk
    · split
      · rename_i target q _
        have hk' : TOk { c with iter := alSet c.iter target (lookupStep q env src m).1 } env.now := TOk.of_tbl (c := c) rfl hk
        split
        · exact addResponder_tok _ env.now hk' src m hwf
        · exact hk'
      · split
        · exact addResponder_tok c env.now hk src m hwf
        · exact hk

theorem pingRound_tok (c : Core) (now : Nat) (hk : TOk c now) : TOk (pingRound { c with lastPing := now } now).1 now := by
  unfold pingRound
  exact ⟨C14.prune_inv c.rt hk.inv now, C14.prune_inv c.srt hk.sinv now, heard_prune c.rt hk.inv now,
    heard_prune c.srt hk.sinv now, Nat.le_refl _⟩

/-! ### everything else leaves the tables alone -/

theorem getCached_tbl (c : Core) (t : Id) (now : Nat) : tbl (getCachedClosestNodes c t now).1 = tbl c := by
  unfold getCachedClosestNodes; split <;> rfl

theorem createIter_tbl (c : Core) (k : GetKind) (t : Id) (ex : List Addr) (now : Nat) :
    tbl (createIterativeQuery c k t ex now).1 = tbl c := by
  unfold createIterativeQuery
  split
  · rfl
  · simp only; exact getCached_tbl c t now

theorem startLookup_tbl (a : Actor) (k : GetKind) (t : Id) (ex : List Addr) (now : Nat) :
    tbl (a.startLookup k t ex now).core = tbl a.core := by
  have := createIter_tbl a.core k t ex now
  unfold startLookup
  split
  · rename_i core q tv hm
    rw [hm] at this
    exact this
  · rename_i core hm
    rw [hm] at this
    exact this

theorem get_tbl (a : Actor) (k : GetKind) (t : Id) (ex : List Addr) (now : Nat) : tbl (a.get k t ex now).1.core = tbl a.core := by
  unfold Actor.get
  split
  · rfl
  · exact startLookup_tbl a k t ex now

theorem populate_tbl (a : Actor) (now : Nat) : tbl (a.populate now).core = tbl a.core := by
  unfold populate
  split
  · rfl
  · exact get_tbl a _ _ _ now

theorem checkConcurrency_tbl (c : Core) (spec : PutSpec) : tbl (checkConcurrency c spec).1 = tbl c := by
  unfold checkConcurrency
  split
  · split
    · split
      · split
        · rfl
        · split
          · rfl
          · split
            · split <;> rfl
            · rfl
      · rfl
    · rfl
  · rfl

theorem sendPuts_tbl (spec : PutSpec) (sent : List ((Addr × Bytes) × Nat)) (a : Actor) :
    tbl (sendPuts a spec sent).core = tbl a.core := by
  rw [sendPuts_eq]
  induction sent generalizing a with
  | nil => rfl
  | cons x xs ih => simp only [List.foldl_cons]; rw [ih]; rfl

theorem startPut_tbl (a : Actor) (e : PutEntry) (closest : List Node) (now : Nat) :
    tbl (startPut a e closest now).1.core = tbl a.core := by
  rw [(startPut_eq a e closest now).1, sendPuts_tbl]

theorem putFromCache_tbl (a : Actor) (spec : PutSpec) (extra closest : List Node) (now : Nat) :
    tbl (putFromCache a spec extra closest now).1.core = tbl a.core := by
  have h := startPut_tbl a (newPutEntry spec extra) closest now
  unfold putFromCache
  split
  · exact h
  · simp only [registerPut]; exact h

theorem putAfterCheck_tbl (a : Actor) (spec : PutSpec) (extra : List Node) (now : Nat) :
    tbl (putAfterCheck a spec extra now).1.core = tbl a.core := by
  have h1 := getCached_tbl a.core spec.target now
  unfold putAfterCheck
  split
  · exact (putFromCache_tbl _ spec extra _ now).trans h1
  · simp only [registerPut]
    exact (get_tbl { a with core := (getCachedClosestNodes a.core spec.target now).1 } (GetKind.ofPut spec) spec.target [] now).trans h1

theorem put_tbl (a : Actor) (spec : PutSpec) (extra : List Node) (now : Nat) : tbl (a.put spec extra now).1.core = tbl a.core := by
  have h0 := checkConcurrency_tbl a.core spec
  unfold Actor.put
  split
  · exact h0
  · exact (putAfterCheck_tbl { a with core := (checkConcurrency a.core spec).1 } spec extra now).trans h0

theorem pickup_tbl (a : Actor) (env : Env) (msg : Option ApiMsg) : tbl (a.pickup env msg).core = tbl a.core := by
  unfold pickup
  split
  · rfl
  · rfl
  · rfl
  · rename_i c spec extra
    unfold pickupPut
    have := put_tbl a spec extra env.now
    split
    · exact this
    · exact this
  · unfold pickupGet
    exact get_tbl a _ _ _ env.now

theorem visitClosest_tbl (a : Actor) (t : Id) (now : Nat) : tbl (a.visitClosest t now).core = tbl a.core := by
  unfold visitClosest
  split
  · simp only
    rw [(visitAll_core _ _ _ _).1]
    rfl
  · rfl

theorem visitClosestAll_tbl (a : Actor) (now : Nat) : tbl (a.visitClosestAll now).core = tbl a.core := by
  unfold visitClosestAll
  have : ∀ (l : List (Id × IterQuery)) (b : Actor),
      tbl (l.foldl (fun (a : Actor) (p : Id × IterQuery) => a.visitClosest p.1 now) b).core = tbl b.core := by
    intro l
    induction l with
    | nil => intro b; rfl
    | cons p ps ih => intro b; simp only [List.foldl_cons]; rw [ih, visitClosest_tbl]
  exact this a.core.iter a

theorem startPuts_tbl (now : Nat) (di : List (Id × List Node)) (acc : Actor × List (Id × Option PutErr)) :
    tbl (di.foldl (startPutOne now) acc).1.core = tbl acc.1.core := by
  induction di generalizing acc with
  | nil => rfl
  | cons d ds ih =>
    simp only [List.foldl_cons]
    rw [ih]
    unfold startPutOne
    split
    · rename_i e _
      have := startPut_tbl acc.1 e d.2 now
      split <;> exact this
    · rfl

theorem decrementCached_tbl (c : Core) (e : Option CachedQuery) : tbl (decrementCached c e) = tbl c := by
  unfold decrementCached
  split
  · split
    · rfl
    · split <;> rfl
  · rfl

theorem countEntry_tbl (c : Core) (e : CachedQuery) : tbl (countEntry c e) = tbl c := by
  unfold countEntry
  split
  · rfl
  · split <;> rfl

theorem evictIfFull_tbl (c : Core) : tbl (evictIfFull c) = tbl c := by
  unfold evictIfFull
  split
  · exact decrementCached_tbl _ _
  · rfl

theorem cacheQuery_tbl (c : Core) (q : IterQuery) (nodes : List Node) : tbl (cacheQuery c q nodes) = tbl c := by
  unfold cacheQuery
  split
  · exact evictIfFull_tbl c
  · rw [countEntry_tbl, decrementCached_tbl]
    exact evictIfFull_tbl c

theorem updateAddressVotes_tbl (c : Core) (q : IterQuery) : tbl (updateAddressVotes c q).1 = tbl c := by
  unfold updateAddressVotes
  split
  · split <;> rfl
  · rfl

theorem cleanupDone_tbl (c : Core) (di : List (Id × List Node)) (dp : List (Id × Option PutErr)) :
    tbl (cleanupDone c di dp).1 = tbl c := by
  unfold cleanupDone
  have h1 : ∀ (l : List (Id × List Node)) (acc : Core × Option Addr), tbl (l.foldl cleanupOneLookup acc).1 = tbl acc.1 := by
    intro l
    induction l with
    | nil => intro acc; rfl
    | cons d ds ih =>
      intro acc
      simp only [List.foldl_cons]
      rw [ih]
      unfold cleanupOneLookup
      split
      · rename_i q _
        have := (updateAddressVotes_tbl (cacheQuery { acc.1 with iter := alRemove acc.1.iter d.1 } q d.2) q).trans
          (cacheQuery_tbl { acc.1 with iter := alRemove acc.1.iter d.1 } q d.2)
        split <;> exact this
      · rfl
  have h2 : ∀ (l : List (Id × Option PutErr)) (c' : Core), tbl (l.foldl removePut c') = tbl c' := by
    intro l
    induction l with
    | nil => intro c'; rfl
    | cons d ds ih => intro c'; simp only [List.foldl_cons]; rw [ih]; rfl
  simp only
  rw [h2]
  exact h1 di (c, none)

theorem finishTick_tbl (a : Actor) (now : Nat) (dp0 : List (Id × Option PutErr)) : tbl (finishTick a now dp0).core = tbl a.core := by
  unfold finishTick
  have hsp : startPuts a now (a.doneLookups now) dp0 = (a.doneLookups now).foldl (startPutOne now) (a, dp0) := rfl
  rw [hsp]
  have h1 := startPuts_tbl now (a.doneLookups now) (a, dp0)
  generalize (a.doneLookups now).foldl (startPutOne now) (a, dp0) = sp at h1
  have h2 := cleanupDone_tbl sp.1.core (a.doneLookups now) sp.2
  generalize cleanupDone sp.1.core (a.doneLookups now) sp.2 = cd at h2
  have hping : ∀ (b : Actor) (to : Option Addr), (b.pingOpt to now).core = b.core := by
    intro b to; unfold pingOpt; split <;> rfl
  rw [(releasePutCallers_time _ _).2.2, (releaseGetCallers_time _ _).2.2, hping]
  exact h2.trans h1

/-! ### one iteration, every run -/

/-- the ids a datagram carries into the routing tables are 20 bytes long (`Id` is `[u8; 20]`) -/
def DgramWf (dgram : Option (Message × Addr)) : Prop :=
  ∀ m src, dgram = some (m, src) →
    (∀ i, authorId m = some i → i.bytes.length = 20) ∧
    (∀ req t, m.mtype = .request req → req.rtype = .findNode t → t.bytes.length = 20)

theorem preDone_tok (a : Actor) (env : Env) (hk : TOk a.core env.now) (dgram : Option (Message × Addr)) (hwf : DgramWf dgram) :
    TOk (a.preDone env dgram).core env.now := by
  unfold preDone
  rw [C06Time.forwardValue_core]
  obtain ⟨_, rc, _, _⟩ := recvPhase_time a env.now dgram
  have hh : ∀ m src, (a.recvPhase env.now dgram).2 = some (m, src) → dgram = some (m, src) :=
    fun m src h => C07.recvPhase_handed a env.now dgram m src h
  generalize (a.recvPhase env.now dgram).1 = a1 at rc
  generalize (a.recvPhase env.now dgram).2 = handed at hh
  rw [← rc] at hk
  unfold handleIncoming
  split
  · exact hk
  · rename_i m src
    obtain ⟨w1, w2⟩ := hwf m src (hh m src rfl)
    split
    · rename_i req hreq
      unfold handleIncomingRequest
      have h := handleRequest_tok a1.core env hk src m.readOnly m.version req (fun t ht => w2 req t hreq ht)
      split
      · exact TOk.of_tbl (by rw [populate_tbl, sendReply_core]) h
      · exact TOk.of_tbl (by rw [sendReply_core]) h
    · exact handleResponse_tok a1.core env hk src m w1

theorem pingTable_tok (a : Actor) (now : Nat) (hk : TOk a.core now) : TOk (a.pingTable now).core now := by
  unfold pingTable
  split
  · have hfold : ∀ (l : List Addr) (x : Actor), (l.foldl (fun a addr => a.ping addr now) x).core = x.core := by
      intro l
      induction l with
      | nil => intro x; rfl
      | cons y ys ih => intro x; simp only [List.foldl_cons]; rw [ih]; rfl
    rw [hfold]
    exact pingRound_tok a.core now hk
  · exact hk

theorem maintenance_tok (a : Actor) (now : Nat) (hk : TOk a.core now) : TOk (a.maintenance now).core now := by
  unfold maintenance
  apply pingTable_tok
  have h1 : tbl (a.bootstrapIfEmpty now).core = tbl a.core := by
    unfold bootstrapIfEmpty; split
    · exact populate_tbl a now
    · rfl
  have h2 : ∀ b : Actor, tbl (b.refreshTable now).core = tbl b.core := by
    intro b
    unfold refreshTable
    split
    · rw [populate_tbl]
      unfold adaptiveSwitch; split <;> rfl
    · rfl
  exact TOk.of_tbl ((h2 _).trans h1) hk

/-- **One iteration of the loop keeps both routing tables well-formed and fresh** — whatever
    datagram arrives (with 20-byte ids), whatever API message is picked up, as long as the clock does
    not run backwards. -/
theorem step_tables (a : Actor) (now0 : Nat) (hk : TOk a.core now0) (env : Env) (hnow : now0 ≤ env.now)
    (dgram : Option (Message × Addr)) (hwf : DgramWf dgram) (msg : Option ApiMsg) :
    TOk (a.step env dgram msg).core env.now := by
  rw [C06Time.step_core]
  apply maintenance_tok
  refine TOk.of_tbl (pickup_tbl _ env msg) ?_
  unfold afterRecv
  refine TOk.of_tbl (finishTick_tbl _ env.now _) ?_
  refine TOk.of_tbl (visitClosestAll_tbl _ env.now) ?_
  exact preDone_tok a env (hk.mono hnow) dgram hwf

theorem create_tables (cfg : NodeConfig) (seed : UInt64) (now : Nat) : TOk (Actor.create cfg seed now).core now := by
  have hfresh : ∀ (i : Id) (hid : i.bytes.length = 20) (c : Core), c.rt = { id := i } → c.srt = { id := i } → c.lastPing = now → TOk c now := by
    intro i hid c h1 h2 h3
    refine ⟨h1 ▸ inv_new i hid, h2 ▸ inv_new i hid, ?_, ?_, by rw [h3]; exact Nat.le_refl _⟩
    · intro e he; rw [h1] at he; simp [RoutingTable.entries] at he
    · intro e he; rw [h2] at he; simp [RoutingTable.entries] at he
  unfold Actor.create
  cases hp : cfg.publicIp with
  | some ip =>
    simp only
    apply maintenance_tok
    refine hfresh (Id.fromIpv4 (rngFill 21 seed).1 ip) ?_ _ rfl rfl rfl
    unfold Id.fromIpv4
    apply C19.fromIpv4AndR_wf
    simp [rngFill_length]
  | none =>
    simp only
    apply maintenance_tok
    exact hfresh ⟨(rngFill 20 seed).1⟩ (rngFill_length 20 seed) _ rfl rfl rfl

/-- the inputs of a run: the clock does not run backwards and delivered datagrams carry 20-byte ids -/
def RunWf : Nat → List StepIn → Prop
  | _, [] => True
  | now0, i :: is => now0 ≤ i.env.now ∧ DgramWf i.dgram ∧ RunWf i.env.now is

/-- **Every reachable state**: both routing tables satisfy the structural invariant of C12 and hold
    only entries heard from at most 15 minutes before the last ping round. -/
theorem reachable_tables (cfg : NodeConfig) (seed : UInt64) (t0 : Nat) (ins : List StepIn) (hr : RunWf t0 ins) :
    TOk (runSteps (Actor.create cfg seed t0) ins).core (C06Time.endNow t0 ins) := by
  have : ∀ (l : List StepIn) (a : Actor) (now0 : Nat), TOk a.core now0 → RunWf now0 l →
      TOk (runSteps a l).core (C06Time.endNow now0 l) := by
    intro l
    induction l with
    | nil => intro a now0 h _; exact h
    | cons i is ih =>
      intro a now0 h hr
      obtain ⟨h1, h2, h3⟩ := hr
      exact ih _ _ (step_tables a now0 h i.env h1 i.dgram h2 i.msg) h3
  exact this ins _ t0 (create_tables cfg seed t0) hr

/-- **A silent peer is gone about 20 minutes after its last answer.**  In a state satisfying the
    invariant, whose last ping round is at most `5 min + gap` old (it runs in the first iteration that
    finds it more than 5 minutes old, so `gap` is the distance between two iterations), every entry of
    either table was heard from within `15 min + 5 min + gap`. -/
theorem silent_peer_bound (c : Core) (now gap : Nat) (hk : TOk c now)
    (hround : now ≤ c.lastPing + secsToNs Constants.PING_TABLE_SECS + gap) :
    ∀ e, e ∈ c.rt.entries ∨ e ∈ c.srt.entries →
      now ≤ e.lastSeen + secsToNs (15 * 60) + secsToNs (5 * 60) + gap := by
  intro e he
  have h15 : staleNs = secsToNs (15 * 60) := by unfold staleNs; rw [const_stale]
  have h5 : secsToNs Constants.PING_TABLE_SECS = secsToNs (5 * 60) := by rw [C14.intervals.2.1]
  have hb : c.lastPing ≤ e.lastSeen + staleNs := by
    rcases he with he | he
    · exact hk.heard e he
    · exact hk.sheard e he
  rw [h15] at hb
  rw [h5] at hround
  omega

end Mainline.Props.C14Node
