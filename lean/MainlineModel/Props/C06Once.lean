/-
  C06, "exactly one outcome … no result is delivered twice", for the whole node.

  The time bound (`Props/C06Time.lean`, `C06Puts.lean`) shows that every call gets ITS outcome; here: it
  gets no second one.  A caller is *parked* while the actor holds its reply channel (under the target of
  its put, or of its lookup); a *closing* event is what ends a call — the result of a put, the end of a
  get stream, the node list of find_node / get_closest_nodes.  The ledger of a node state is the list of
  parked callers followed by the callers of all closing events so far.  One iteration of the loop only
  ever MOVES callers from the parked part to the closing part (releases), or adds the caller of the API
  message it picks up to one of the two parts (`step_ledger`); nothing is duplicated, nothing appears from
  nowhere.  Hence, when every API message carries its own caller id (each call has its own channel), the
  ledger has no duplicates in any reachable state (`reachable_ledger`), and in particular no caller ever
  receives two closing events (`no_result_twice`).
-/
import MainlineModel.Props.C06
import MainlineModel.Props.C02Events
import MainlineModel.Props.C06Puts
namespace Mainline.Props.C06Once
open Mainline Mainline.Actor

/-! ### association lists with distinct keys -/

def KeysNodup {β : Type} (l : List (Id × β)) : Prop := (l.map (·.1)).Nodup

theorem filter_ne_all {β : Type} (l : List (Id × β)) (t : Id) (h : ∀ p ∈ l, p.1 ≠ t) :
    l.filter (fun p => !(p.1 == t)) = l := by
  rw [List.filter_eq_self]
  intro p hp
  simp [h p hp]

theorem map_ne_all {β : Type} (l : List (Id × β)) (t : Id) (v : β) (h : ∀ p ∈ l, p.1 ≠ t) :
    l.map (fun p => if p.1 == t then (t, v) else p) = l := by
  induction l with
  | nil => rfl
  | cons p r ih =>
    have hp : (p.1 == t) = false := by simpa using h p List.mem_cons_self
    simp only [List.map_cons, hp, Bool.false_eq_true, ite_false]
    rw [ih (fun q hq => h q (List.mem_cons_of_mem _ hq))]

/-- with distinct keys, a present key splits the list, and `alRemove` / `alSet` act at that place -/
theorem split_of_get {β : Type} (l : List (Id × β)) (t : Id) (v : β) (hk : KeysNodup l) (h : alGet l t = some v) :
    ∃ pre post, l = pre ++ (t, v) :: post ∧ alRemove l t = pre ++ post ∧
      (∀ v', alSet l t v' = pre ++ (t, v') :: post) ∧ (∀ p ∈ pre ++ post, p.1 ≠ t) := by
  induction l with
  | nil => simp [alGet] at h
  | cons p r ih =>
    unfold KeysNodup at hk
    simp only [List.map_cons, List.nodup_cons] at hk
    by_cases hp : p.1 = t
    · have hv : p.2 = v := by
        simp only [alGet, List.find?_cons, hp, beq_self_eq_true, Option.map_some, Option.some.injEq] at h
        exact h
      have hr : ∀ q ∈ r, q.1 ≠ t := by
        intro q hq e
        exact hk.1 (by rw [hp, ← e]; exact List.mem_map_of_mem hq)
      refine ⟨[], r, ?_, ?_, ?_, ?_⟩
      · simp only [List.nil_append]
        congr
        exact Prod.ext hp hv
      · simp only [alRemove, List.filter_cons, hp, beq_self_eq_true, Bool.not_true, Bool.false_eq_true, ite_false, List.nil_append]
        exact filter_ne_all r t hr
      · intro v'
        simp only [alSet, List.any_cons, hp, beq_self_eq_true, Bool.true_or, ite_true, List.map_cons, List.nil_append]
        rw [map_ne_all r t v' hr]
      · intro q hq; exact hr q (by simpa using hq)
    · have hg : alGet r t = some v := by
        simp only [alGet, List.find?_cons] at h
        have : (p.1 == t) = false := by simpa using hp
        rw [this] at h
        exact h
      obtain ⟨pre, post, e1, e2, e3, e4⟩ := ih hk.2 hg
      refine ⟨p :: pre, post, by rw [e1]; rfl, ?_, ?_, ?_⟩
      · have : (p.1 == t) = false := by simpa using hp
        simp only [alRemove, List.filter_cons, this, Bool.not_false, ite_true, List.cons_append]
        have := e2
        simp only [alRemove] at this
        rw [this]
      · intro v'
        have hne : (p.1 == t) = false := by simpa using hp
        have hany : r.any (fun q => q.1 == t) = true := by
          rw [e1]; simp
        have := e3 v'
        simp only [alSet, hany, ite_true] at this
        simp only [alSet, List.any_cons, hne, Bool.false_or, hany, ite_true, List.map_cons, Bool.false_eq_true, ite_false,
          List.cons_append]
        rw [this]
      · intro q hq
        simp only [List.cons_append, List.mem_cons, List.mem_append] at hq
        rcases hq with e | e | e
        · rw [e]; exact hp
        · exact e4 q (List.mem_append_left _ e)
        · exact e4 q (List.mem_append_right _ e)

/-- an absent key: `alSet` appends, `alRemove` does nothing -/
theorem absent_of_get {β : Type} (l : List (Id × β)) (t : Id) (h : alGet l t = none) :
    (∀ p ∈ l, p.1 ≠ t) ∧ alRemove l t = l ∧ ∀ v, alSet l t v = l ++ [(t, v)] := by
  have hall : ∀ p ∈ l, p.1 ≠ t := by
    intro p hp e
    have : hasKey l p.1 := hasKey_of_mem l p hp
    unfold hasKey at this
    rw [e, h] at this
    cases this
  refine ⟨hall, filter_ne_all l t hall, ?_⟩
  intro v
  have : l.any (fun p => p.1 == t) = false := by
    rw [List.any_eq_false]
    intro p hp
    simpa using hall p hp
  simp only [alSet, this, Bool.false_eq_true, ite_false]


theorem keysNodup_set {β : Type} (l : List (Id × β)) (t : Id) (v : β) (hk : KeysNodup l) : KeysNodup (alSet l t v) := by
  cases hg : alGet l t with
  | some v0 =>
    obtain ⟨pre, post, e1, _, e3, _⟩ := split_of_get l t v0 hk hg
    rw [e3 v]
    unfold KeysNodup at hk ⊢
    rw [e1] at hk
    simpa using hk
  | none =>
    obtain ⟨hall, _, e3⟩ := absent_of_get l t hg
    rw [e3 v]
    unfold KeysNodup at hk ⊢
    rw [List.map_append, List.nodup_append]
    refine ⟨hk, by simp, ?_⟩
    intro x hx y hy
    simp only [List.map_cons, List.map_nil, List.mem_singleton] at hy
    subst hy
    rw [List.mem_map] at hx
    obtain ⟨p, hp, rfl⟩ := hx
    exact hall p hp

theorem keysNodup_remove {β : Type} (l : List (Id × β)) (t : Id) (hk : KeysNodup l) : KeysNodup (alRemove l t) := by
  unfold KeysNodup alRemove at *
  exact hk.sublist (List.Sublist.map _ List.filter_sublist)

/-! ### the ledger -/

/-- the caller a closing event goes to -/
def closingCaller : Event → Option Nat
  | .putResult c _ => some c
  | .closed c => some c
  | .nodes c _ => some c
  | _ => none

def closings (l : List Event) : List Nat := l.filterMap closingCaller

def putParked (a : Actor) : List Nat := a.putSenders.flatMap (·.2)
def getParked (a : Actor) : List Nat := a.getSenders.flatMap (fun p => p.2.map senderCaller)

/-- parked callers, then the callers of all closing events so far -/
def ledger (a : Actor) : List Nat := putParked a ++ getParked a ++ closings a.events

structure Keys (a : Actor) : Prop where
  put : KeysNodup a.putSenders
  get : KeysNodup a.getSenders

theorem closings_append (l1 l2 : List Event) : closings (l1 ++ l2) = closings l1 ++ closings l2 := by
  simp [closings, List.filterMap_append]

theorem closings_closingEvents (nodes : List Node) (ss : List Sender) :
    closings (ss.map (closingEvent nodes)) = ss.map senderCaller := by
  induction ss with
  | nil => rfl
  | cons s r ih =>
    have : closingCaller (closingEvent nodes s) = some (senderCaller s) := by cases s <;> rfl
    simp only [List.map_cons, closings, List.filterMap_cons, this]
    exact congrArg _ ih

theorem closings_putResults (cs : List Nat) (o : Except PutErr Id) :
    closings (cs.map fun c => Event.putResult c o) = cs := by
  induction cs with
  | nil => rfl
  | cons c r ih =>
    simp only [List.map_cons, closings, List.filterMap_cons, closingCaller]
    exact congrArg _ ih

/-- nothing about callers changed -/
theorem ledger_same {a a' : Actor} (h1 : a'.putSenders = a.putSenders) (h2 : a'.getSenders = a.getSenders)
    (h3 : closings a'.events = closings a.events) : ledger a' = ledger a ∧ (Keys a → Keys a') := by
  refine ⟨by simp only [ledger, putParked, getParked, h1, h2, h3], fun hk => ⟨by rw [h1]; exact hk.put, by rw [h2]; exact hk.get⟩⟩

/-- answering the callers of a finished put moves them from the parked part to the closing part -/
theorem releasePutOne_ledger (a : Actor) (d : Id × Option PutErr) (hk : Keys a) :
    Keys (a.releasePutOne d) ∧ (ledger (a.releasePutOne d)).Perm (ledger a) := by
  unfold releasePutOne
  cases hg : alGet a.putSenders d.1 with
  | none => exact ⟨hk, List.Perm.refl _⟩
  | some cs =>
    obtain ⟨pre, post, e1, e2, _, _⟩ := split_of_get a.putSenders d.1 cs hk.put hg
    refine ⟨⟨keysNodup_remove _ _ hk.put, hk.get⟩, ?_⟩
    simp only [ledger, putParked, getParked, e2, closings_append, closings_putResults]
    rw [e1]
    simp only [List.flatMap_append, List.flatMap_cons, List.append_assoc]
    -- pre ++ post ++ G ++ C ++ cs  ~  pre ++ cs ++ post ++ G ++ C
    refine List.Perm.append_left _ ?_
    rw [← List.append_assoc _ _ cs, ← List.append_assoc _ _ cs]
    exact List.perm_append_comm.trans (by simp [List.append_assoc])

/-- … and so for a finished lookup -/
theorem releaseGetOne_ledger (a : Actor) (d : Id × List Node) (hk : Keys a) :
    Keys (a.releaseGetOne d) ∧ (ledger (a.releaseGetOne d)).Perm (ledger a) := by
  unfold releaseGetOne
  cases hg : alGet a.getSenders d.1 with
  | none => exact ⟨hk, List.Perm.refl _⟩
  | some ss =>
    obtain ⟨pre, post, e1, e2, _, _⟩ := split_of_get a.getSenders d.1 ss hk.get hg
    refine ⟨⟨hk.put, keysNodup_remove _ _ hk.get⟩, ?_⟩
    simp only [ledger, putParked, getParked, e2, closings_append, closings_closingEvents]
    rw [e1]
    simp only [List.flatMap_append, List.flatMap_cons, List.append_assoc]
    refine List.Perm.append_left _ (List.Perm.append_left _ ?_)
    -- post ++ C ++ S  ~  S ++ post ++ C
    rw [← List.append_assoc]
    exact List.perm_append_comm


/-! ### phases that move callers from parked to answered, or nothing -/

/-- callers are only moved from the parked part of the ledger to the answered part -/
def Same (a a' : Actor) : Prop := Keys a → Keys a' ∧ (ledger a').Perm (ledger a)

theorem Same.refl (a : Actor) : Same a a := fun h => ⟨h, List.Perm.refl _⟩

theorem Same.trans {a b c : Actor} (h1 : Same a b) (h2 : Same b c) : Same a c := by
  intro hk
  obtain ⟨k1, p1⟩ := h1 hk
  obtain ⟨k2, p2⟩ := h2 k1
  exact ⟨k2, p2.trans p1⟩

theorem Same.of_frame {a a' : Actor} (h1 : a'.putSenders = a.putSenders) (h2 : a'.getSenders = a.getSenders)
    (h3 : ∃ l, a'.events = a.events ++ l ∧ closings l = []) : Same a a' := by
  intro hk
  obtain ⟨l, e, hl⟩ := h3
  obtain ⟨q1, q2⟩ := ledger_same (a := a) (a' := a') h1 h2 (by rw [e, closings_append, hl, List.append_nil])
  exact ⟨q2 hk, by rw [q1]⟩

theorem Same.of_eq {a a' : Actor} (h1 : a'.putSenders = a.putSenders) (h2 : a'.getSenders = a.getSenders)
    (h3 : a'.events = a.events) : Same a a' :=
  Same.of_frame h1 h2 ⟨[], by simp [h3], rfl⟩

theorem closings_values (ss : List Sender) (v : Value) : closings (ss.filterMap fun s => sendTo s v) = [] := by
  induction ss with
  | nil => rfl
  | cons s r ih =>
    unfold closings at ih ⊢
    rw [List.filterMap_cons]
    cases hs : sendTo s v with
    | none => exact ih
    | some e =>
      have : closingCaller e = none := by
        cases s <;> cases v <;> simp [sendTo] at hs <;> (subst hs; rfl)
      simp only [List.filterMap_cons, this]
      exact ih

theorem closings_values' (vs : List Value) (s : Sender) : closings (vs.filterMap fun v => sendTo s v) = [] := by
  induction vs with
  | nil => rfl
  | cons v r ih =>
    unfold closings at ih ⊢
    rw [List.filterMap_cons]
    cases hs : sendTo s v with
    | none => exact ih
    | some e =>
      have : closingCaller e = none := by
        cases s <;> cases v <;> simp [sendTo] at hs <;> (subst hs; rfl)
      simp only [List.filterMap_cons, this]
      exact ih

/-- the first half of the tick answers nobody: it only forwards values -/
theorem preDone_same (a : Actor) (env : Env) (dgram : Option (Message × Addr)) : Same a (a.preDone env dgram) := by
  obtain ⟨g, p, _⟩ := C06.preDone_frame a env dgram
  refine Same.of_frame p g ?_
  unfold preDone
  have re := C02.recvPhase_events a env.now dgram
  generalize (a.recvPhase env.now dgram).1 = a1 at re
  generalize (a.recvPhase env.now dgram).2 = handed
  have he := C02.handleIncoming_events a1 env handed
  generalize (a1.handleIncoming env handed).1 = a2 at he
  generalize (a1.handleIncoming env handed).2 = nv
  unfold forwardValue
  split
  · split
    · exact ⟨_, by simp only; rw [he, re], closings_values _ _⟩
    · exact ⟨[], by simp [he, re], rfl⟩
  · exact ⟨[], by simp [he, re], rfl⟩

theorem releaseGet_same (done : List (Id × List Node)) (b : Actor) : Same b (b.releaseGetCallers done) := by
  unfold releaseGetCallers
  induction done generalizing b with
  | nil => exact Same.refl b
  | cons d ds ih =>
    simp only [List.foldl_cons]
    exact Same.trans (fun hk => releaseGetOne_ledger b d hk) (ih _)

theorem releasePut_same (done : List (Id × Option PutErr)) (b : Actor) : Same b (b.releasePutCallers done) := by
  unfold releasePutCallers
  induction done generalizing b with
  | nil => exact Same.refl b
  | cons d ds ih =>
    simp only [List.foldl_cons]
    exact Same.trans (fun hk => releasePutOne_ledger b d hk) (ih _)

/-- the second half of the tick: finished work answers its parked callers, each once -/
theorem rest_same (a3 : Actor) (now : Nat) (dp0 : List (Id × Option PutErr)) :
    Same a3 (finishTick (a3.visitClosestAll now) now dp0) := by
  obtain ⟨_, v2, v3, _⟩ := C06.visitClosestAll_frame a3 now
  have h4 : Same a3 (a3.visitClosestAll now) := Same.of_eq v3 v2 (C02.visitClosestAll_events a3 now)
  refine h4.trans ?_
  generalize a3.visitClosestAll now = a4
  unfold finishTick
  have hsp : startPuts a4 now (a4.doneLookups now) dp0 = (a4.doneLookups now).foldl (startPutOne now) (a4, dp0) := rfl
  rw [hsp]
  have hs := C02.startPuts_events now (a4.doneLookups now) (a4, dp0)
  obtain ⟨_, s2, s3, _⟩ := C06.startPuts_spec now (a4.doneLookups now) (a4, dp0)
  generalize (a4.doneLookups now).foldl (startPutOne now) (a4, dp0) = sp at hs s2 s3
  generalize cleanupDone sp.1.core (a4.doneLookups now) sp.2 = cd
  have hping : ∀ (b : Actor) (to : Option Addr), (b.pingOpt to now).events = b.events ∧
      (b.pingOpt to now).putSenders = b.putSenders ∧ (b.pingOpt to now).getSenders = b.getSenders := by
    intro b to; unfold pingOpt; split <;> exact ⟨rfl, rfl, rfl⟩
  obtain ⟨p1, p2, p3⟩ := hping { sp.1 with core := cd.1 } cd.2
  have h5 : Same a4 (pingOpt { sp.1 with core := cd.1 } cd.2 now) :=
    Same.of_eq (p2.trans s3) (p3.trans s2) (p1.trans hs)
  exact h5.trans ((releaseGet_same _ _).trans (releasePut_same _ _))

theorem afterRecv_same (a : Actor) (env : Env) (dgram : Option (Message × Addr)) : Same a (a.afterRecv env dgram) := by
  unfold afterRecv
  exact (preDone_same a env dgram).trans (rest_same _ _ _)

theorem populate_same (b : Actor) (now : Nat) : Same b (b.populate now) := by
  obtain ⟨_, p2, p3, _⟩ := C06.populate_frame b now
  exact Same.of_eq p3 p2 (C02.populate_events b now)

theorem maintenance_same (a : Actor) (now : Nat) : Same a (a.maintenance now) := by
  unfold maintenance
  have h1 : Same a (a.bootstrapIfEmpty now) := by
    unfold bootstrapIfEmpty; split
    · exact populate_same a now
    · exact Same.refl a
  have h2 : ∀ b : Actor, Same b (b.refreshTable now) := by
    intro b
    unfold refreshTable
    split
    · refine Same.trans ?_ (populate_same _ now)
      unfold adaptiveSwitch
      split <;> exact Same.of_eq rfl rfl rfl
    · exact Same.refl b
  have h3 : ∀ b : Actor, Same b (b.pingTable now) := by
    intro b
    unfold pingTable
    split
    · have hfold : ∀ (l : List Addr) (x : Actor), (l.foldl (fun a addr => a.ping addr now) x).events = x.events ∧
          (l.foldl (fun a addr => a.ping addr now) x).getSenders = x.getSenders ∧
          (l.foldl (fun a addr => a.ping addr now) x).putSenders = x.putSenders := by
        intro l
        induction l with
        | nil => intro x; exact ⟨rfl, rfl, rfl⟩
        | cons y ys ih =>
          intro x
          simp only [List.foldl_cons]
          obtain ⟨i1, i2, i3⟩ := ih (x.ping y now)
          exact ⟨i1, i2, i3⟩
      obtain ⟨f1, f2, f3⟩ := hfold (pingRound { b.core with lastPing := now } now).2
        { b with core := (pingRound { b.core with lastPing := now } now).1 }
      exact Same.of_eq f3 f2 f1
    · exact Same.refl b
  exact h1.trans ((h2 _).trans (h3 _))

/-! ### the pick-up parks one caller, or answers it at once -/

theorem put_senders (a : Actor) (spec : PutSpec) (extra : List Node) (now : Nat) :
    (a.put spec extra now).1.putSenders = a.putSenders ∧ (a.put spec extra now).1.getSenders = a.getSenders := by
  unfold Actor.put
  split
  · exact ⟨rfl, rfl⟩
  · have hb : ∀ b : Actor, (b.putAfterCheck spec extra now).1.putSenders = b.putSenders ∧
        (b.putAfterCheck spec extra now).1.getSenders = b.getSenders := by
      intro b
      unfold putAfterCheck
      split
      · rename_i closest _
        unfold putFromCache
        obtain ⟨_, _, f3, f4, _⟩ := C06.startPut_frame { b with core := (getCachedClosestNodes b.core spec.target now).1 }
          (newPutEntry spec extra) closest now
        split
        · exact ⟨f4, f3⟩
        · exact ⟨f4, f3⟩
      · obtain ⟨_, q2, q3, _⟩ := C06.get_frame { b with core := (getCachedClosestNodes b.core spec.target now).1 }
          (GetKind.ofPut spec) spec.target [] now
        exact ⟨q3, q2⟩
    exact hb _


/-- the caller an API message brings with it -/
def msgCallers : Option ApiMsg → List Nat
  | some (.put c _ _) => [c]
  | some (.get _ _ s) => [senderCaller s]
  | _ => []

theorem parkPut_ledger (a : Actor) (t : Id) (c : Nat) (hk : Keys a) :
    Keys (parkPutCaller a t c) ∧ (ledger (parkPutCaller a t c)).Perm (c :: ledger a) := by
  refine ⟨⟨keysNodup_set _ _ _ hk.put, hk.get⟩, ?_⟩
  unfold parkPutCaller
  cases hg : alGet a.putSenders t with
  | some cs =>
    obtain ⟨pre, post, e1, _, e3, _⟩ := split_of_get a.putSenders t cs hk.put hg
    simp only [ledger, putParked, getParked, e3, Option.getD_some]
    rw [e1]
    simp only [List.flatMap_append, List.flatMap_cons, List.append_assoc]
    have : ∀ (X R : List Nat), (X ++ (cs ++ ([c] ++ R))).Perm (c :: (X ++ (cs ++ R))) := by
      intro X R
      have h := List.perm_middle (a := c) (l₁ := X ++ cs) (l₂ := R)
      simpa [List.append_assoc] using h
    exact this _ _
  | none =>
    obtain ⟨_, _, e3⟩ := absent_of_get a.putSenders t hg
    simp only [ledger, putParked, getParked, e3, Option.getD_none]
    simp only [List.flatMap_append, List.flatMap_cons, List.flatMap_nil, List.append_assoc, List.nil_append, List.append_nil]
    have h := List.perm_middle (a := c) (l₁ := List.flatMap (fun x => x.snd) a.putSenders)
      (l₂ := List.flatMap (fun p => List.map senderCaller p.snd) a.getSenders ++ closings a.events)
    simpa [List.append_assoc] using h

theorem parkGet_ledger (a : Actor) (t : Id) (s : Sender) (hk : Keys a) :
    Keys (parkGetCaller a t s) ∧ (ledger (parkGetCaller a t s)).Perm (senderCaller s :: ledger a) := by
  refine ⟨⟨hk.put, keysNodup_set _ _ _ hk.get⟩, ?_⟩
  unfold parkGetCaller
  cases hg : alGet a.getSenders t with
  | some ss =>
    obtain ⟨pre, post, e1, _, e3, _⟩ := split_of_get a.getSenders t ss hk.get hg
    simp only [ledger, putParked, getParked, e3, Option.getD_some]
    rw [e1]
    simp only [List.flatMap_append, List.flatMap_cons, List.append_assoc, List.map_append, List.map_cons, List.map_nil]
    have : ∀ (X R : List Nat), (X ++ (ss.map senderCaller ++ ([senderCaller s] ++ R))).Perm
        (senderCaller s :: (X ++ (ss.map senderCaller ++ R))) := by
      intro X R
      have h := List.perm_middle (a := senderCaller s) (l₁ := X ++ ss.map senderCaller) (l₂ := R)
      simpa [List.append_assoc] using h
    have h := this (List.flatMap (fun x => x.snd) a.putSenders ++ List.flatMap (fun p => List.map senderCaller p.snd) pre)
      (List.flatMap (fun p => List.map senderCaller p.snd) post ++ closings a.events)
    simpa [List.append_assoc] using h
  | none =>
    obtain ⟨_, _, e3⟩ := absent_of_get a.getSenders t hg
    simp only [ledger, putParked, getParked, e3, Option.getD_none]
    simp only [List.flatMap_append, List.flatMap_cons, List.flatMap_nil, List.append_assoc, List.nil_append, List.append_nil,
      List.map_cons, List.map_nil]
    have h := List.perm_middle (a := senderCaller s)
      (l₁ := List.flatMap (fun x => x.snd) a.putSenders ++ List.flatMap (fun p => List.map senderCaller p.snd) a.getSenders)
      (l₂ := closings a.events)
    simpa [List.append_assoc] using h

/-- **The pick-up.**  The caller of an API message is parked, or (a refused put) answered at once; no
    other caller is touched. -/
theorem pickup_ledger (a : Actor) (env : Env) (msg : Option ApiMsg) (hk : Keys a) :
    Keys (a.pickup env msg) ∧ (ledger (a.pickup env msg)).Perm (msgCallers msg ++ ledger a) := by
  unfold pickup
  split
  · exact ⟨hk, List.Perm.refl _⟩
  · exact ⟨hk, List.Perm.refl _⟩
  · rename_i c
    exact (Same.of_frame (a := a) (a' := { a with events := a.events ++ [.info c a.infoView] }) rfl rfl
      ⟨[.info c a.infoView], rfl, rfl⟩) hk
  · rename_i c spec extra
    obtain ⟨p1, p2⟩ := put_senders a spec extra env.now
    have hput : Same a (a.put spec extra env.now).1 := Same.of_eq p1 p2 (C02.put_events a spec extra env.now)
    obtain ⟨k1, q1⟩ := hput hk
    unfold pickupPut
    split
    · obtain ⟨k2, q2⟩ := parkPut_ledger (a.put spec extra env.now).1 spec.target c k1
      exact ⟨k2, q2.trans (List.Perm.cons _ q1)⟩
    · rename_i e _
      refine ⟨⟨k1.put, k1.get⟩, ?_⟩
      simp only [msgCallers, ledger, putParked, getParked, closings_append]
      have h := List.perm_middle (a := c)
        (l₁ := putParked (a.put spec extra env.now).1 ++ getParked (a.put spec extra env.now).1 ++
          closings (a.put spec extra env.now).1.events) (l₂ := [])
      have h2 : (ledger (a.put spec extra env.now).1 ++ [c]).Perm (c :: ledger a) := by
        refine List.Perm.trans ?_ (List.Perm.cons _ q1)
        simpa [ledger] using h
      simpa [ledger, putParked, getParked, closings, closingCaller, List.append_assoc] using h2
  · rename_i kind target sender
    obtain ⟨_, g2, g3, _⟩ := C06.get_frame a kind target [] env.now
    have hget : Same a (a.get kind target [] env.now).1 := Same.of_eq g3 g2 (C02.get_events a kind target [] env.now)
    have hval : Same (a.get kind target [] env.now).1
        { (a.get kind target [] env.now).1 with
          events := (a.get kind target [] env.now).1.events ++ (a.get kind target [] env.now).2.filterMap (fun v => sendTo sender v) } :=
      Same.of_frame rfl rfl ⟨_, rfl, closings_values' _ _⟩
    obtain ⟨k1, q1⟩ := (hget.trans hval) hk
    unfold pickupGet
    obtain ⟨k2, q2⟩ := parkGet_ledger _ target sender k1
    exact ⟨k2, q2.trans (List.Perm.cons _ q1)⟩

/-- **One iteration of the loop.**  The ledger — parked callers, then the callers answered so far — only
    gains the caller of this iteration's API message; everything else is a rearrangement. -/
theorem step_ledger (a : Actor) (env : Env) (dgram : Option (Message × Addr)) (msg : Option ApiMsg) (hk : Keys a) :
    Keys (a.step env dgram msg) ∧ (ledger (a.step env dgram msg)).Perm (msgCallers msg ++ ledger a) := by
  unfold Actor.step
  obtain ⟨k1, q1⟩ := afterRecv_same a env dgram hk
  obtain ⟨k2, q2⟩ := pickup_ledger (a.afterRecv env dgram) env msg k1
  obtain ⟨k3, q3⟩ := maintenance_same ((a.afterRecv env dgram).pickup env msg) env.now k2
  refine ⟨⟨k3.put, k3.get⟩, ?_⟩
  exact (q3.trans q2).trans (List.Perm.append_left _ q1)

/-- the callers a run brings -/
def runCallers (ins : List Actor.StepIn) : List Nat := ins.flatMap fun i => msgCallers i.msg

theorem run_ledger (ins : List Actor.StepIn) (a : Actor) (hk : Keys a) :
    Keys (Actor.runSteps a ins) ∧ (ledger (Actor.runSteps a ins)).Perm (ledger a ++ runCallers ins) := by
  induction ins generalizing a with
  | nil => exact ⟨hk, by simp [Actor.runSteps, runCallers]⟩
  | cons i rest ih =>
    obtain ⟨k1, q1⟩ := step_ledger a i.env i.dgram i.msg hk
    obtain ⟨k2, q2⟩ := ih (a.step i.env i.dgram i.msg) k1
    refine ⟨k2, ?_⟩
    have : Actor.runSteps a (i :: rest) = Actor.runSteps (a.step i.env i.dgram i.msg) rest := rfl
    rw [this]
    refine q2.trans ?_
    have : runCallers (i :: rest) = msgCallers i.msg ++ runCallers rest := by simp [runCallers]
    rw [this, ← List.append_assoc]
    exact List.Perm.append_right _ (q1.trans List.perm_append_comm)

theorem create_ledger (cfg : NodeConfig) (seed : UInt64) (t0 : Nat) :
    Keys (Actor.create cfg seed t0) ∧ ledger (Actor.create cfg seed t0) = [] := by
  unfold Actor.create
  simp only
  generalize hf : ({ sockServerMode := cfg.serverMode, core := _, sock := _ } : Actor) = f
  have hfk : Keys f ∧ ledger f = [] := by
    subst hf
    exact ⟨⟨List.nodup_nil, List.nodup_nil⟩, rfl⟩
  obtain ⟨k, q⟩ := maintenance_same f t0 hfk.1
  refine ⟨⟨k.put, k.get⟩, ?_⟩
  rw [hfk.2] at q
  exact List.perm_nil.mp q

/-- **The ledger of every reachable state.**  After any run of the node — any datagrams, any clock, any
    API calls — the parked callers together with the callers answered so far are exactly the callers
    the API messages of the run brought, each as often as it was brought. -/
theorem reachable_ledger (cfg : NodeConfig) (seed : UInt64) (t0 : Nat) (ins : List Actor.StepIn) :
    (ledger (Actor.runSteps (Actor.create cfg seed t0) ins)).Perm (runCallers ins) := by
  obtain ⟨k, e⟩ := create_ledger cfg seed t0
  obtain ⟨_, q⟩ := run_ledger ins _ k
  rw [e, List.nil_append] at q
  exact q

/-- **C06, no result twice.**  When the calls of a run have distinct caller ids (the facade creates a
    fresh channel per call), no caller is answered twice, nobody who was answered is still parked, and
    every answer goes to a caller of the run. -/
theorem no_result_twice (cfg : NodeConfig) (seed : UInt64) (t0 : Nat) (ins : List Actor.StepIn)
    (hfresh : (runCallers ins).Nodup) :
    let a := Actor.runSteps (Actor.create cfg seed t0) ins
    (closings a.events).Nodup ∧
    (∀ c, c ∈ closings a.events → c ∈ runCallers ins ∧ c ∉ putParked a ∧ c ∉ getParked a) ∧
    (∀ c, c ∈ runCallers ins → c ∈ putParked a ∨ c ∈ getParked a ∨ c ∈ closings a.events) := by
  intro a
  have q := reachable_ledger cfg seed t0 ins
  have hn : (ledger a).Nodup := q.nodup_iff.mpr hfresh
  unfold ledger at hn
  rw [List.nodup_append] at hn
  obtain ⟨h1, h2, h3⟩ := hn
  rw [List.nodup_append] at h1
  refine ⟨h2, ?_, ?_⟩
  · intro c hc
    refine ⟨q.mem_iff.mp (by unfold ledger; exact List.mem_append_right _ hc), ?_, ?_⟩
    · intro hp; exact h3 c (List.mem_append_left _ hp) c hc rfl
    · intro hp; exact h3 c (List.mem_append_right _ hp) c hc rfl
  · intro c hc
    have := q.mem_iff.mpr hc
    unfold ledger at this
    simp only [List.mem_append] at this
    rcases this with (h | h) | h
    · exact Or.inl h
    · exact Or.inr (Or.inl h)
    · exact Or.inr (Or.inr h)

/-- the theorem is about real runs: a put refused at once is answered once -/
example (env : Env) (t : Id) : (runCallers [⟨env, none, some (.get .findNode t (.closestNodes 1))⟩,
    ⟨env, none, some (.get .findNode t (.closestNodes 2))⟩, ⟨env, none, none⟩]).Nodup := by
  simp [runCallers, msgCallers, senderCaller]

example : closings [Event.value 1 (.immutable []), .putResult 2 (.error .conflictRisk), .closed 1, .nodes 4 []] = [2, 1, 4] := rfl


/-- **C06, exactly once.**  Take any run of a node from its creation under the conditions of
    `C06Puts.reachable_quiescent` (monotone clock, request timeouts at or below `T`, no wrap of the id
    counter; every request in the table at least `T` old at the next tick, no put still waiting for its
    lookup).  After that tick the callers answered so far are exactly the callers the API calls of
    the run brought — each call has been answered, and when the calls have their own channels, each
    exactly once. -/
theorem exactly_once_at_quiescence (T : Nat) (cfg : NodeConfig) (seed : UInt64) (t0 : Nat)
    (hb0 : cfg.firstTid % two32 + (Actor.create cfg seed t0).out.length < two32)
    (ins : List Actor.StepIn) (hok : C06Time.RunOk T (Actor.create cfg seed t0) t0 ins) (env : Env)
    (hnow : C06Time.endNow t0 ins ≤ env.now)
    (hb : (Actor.runSteps (Actor.create cfg seed t0) ins).sock.nextTid +
      (((Actor.runSteps (Actor.create cfg seed t0) ins).afterRecv env none).out.length -
        (Actor.runSteps (Actor.create cfg seed t0) ins).out.length) < two32)
    (hT : (Actor.runSteps (Actor.create cfg seed t0) ins).sock.timeout ≤ T)
    (hdue : ∀ r ∈ (Actor.runSteps (Actor.create cfg seed t0) ins).sock.requests, r.sentAt + T ≤ env.now)
    (hstarted : ∀ p ∈ (Actor.runSteps (Actor.create cfg seed t0) ins).core.puts, p.2.q.inflight ≠ []) :
    (closings ((Actor.runSteps (Actor.create cfg seed t0) ins).afterRecv env none).events).Perm (runCallers ins) ∧
    ((runCallers ins).Nodup →
      (closings ((Actor.runSteps (Actor.create cfg seed t0) ins).afterRecv env none).events).Nodup) := by
  obtain ⟨_, _, hg, hp⟩ := C06Puts.reachable_quiescent T cfg seed t0 hb0 ins hok env hnow hb hT hdue hstarted
  obtain ⟨k0, e0⟩ := create_ledger cfg seed t0
  obtain ⟨k1, q1⟩ := run_ledger ins _ k0
  rw [e0, List.nil_append] at q1
  obtain ⟨_, q2⟩ := afterRecv_same (Actor.runSteps (Actor.create cfg seed t0) ins) env none k1
  have hl : ledger ((Actor.runSteps (Actor.create cfg seed t0) ins).afterRecv env none) =
      closings ((Actor.runSteps (Actor.create cfg seed t0) ins).afterRecv env none).events := by
    simp only [ledger, putParked, getParked, hg, hp, List.flatMap_nil, List.nil_append]
  rw [hl] at q2
  exact ⟨q2.trans q1, fun h => (q2.trans q1).nodup_iff.mpr h⟩

end Mainline.Props.C06Once
