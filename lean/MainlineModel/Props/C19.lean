/-
  C19 — Node-id arithmetic: XOR metric, hex parsing and BEP42 secure ids.

  Property theorems only (helper lemmas live in `Lemmas/IdLemmas.lean`).  All statements are
  for every id / byte string / IP / r, with no bound.  `WF a` is the representation invariant
  of `Id` (`[u8; 20]`): exactly 20 bytes; `Id.fromBytes` establishes it (`fromBytes_ok_iff`).
-/
import MainlineModel.Lemmas.IdLemmas
namespace Mainline.Props.C19
open Mainline Mainline.Id

/-- representation invariant of the Rust type `Id([u8; 20])` -/
def WF (a : Id) : Prop := a.bytes.length = 20

/-! ### T1 obligations: the literals of the property text vs. the constants read from the source -/
theorem const_id_size : Constants.ID_SIZE = 20 := by decide
theorem const_ipv4_mask : Constants.IPV4_MASK = 0x030f3fff := by decide

theorem xor_wf {a b : Id} (ha : WF a) (hb : WF b) : WF (a.xor b) := by
  simp [WF, Id.xor, List.length_zipWith] at *; omega

/-! ### XOR metric -/

/-- `leading_zeros` of any id is at most 160, so `MAX_DISTANCE - leading_zeros` never underflows
    and the `as u8` cast in the loop is exact. -/
theorem leadingZeros_le_160 (a : Id) (ha : WF a) : a.leadingZeros ≤ 160 :=
  (leadingZerosFrom_bounds 0 a.bytes (by simp [WF] at ha; omega)).2

/-- distance(a,b) = 160 − length of the common bit prefix (bit-level spec, independent of xor). -/
theorem distance_eq_160_sub_commonPrefix (a b : Id) (ha : WF a) (hb : WF b) :
    distance a b = 160 - commonPrefixLen (bitsOf a.bytes) (bitsOf b.bytes) := by
  unfold distance leadingZeros Id.xor
  have := leadingZerosFrom_xor 0 a.bytes b.bytes (by simp [WF] at *; omega) (by simp [WF] at ha; omega)
  simp only [this, const_id_size]
  omega

theorem distance_le_160 (a b : Id) : distance a b ≤ 160 := by
  unfold distance; simp only [const_id_size]; omega

theorem xor_comm (a b : Id) : a.xor b = b.xor a := by
  unfold Id.xor
  congr 1
  induction a.bytes generalizing b with
  | nil => cases b.bytes <;> simp
  | cons x xs ih =>
    cases hb : b.bytes with
    | nil => simp
    | cons y ys =>
      have := ih ⟨ys⟩
      simp only [List.zipWith_cons_cons, UInt8.xor_comm x y] at *
      rw [this]

theorem distance_symm (a b : Id) : distance a b = distance b a := by
  unfold distance; rw [xor_comm]

theorem zipWith_xor_all_zero_iff (as bs : Bytes) (h : as.length = bs.length) :
    (∀ z ∈ List.zipWith (· ^^^ ·) as bs, z = (0 : UInt8)) ↔ as = bs := by
  induction as generalizing bs with
  | nil => cases bs <;> simp at *
  | cons a as ih =>
    cases bs with
    | nil => simp at h
    | cons b bs =>
      simp only [List.zipWith_cons_cons, List.mem_cons, forall_eq_or_imp, List.cons.injEq]
      rw [ih bs (by simpa using h), xor_eq_zero_iff]

/-- distance is zero only for equal ids -/
theorem distance_eq_zero_iff (a b : Id) (ha : WF a) (hb : WF b) : distance a b = 0 ↔ a = b := by
  have hx := xor_wf ha hb
  have hle := leadingZeros_le_160 _ hx
  have h160 := leadingZerosFrom_eq_160_iff 0 (a.xor b).bytes (by simp [WF] at hx; omega)
  unfold distance
  simp only [const_id_size]
  constructor
  · intro h
    have : (a.xor b).leadingZeros = 160 := by omega
    have hz := h160.1 this
    have := (zipWith_xor_all_zero_iff a.bytes b.bytes (by simp [WF] at *; omega)).1 hz
    cases a; cases b; simp_all
  · intro h
    subst h
    have : (a.xor a).leadingZeros = 160 :=
      h160.2 ((zipWith_xor_all_zero_iff a.bytes a.bytes rfl).2 rfl)
    omega

/-- consistency with byte-wise XOR ordering (the order `ClosestNodes` sorts by):
    a strictly smaller XOR string is never at a larger distance -/
theorem xor_lt_imp_distance_le (a b t : Id) (ha : WF a) (hb : WF b) (ht : WF t)
    (h : bytesLt (a.xor t).bytes (b.xor t).bytes = true) : distance a t ≤ distance b t := by
  have hxa := xor_wf ha ht
  have hxb := xor_wf hb ht
  have := leadingZerosFrom_of_bytesLt 0 (a.xor t).bytes (b.xor t).bytes
    (by simp [WF] at *; omega) (by simp [WF] at hxa; omega) (by simpa [bytesLt] using h)
  unfold distance leadingZeros
  omega

/-- … and a strictly smaller distance forces a strictly smaller XOR string -/
theorem distance_lt_imp_xor_lt (a b t : Id) (ha : WF a) (hb : WF b) (ht : WF t)
    (h : distance a t < distance b t) : bytesLt (a.xor t).bytes (b.xor t).bytes = true := by
  have hxa := xor_wf ha ht
  have hxb := xor_wf hb ht
  unfold bytesLt
  cases hc : bytesCmp (a.xor t).bytes (b.xor t).bytes with
  | lt => rfl
  | eq =>
    have := (bytesCmp_eq_iff _ _).1 hc
    unfold distance at h; unfold leadingZeros at h; rw [this] at h; omega
  | gt =>
    have hlt := (bytesCmp_gt_iff_lt _ _).1 hc
    have := leadingZerosFrom_of_bytesLt 0 (b.xor t).bytes (a.xor t).bytes
      (by simp [WF] at *; omega) (by simp [WF] at hxb; omega) hlt
    unfold distance leadingZeros at h
    omega

/-! ### Parsing -/

/-- `from_bytes` is total and accepts exactly 20-byte inputs, unchanged -/
theorem fromBytes_ok_iff (bs : Bytes) (i : Id) :
    Id.fromBytes bs = .ok i ↔ bs.length = 20 ∧ i.bytes = bs := by
  unfold Id.fromBytes
  simp only [const_id_size]
  split
  · constructor
    · intro h; cases h
    · intro ⟨h, _⟩; contradiction
  · rename_i h
    constructor
    · intro h'; cases h'; exact ⟨by omega, rfl⟩
    · intro ⟨_, h2⟩; cases i; simp_all

theorem fromBytes_wf (bs : Bytes) (i : Id) (h : Id.fromBytes bs = .ok i) : WF i := by
  obtain ⟨h1, h2⟩ := (fromBytes_ok_iff bs i).1 h
  simp [WF, h2, h1]

def isHexDigit (c : UInt8) : Bool := (hexVal c).isSome

theorem hexPairs_length (s bs : Bytes) (heven : s.length % 2 = 0) (h : hexPairs s = some bs) :
    2 * bs.length = s.length := by
  fun_induction hexPairs s generalizing bs with
  | case1 a b rest x y hx hy ih =>
    cases hr : hexPairs rest with
    | none => simp [hr] at h
    | some r =>
      simp only [hr, Option.map_some, Option.some.injEq] at h
      subst h
      have := ih r (by simp only [List.length_cons] at heven; omega) hr
      simp only [List.length_cons]; omega
  | case2 a b rest hno => cases h
  | case3 s hs =>
    cases h
    match s, hs with
    | [], _ => rfl
    | [_], _ => simp at heven
    | a :: b :: rest, hs => exact absurd rfl (hs a b rest)

theorem hexPairs_isSome_iff (s : Bytes) (heven : s.length % 2 = 0) :
    (hexPairs s).isSome = true ↔ ∀ c ∈ s, isHexDigit c = true := by
  fun_induction hexPairs s with
  | case1 a b rest x y hx hy ih =>
    have := ih (by simp only [List.length_cons] at heven; omega)
    simp only [Option.isSome_map, List.mem_cons, forall_eq_or_imp, isHexDigit, hx, hy,
      Option.isSome_some, true_and]
    exact this
  | case2 a b rest hno =>
    simp only [Option.isSome_none, Bool.false_eq_true, List.mem_cons, forall_eq_or_imp, isHexDigit,
      false_iff, not_and]
    intro ha hb
    cases hxa : hexVal a with
    | none => simp [hxa] at ha
    | some x =>
      cases hxb : hexVal b with
      | none => simp [hxb] at hb
      | some y => exact absurd hxb (hno x y hxa)
  | case3 s hs =>
    match s, hs with
    | [], _ => simp
    | [_], _ => simp at heven
    | a :: b :: rest, hs => exact absurd rfl (hs a b rest)

/-- `from_str` is total (the model has no panic outcome: it works on bytes, never slices a `str`)
    and accepts **exactly** the strings of 40 ASCII hex digits, with the value they denote. -/
theorem fromStr_ok_iff (s : Bytes) (i : Id) :
    Id.fromStr s = .ok i ↔
      s.length = 40 ∧ (∀ c ∈ s, isHexDigit c = true) ∧ hexPairs s = some i.bytes := by
  unfold Id.fromStr
  split
  · rename_i hodd
    constructor
    · intro h; cases h
    · intro ⟨h, _⟩; omega
  · rename_i heven
    have heven : s.length % 2 = 0 := by omega
    cases hp : hexPairs s with
    | none =>
      simp only
      constructor
      · intro h; cases h
      · intro ⟨_, _, h⟩; cases h
    | some bs =>
      simp only
      have hlen := hexPairs_length s bs heven hp
      have hall := (hexPairs_isSome_iff s heven).1 (by simp [hp])
      rw [fromBytes_ok_iff]
      constructor
      · intro ⟨h1, h2⟩; exact ⟨by omega, hall, by rw [h2]⟩
      · intro ⟨h1, _, h3⟩
        have : bs = i.bytes := by simpa using h3
        exact ⟨by omega, this.symm⟩

theorem hexVal_hexDigitB : ∀ n < 16, hexVal (hexDigitB n) = some n := by decide

theorem hexPairs_bytesToHexB (bs : Bytes) : hexPairs (bytesToHexB bs) = some bs := by
  induction bs with
  | nil => simp [bytesToHexB, hexPairs]
  | cons b bs ih =>
    have hb := UInt8.toNat_lt b
    simp only [bytesToHexB, List.flatMap_cons, byteToHexB, List.cons_append, List.nil_append] at *
    unfold hexPairs
    rw [hexVal_hexDigitB _ (by omega), hexVal_hexDigitB _ (by omega)]
    simp only [ih, Option.map_some, Option.some.injEq, List.cons.injEq, and_true]
    apply UInt8.toNat_inj.1
    simp only [UInt8.toNat_ofNat']
    omega

/-- round trip with `Display` -/
theorem fromStr_display (a : Id) (ha : WF a) : Id.fromStr a.displayB = .ok a := by
  rw [fromStr_ok_iff]
  have hp := hexPairs_bytesToHexB a.bytes
  have hlen : (bytesToHexB a.bytes).length = 40 := by
    have : ∀ l : Bytes, (bytesToHexB l).length = 2 * l.length := by
      intro l; induction l with
      | nil => rfl
      | cons b l ih => simp only [bytesToHexB, List.flatMap_cons, List.length_append, byteToHexB,
          List.length_cons, List.length_nil] at *; omega
    rw [this]; simp [WF] at ha; omega
  refine ⟨hlen, ?_, hp⟩
  exact (hexPairs_isSome_iff _ (by simp [displayB, hlen])).1 (by simp [displayB, hp])

/-- `Display` only emits lower-case hex digits, two per byte, so `display ∘ from_str` lower-cases -/
theorem display_length (a : Id) (ha : WF a) : a.displayB.length = 40 := by
  have : ∀ l : Bytes, (bytesToHexB l).length = 2 * l.length := by
    intro l; induction l with
    | nil => rfl
    | cons b l ih => simp only [bytesToHexB, List.flatMap_cons, List.length_append, byteToHexB,
        List.length_cons, List.length_nil] at *; omega
  simp [displayB, this]; simp [WF] at ha; omega

/-! ### BEP42 -/

theorem idPrefix_length (ip : UInt32) (r : UInt8) : (idPrefixIpv4 ip r).length = 3 := by
  simp [idPrefixIpv4, be32]

theorem mask_idem (p b : UInt8) : ((p &&& 0xf8) ||| (b &&& 0x7)) &&& 0xf8 = p &&& 0xf8 := by
  have hp := UInt8.toNat_lt p
  have hb := UInt8.toNat_lt b
  have key : ∀ x < 256, ∀ y < 256, ((x &&& 0xf8) ||| (y &&& 0x7)) &&& 0xf8 = x &&& 0xf8 := by
    intro x hx y hy
    apply Nat.eq_of_testBit_eq
    intro i
    simp only [Nat.testBit_and, Nat.testBit_or]
    have h7 : (7 : Nat).testBit i = true → (0xf8 : Nat).testBit i = false := by
      intro h
      have : i < 3 := by
        by_cases hi : i < 3
        · exact hi
        · exfalso
          have : (7 : Nat).testBit i = false := Nat.testBit_lt_two_pow (by
            calc 7 < 2 ^ 3 := by decide
              _ ≤ 2 ^ i := Nat.pow_le_pow_right (by decide) (by omega))
          simp [this] at h
      match i, this with
      | 0, _ => decide
      | 1, _ => decide
      | 2, _ => decide
    cases h1 : x.testBit i <;> cases h2 : y.testBit i <;> cases h3 : (7 : Nat).testBit i <;>
      cases h4 : (0xf8 : Nat).testBit i <;> simp_all
  apply UInt8.toNat_inj.1
  simp only [UInt8.toNat_and, UInt8.toNat_or]
  exact key p.toNat (by omega) b.toNat (by omega)

/-- `Id::from_ipv4(ip)` (for every random body and every `r`) is valid for `ip` -/
theorem fromIpv4AndR_valid (bytes : Bytes) (ip : UInt32) (r : UInt8) (h : bytes.length = 20) :
    (fromIpv4AndR bytes ip r).isValidForIp ip = true := by
  unfold isValidForIp
  split
  · rfl
  · have hp := idPrefix_length ip r
    obtain ⟨p0, p1, p2, hpe⟩ : ∃ p0 p1 p2, idPrefixIpv4 ip r = [p0, p1, p2] := by
      match hq : idPrefixIpv4 ip r, hp with
      | [a, b, c], _ => exact ⟨a, b, c, rfl⟩
    simp only [fromIpv4AndR, hpe, const_id_size, first21]
    simp [List.getD_eq_getElem?_getD, h, hpe, mask_idem]

theorem fromIpv4AndR_wf (bytes : Bytes) (ip : UInt32) (r : UInt8) (h : bytes.length = 20) :
    WF (fromIpv4AndR bytes ip r) := by
  simp [WF, fromIpv4AndR, h]

/-- `is_valid_for_ip` is the BEP42 reference computation: exempt ranges, otherwise the first 21
    bits of the id equal the first 21 bits of CRC-32C over the big-endian word
    `(ip & 0x030f3fff) | (r << 29)` with `r` = the id's last byte. -/
theorem isValidForIp_iff_reference (a : Id) (ip : UInt32) :
    a.isValidForIp ip =
      (ipExempt ip ||
        first21 a.bytes ==
          first21 ((be32 (crc32c (be32 ((ip &&& (0x030f3fff : UInt32)) ||| ((a.bytes.getD 19 0).toUInt32 <<< 29))))).take 3)) := by
  unfold isValidForIp idPrefixIpv4
  simp only [const_id_size, const_ipv4_mask]
  split <;> simp_all

/-- the exempt ranges: 10/8, 172.16/12, 192.168/16 (private), 169.254/16 (link-local), 127/8 -/
theorem ipExempt_iff (ip : UInt32) :
    ipExempt ip = true ↔
      let a := (ip >>> 24).toNat
      let b := ((ip >>> 16) &&& 0xff).toNat
      a = 10 ∨ (a = 172 ∧ 16 ≤ b ∧ b ≤ 31) ∨ (a = 192 ∧ b = 168) ∨ (a = 169 ∧ b = 254) ∨ a = 127 := by
  simp only [ipExempt, Bool.or_eq_true, Bool.and_eq_true, beq_iff_eq, decide_eq_true_eq]
  constructor
  · rintro ((((h | h) | h) | h) | h)
    · exact Or.inl h
    · exact Or.inr (Or.inl ⟨h.1.1, h.1.2, h.2⟩)
    · exact Or.inr (Or.inr (Or.inl h))
    · exact Or.inr (Or.inr (Or.inr (Or.inl h)))
    · exact Or.inr (Or.inr (Or.inr (Or.inr h)))
  · rintro (h | h | h | h | h)
    · exact Or.inl (Or.inl (Or.inl (Or.inl h)))
    · exact Or.inl (Or.inl (Or.inl (Or.inr ⟨⟨h.1, h.2.1⟩, h.2.2⟩)))
    · exact Or.inl (Or.inl (Or.inr h))
    · exact Or.inl (Or.inr h)
    · exact Or.inr h

/-! ### Non-vacuity: concrete ids meeting the hypotheses (tests, labelled as tests) -/

/-- BEP42 test vector: 124.31.75.21, r = 1 → prefix 5f bf b(f) -/
example : first21 (idPrefixIpv4 0x7c1f4b15 1) = first21 [0x5f, 0xbf, 0xbf] := by decide +kernel
example : WF ⟨List.replicate 20 7⟩ := by simp [WF]
example : distance ⟨List.replicate 20 0⟩ ⟨List.replicate 20 255⟩ = 160 := by decide +kernel
example : distance ⟨0x06 :: List.replicate 19 0⟩ ⟨0x03 :: List.replicate 19 0⟩ = 155 := by decide +kernel
/-- "+1" × 20 (accepted before the `fix:` commit) is rejected -/
example : (match Id.fromStr (List.replicate 20 [0x2b, 0x31]).flatten with
    | .error .invalidHexCharacter => true | _ => false) = true := by decide +kernel

end Mainline.Props.C19
