/-
  C15 — Write tokens are bound to the requester IP and expire.

  * `validate_iff`: for every IP exactly (at most) two of the 2^32 token values are accepted — the
    tokens of that IP under the current and the previous secret; a guessed or foreign token is
    accepted only if it *is* one of them.
  * `token_bound_to_ip`: under one secret the token is an injective function of the IP (CRC-32C
    argument in `Lemmas/CrcLemmas.lean`), so a token issued to one IP is never the token of another
    IP under the same secret; the only residual is a 32-bit coincidence with the *other* secret,
    which is inherent to a 4-byte token and is stated exactly.
  * `bad_token_203`: every put kind without a valid token is answered 203 and changes nothing.
  * the lazy rotation timeline (`lazyRun`): a token stays valid for every request within 5 minutes
    of its issue (`token_valid_5min`), and on a node whose requests are at most `g` apart the
    issuing secret has been rotated out twice once the token is older than 10 min + g
    (`token_expires`).
-/
import MainlineModel.Lemmas.CrcLemmas
import MainlineModel.Lemmas.ServerLemmas
namespace Mainline.Props.C15
open Mainline Mainline.Tokens

/-! ### T1 obligations -/
theorem const_rotate : Constants.TOKEN_ROTATE_SECS = 5 * 60 := by decide
theorem const_token_size : Constants.TOKEN_SIZE = 4 := by decide

def FIVE_MIN : Nat := 300000000000

/-! ### which tokens are accepted -/

theorem validate_iff (t : Tokens) (ip : UInt32) (tok : Bytes) :
    t.validate ip tok = true ↔ tok = tokenFor ip t.currSecret ∨ tok = tokenFor ip t.prevSecret := by
  unfold validate; simp

theorem own_token_valid (t : Tokens) (ip : UInt32) : t.validate ip (t.generate ip) = true := by
  rw [validate_iff]; exact Or.inl rfl

theorem token_length (ip : UInt32) (secret : Bytes) : (tokenFor ip secret).length = 4 := by
  simp [tokenFor, be32]

/-- a token issued to `ip` is accepted from another address `ip'` only through a cross-secret
    coincidence of two 32-bit CRCs (never under the same secret) -/
theorem token_bound_to_ip (t : Tokens) (ip ip' : UInt32) (hne : ip ≠ ip')
    (h : t.validate ip' (t.generate ip) = true) :
    tokenFor ip t.currSecret = tokenFor ip' t.prevSecret := by
  rw [validate_iff] at h
  rcases h with h | h
  · exact absurd (tokenFor_ip_injective t.currSecret h) hne
  · exact h

/-- same statement for a token that has meanwhile become the previous secret's token -/
theorem old_token_bound_to_ip (t : Tokens) (ip ip' : UInt32) (hne : ip ≠ ip')
    (h : t.validate ip' (tokenFor ip t.prevSecret) = true) :
    tokenFor ip t.prevSecret = tokenFor ip' t.currSecret := by
  rw [validate_iff] at h
  rcases h with h | h
  · exact h
  · exact absurd (tokenFor_ip_injective t.prevSecret h) hne

/-- every put kind presenting a token that does not validate for the sender's IP is answered with
    error 203 and leaves the whole server state unchanged -/
theorem bad_token_203 (s : Server) (verify : Verify) (rt : RoutingTable) (src : Addr) (wall : Nat)
    (rid : Id) (token : Bytes) (spec : PutSpec) (h : s.tokens.validate src.ip token = false) :
    s.handlePut verify rt src wall rid token spec = (s, .error 203) := by
  cases spec <;> simp [Server.handlePut, Server.tokenOk, h]

/-! ### the lazy rotation timeline -/

/-- what `Server::handle_request` does to the token generator before handling an allowed request -/
def lazyStep (t : Tokens) (rng : UInt64) (now : Nat) : Tokens × UInt64 :=
  if t.shouldUpdate now then t.rotate rng now else (t, rng)

/-- state and number of rotations after a sequence of allowed requests at the given instants -/
def lazyRun : Tokens → UInt64 → List Nat → Tokens × UInt64 × Nat
  | t, rng, [] => (t, rng, 0)
  | t, rng, now :: rest =>
    let (t', rng') := lazyStep t rng now
    let (t'', rng'', n) := lazyRun t' rng' rest
    (t'', rng'', n + (if t.shouldUpdate now then 1 else 0))

theorem shouldUpdate_iff (t : Tokens) (now : Nat) :
    t.shouldUpdate now = true ↔ now - t.lastUpdated > FIVE_MIN := by
  unfold shouldUpdate FIVE_MIN; simp [const_rotate]

theorem rotate_secrets (t : Tokens) (rng : UInt64) (now : Nat) :
    (t.rotate rng now).1.prevSecret = t.currSecret ∧ (t.rotate rng now).1.lastUpdated = now := by
  simp [rotate]

/-- the server's token generator follows `lazyStep` on every allowed request -/
theorem handleRequest_tokens (s : Server) (verify : Verify) (allow : Allow) (rt srt : RoutingTable)
    (src : Addr) (now wall : Nat) (req : Request) (hallow : allow req src = true) :
    (s.handleRequest verify allow rt srt src now wall req).1.tokens = (lazyStep s.tokens s.rng now).1 := by
  unfold Server.handleRequest lazyStep
  simp only [hallow, Bool.not_true, Bool.false_eq_true, ite_false]
  cases hup : s.tokens.shouldUpdate now <;> simp only [ite_true, ite_false, Bool.false_eq_true]
  all_goals
    cases req.rtype with
    | ping => rfl
    | findNode _ => rfl
    | getPeers ih => simp only; split <;> rfl
    | getSignedPeers ih => simp only; split <;> rfl
    | getValue target seq salt =>
      simp only
      cases seq with
      | some sq => simp only [Server.handleGetMutable_tokens]
      | none =>
        simp only
        split
        · rfl
        · simp only [Server.handleGetMutable_tokens]
    | put token spec =>
      simp only [Server.handlePut_tokens]

/-- a vetoed request does not touch the generator (not even a due rotation happens) -/
theorem filtered_no_rotation (s : Server) (verify : Verify) (allow : Allow) (rt srt : RoutingTable)
    (src : Addr) (now wall : Nat) (req : Request) (h : allow req src = false) :
    s.handleRequest verify allow rt srt src now wall req = (s, none) := by
  unfold Server.handleRequest; simp [h]

/-- **valid for at least 5 minutes**: a token issued at `t` is accepted at every later request up to `t + 5 min`, whatever requests arrive in
    between — at most one rotation fits into the window -/
theorem token_valid_5min (T : Tokens) (rng : UInt64) (ip : UInt32) (t : Nat) (ts : List Nat)
    (hts : ∀ x ∈ ts, t ≤ x ∧ x ≤ t + FIVE_MIN) :
    (lazyRun T rng ts).1.validate ip (T.generate ip) = true := by
  suffices h : ∀ (S : Tokens) (r : UInt64),
      (S.currSecret = T.currSecret ∨ (S.prevSecret = T.currSecret ∧ t ≤ S.lastUpdated)) →
      (lazyRun S r ts).1.validate ip (T.generate ip) = true from h T rng (Or.inl rfl)
  induction ts with
  | nil =>
    intro S r hS
    simp only [lazyRun]
    rw [validate_iff]
    unfold generate
    rcases hS with h | ⟨h, _⟩
    · left; rw [h]
    · right; rw [h]
  | cons now rest ih =>
    intro S r hS
    have hnow := hts now List.mem_cons_self
    simp only [lazyRun]
    apply ih (fun x hx => hts x (List.mem_cons_of_mem _ hx))
    unfold lazyStep
    cases hup : S.shouldUpdate now with
    | false => simpa using hS
    | true =>
      simp only [ite_true]
      rcases hS with h | ⟨_, h2⟩
      · right
        have := rotate_secrets S r now
        exact ⟨by rw [this.1, h], by rw [this.2]; exact hnow.1⟩
      · exfalso
        have := (shouldUpdate_iff S now).1 hup
        omega

/-- after every handled request the generator's last rotation is at most 5 minutes old -/
theorem lazyStep_age (t : Tokens) (rng : UInt64) (now : Nat) :
    now - (lazyStep t rng now).1.lastUpdated ≤ FIVE_MIN := by
  unfold lazyStep
  cases hup : t.shouldUpdate now with
  | true => simp [rotate]
  | false =>
    simp only [Bool.false_eq_true, ite_false]
    have := (shouldUpdate_iff t now)
    rw [hup] at this
    simp only [Bool.false_eq_true, false_iff, Nat.not_lt] at this
    omega

/-- consecutive request instants are non-decreasing and at most `g` apart -/
def GapChain (g : Nat) : List Nat → Prop
  | [] => True
  | [_] => True
  | a :: b :: rest => (a ≤ b ∧ b ≤ a + g) ∧ GapChain g (b :: rest)

/-- **expiry on a busy node**: requests at most `g` apart, starting no later than `g` after the
    token was issued at `t` by a generator that had just handled a request.  When the last
    request is later than `t + 10 min + g`, at least two rotations have happened since the issue:
    the issuing secret has moved from current to previous and out (after a rotation
    `prev' = curr`, `curr' = fresh`, see `rotate_secrets`). -/
theorem token_expires (T : Tokens) (rng : UInt64) (t g : Nat) (ts : List Nat)
    (hlu : T.lastUpdated ≤ t) (hage : t - T.lastUpdated ≤ FIVE_MIN)
    (hchain : GapChain g (t :: ts))
    (hlast : ∀ l, (t :: ts).getLast? = some l → l > t + 2 * FIVE_MIN + g) :
    (lazyRun T rng ts).2.2 ≥ 2 := by
  -- invariant: lastUpdated ≤ t + e·(5min+g) where e = rotations so far, and the previous request
  -- time `p` satisfies p - lastUpdated ≤ 5min
  suffices h : ∀ (S : Tokens) (r : UInt64) (p e : Nat) (rest : List Nat),
      S.lastUpdated ≤ t + e * (FIVE_MIN + g) → S.lastUpdated ≤ p → p - S.lastUpdated ≤ FIVE_MIN →
      GapChain g (p :: rest) →
      (∀ l, (p :: rest).getLast? = some l → l > t + 2 * FIVE_MIN + g) →
      (lazyRun S r rest).2.2 + e ≥ 2 from by
    have := h T rng t 0 ts (by omega) hlu hage hchain hlast
    omega
  intro S r p e rest
  induction rest generalizing S r p e with
  | nil =>
    intro h1 h2 h3 _ hl
    have := hl p rfl
    simp only [lazyRun]
    -- p ≤ lastUpdated + 5min ≤ t + e(5min+g) + 5min, and p > t + 10min + g
    have : t + 2 * FIVE_MIN + g < t + e * (FIVE_MIN + g) + FIVE_MIN := by omega
    rcases Nat.lt_or_ge e 2 with he | he
    · exfalso
      have : e * (FIVE_MIN + g) ≤ 1 * (FIVE_MIN + g) := Nat.mul_le_mul_right _ (by omega)
      omega
    · omega
  | cons now rest ih =>
    intro h1 h2 h3 hc hl
    simp only [GapChain] at hc
    obtain ⟨⟨hpn, hng⟩, hc'⟩ := hc
    simp only [lazyRun]
    have hl' : ∀ l, (now :: rest).getLast? = some l → l > t + 2 * FIVE_MIN + g := by
      intro l hlq
      apply hl l
      rw [List.getLast?_cons_cons]; exact hlq
    unfold lazyStep
    cases hup : S.shouldUpdate now with
    | false =>
      simp only [Bool.false_eq_true, ite_false, Nat.add_zero]
      have hnot := (shouldUpdate_iff S now)
      rw [hup] at hnot
      simp only [Bool.false_eq_true, false_iff, Nat.not_lt] at hnot
      exact ih S r now e h1 (by omega) hnot hc' hl'
    | true =>
      simp only [ite_true]
      have hrot := rotate_secrets S r now
      have := ih (S.rotate r now).1 (S.rotate r now).2 now (e + 1)
        (by rw [hrot.2]
            have : (e + 1) * (FIVE_MIN + g) = e * (FIVE_MIN + g) + (FIVE_MIN + g) := by
              rw [Nat.add_mul]; omega
            omega)
        (by rw [hrot.2]; exact Nat.le_refl _) (by rw [hrot.2]; omega) hc' hl'
      generalize lazyRun (S.rotate r now).1 (S.rotate r now).2 rest = q at this ⊢
      obtain ⟨q1, q2, q3⟩ := q
      simp only at this ⊢
      omega

/-! ### Non-vacuity (tests, labelled as tests) -/

example : (Tokens.new 7 0).1.validate 0x2d000001 ((Tokens.new 7 0).1.generate 0x2d000001) = true := by
  decide +kernel
/-- adjacent IPs (differ in the last bit) get different tokens -/
example : (Tokens.new 7 0).1.generate 0x2d000001 ≠ (Tokens.new 7 0).1.generate 0x2d000000 := by
  decide +kernel
example : (lazyRun (Tokens.new 7 0).1 9 [100, FIVE_MIN + 1, 2 * FIVE_MIN + 5]).2.2 = 2 := by
  decide +kernel

end Mainline.Props.C15
