/-
  C05 at the level of the whole node — "it still answers a subsequent ping (server mode)".

  The model actor is total: nothing in `Actor.step` can fail (the decoder's partial operations are
  the subject of `Props/C05.lean`, the `usize` statistics of `C20.reachable_statsOk`).  What remains
  of the clause is liveness of the request path: **in every state of a node in server mode** —
  whatever datagrams it has been fed before — a ping request from any address with a non-zero port
  that the configured request filter allows is answered, in the very iteration in which it arrives,
  with a ping response carrying the request's transaction id.
-/
import MainlineModel.Props.C18
import MainlineModel.Lemmas.TimeLemmas
namespace Mainline.Props.C05Node
open Mainline Mainline.Actor

theorem maybeAdd_serverMode (c : Core) (src : Addr) (version : Option Bytes) (ro : Bool) (req : Request) (now : Nat) :
    (maybeAddNodeFromRequest c src version ro req now).serverMode = c.serverMode := by
  unfold maybeAddNodeFromRequest
  split
  · split
    · unfold addRequester
      split
      · split <;> rfl
      · split <;> rfl
    · rfl
  · rfl

/-- the server's answer to a ping: a ping response -/
theorem handleRequest_ping (c : Core) (hs : c.serverMode = true) (env : Env) (src : Addr) (ro : Bool)
    (version : Option Bytes) (req : Request) (hp : req.rtype = .ping) (ha : c.allow req src = true) :
    ∃ i, (handleRequest c env src ro version req).2.1 = some (.response (.ping i)) := by
  have h1 := maybeAdd_serverMode c src version ro req env.now
  have h2 := C18.verifySelfPing_serverMode (maybeAddNodeFromRequest c src version ro req env.now) src req env.now
  have h3 : (verifySelfPing (maybeAddNodeFromRequest c src version ro req env.now) src req env.now).1.allow = c.allow :=
    (verifySelfPing_allow _ src req env.now).trans (maybeAdd_allow c src version ro req env.now)
  unfold handleRequest
  simp only [ha, Bool.not_true, Bool.false_eq_true, ite_false]
  unfold serveRequest
  rw [h2, h1, hs]
  simp only [ite_true]
  unfold Server.handleRequest
  simp only [h3, ha, Bool.not_true, Bool.false_eq_true, ite_false, hp]
  exact ⟨_, rfl⟩

/-- **A server always answers a ping.**  For every node state in server mode, every clock value and
    every ping request from an address with a non-zero port, the iteration that receives it sends a
    ping response with the request's transaction id to that address — whatever API message is picked
    up in the same iteration. -/
theorem server_answers_ping (a : Actor) (hs : a.core.serverMode = true) (env : Env) (m : Message) (src : Addr)
    (req : Request) (hm : m.mtype = .request req) (hp : req.rtype = .ping) (hport : src.port ≠ 0)
    (hallow : a.core.allow req src = true) (msg : Option ApiMsg) :
    ∃ i l, (a.step env (some (m, src)) msg).out = a.out ++ l ∧
      ∃ x ∈ l, x.1 = src ∧ x.2.tid = m.tid ∧ x.2.mtype = .response (.ping i) := by
  -- the socket hands every request up
  have hrecv : (a.recvPhase env.now (some (m, src))).2 = some (m, src) := by
    unfold recvPhase
    simp only [hm]
    unfold Inflight.decide
    have : (src.port == 0) = false := by simpa using hport
    simp [this]
  obtain ⟨ro, rc, _, _⟩ := recvPhase_time a env.now (some (m, src))
  generalize ha1 : (a.recvPhase env.now (some (m, src))).1 = a1 at ro rc hrecv
  have hs1 : a1.core.serverMode = true := by rw [rc]; exact hs
  obtain ⟨i, hi⟩ := handleRequest_ping a1.core hs1 env src m.readOnly m.version req hp (by rw [rc]; exact hallow)
  -- the reply is appended to the log in `handle_incoming_message`
  have hinc : ∃ l1, (a1.handleIncoming env (some (m, src))).1.out = a1.out ++ l1 ∧
      ∃ x ∈ l1, x.1 = src ∧ x.2.tid = m.tid ∧ x.2.mtype = .response (.ping i) := by
    unfold handleIncoming
    simp only [hm]
    unfold handleIncomingRequest
    have hreply : ∃ y, (sendReply { a1 with core := (handleRequest a1.core env src m.readOnly m.version req).1 } src m.tid
        (handleRequest a1.core env src m.readOnly m.version req).2.1).out = a1.out ++ [y] ∧
        y.1 = src ∧ y.2.tid = m.tid ∧ y.2.mtype = .response (.ping i) := by
      rw [hi]
      exact ⟨_, rfl, rfl, rfl, rfl⟩
    obtain ⟨y, hy, hy1, hy2, hy3⟩ := hreply
    split
    · obtain ⟨l2, e2⟩ := (populate_adv (sendReply { a1 with core := (handleRequest a1.core env src m.readOnly m.version req).1 } src m.tid
        (handleRequest a1.core env src m.readOnly m.version req).2.1) env.now).out
      refine ⟨[y] ++ l2, by rw [e2, hy, List.append_assoc], y, by simp, hy1, hy2, hy3⟩
    · exact ⟨[y], hy, y, by simp, hy1, hy2, hy3⟩
  obtain ⟨l1, e1, x, hx, hx1, hx2, hx3⟩ := hinc
  -- and the log only grows for the rest of the iteration
  have hrest : ∃ l3, (a.step env (some (m, src)) msg).out = (a1.handleIncoming env (some (m, src))).1.out ++ l3 := by
    have A1 := forwardValue_adv (a1.handleIncoming env (some (m, src))).1 (a1.handleIncoming env (some (m, src))).2 env.now
    have hpre : a.preDone env (some (m, src)) =
        forwardValue (a1.handleIncoming env (some (m, src))).1 (a1.handleIncoming env (some (m, src))).2 := by
      unfold preDone; rw [ha1, hrecv]
    have A2 := (visitClosestAll_adv (a.preDone env (some (m, src))) env.now).trans
      ((finishTick_adv _ env.now ((a.preDone env (some (m, src))).checkDonePuts env.now)).trans
        ((pickup_adv _ env msg).trans ((maintenance_adv _ env.now).trans (cleanup_adv _ env.now))))
    obtain ⟨la, ea⟩ := A1.out
    obtain ⟨lb, eb⟩ := A2.out
    refine ⟨la ++ lb, ?_⟩
    have : (a.step env (some (m, src)) msg).out = (a.preDone env (some (m, src))).out ++ lb := eb
    rw [this, hpre, ea, List.append_assoc]
  obtain ⟨l3, e3⟩ := hrest
  refine ⟨i, l1 ++ l3, ?_, x, List.mem_append_left _ hx, hx1, hx2, hx3⟩
  rw [e3, e1, ro, List.append_assoc]

end Mainline.Props.C05Node
