/-
  C09 at the level of the log: whatever response or error the node accepts answers a request datagram
  the node really sent, to that address, under that transaction id — and if a lookup lists the id, the
  datagram carried that lookup's request.
-/
import MainlineModel.Props.C09Own
import MainlineModel.Props.C09
namespace Mainline.Props.C09Solicited
open Mainline Mainline.Actor Mainline.Props.C06Time

/-- **Accepted means solicited.**  In a state satisfying the invariants of reachable states, a
    response or error `m` from `src` that the socket hands up answers a live entry `r` of the request
    table whose address matches `src`, and the log holds the request datagram sent to `r.to` under
    `m`'s transaction id. -/
theorem accepted_was_solicited (b : Actor) (now0 : Nat) (hord : SockOrd b.sock now0) (hat : Attr b)
    (now : Nat) (m : Message) (src : Addr) (hk : ∀ r, m.mtype ≠ .request r)
    (hacc : (b.recvPhase now (some (m, src))).2 = some (m, src)) :
    src.port ≠ 0 ∧ ∃ r ∈ b.sock.requests, compareAddr r.to src = true ∧ b.sock.live r now = true ∧
      ∃ x req, (r.to, x) ∈ b.out ∧ x.tid.toNat = m.tid.toNat ∧ x.mtype = .request req := by
  obtain ⟨hp, r, hr, ⟨ht, hc⟩, hl⟩ := (C09.handed_up_iff b hord.inv now m src hk).1 hacc
  obtain ⟨req, x, hx, hxt, hxm⟩ := hat.sock r hr
  exact ⟨hp, r, hr, hc, hl, x, req, hx, by rw [hxt, ht], hxm⟩

/-- … and when a registered lookup lists that transaction id, the datagram carried that lookup's
    request: the response can only be an answer to what this lookup asked this address -/
theorem accepted_answers_the_lookup (b : Actor) (now0 : Nat) (hord : SockOrd b.sock now0) (hat : Attr b)
    (now : Nat) (m : Message) (src : Addr) (hk : ∀ r, m.mtype ≠ .request r)
    (hacc : (b.recvPhase now (some (m, src))).2 = some (m, src))
    (p : Id × IterQuery) (hp : p ∈ b.core.iter) (hin : m.tid.toNat ∈ p.2.inflight) :
    ∃ r ∈ b.sock.requests, compareAddr r.to src = true ∧ Sent b m.tid.toNat r.to p.2.request := by
  obtain ⟨_, r, hr, ⟨ht, hc⟩, _⟩ := (C09.handed_up_iff b hord.inv now m src hk).1 hacc
  have := C09Own.sock_entry hat p hp r hr (by rw [ht]; exact hin)
  rw [ht] at this
  exact ⟨r, hr, hc, this⟩

/-- both, for every reachable state -/
theorem reachable_accepted_was_solicited (T : Nat) (cfg : NodeConfig) (seed : UInt64) (t0 : Nat)
    (hb0 : cfg.firstTid % two32 + (Actor.create cfg seed t0).out.length < two32)
    (ins : List StepIn) (hok : RunOk T (Actor.create cfg seed t0) t0 ins)
    (now : Nat) (m : Message) (src : Addr) (hk : ∀ r, m.mtype ≠ .request r)
    (hacc : ((runSteps (Actor.create cfg seed t0) ins).recvPhase now (some (m, src))).2 = some (m, src)) :
    src.port ≠ 0 ∧ ∃ r ∈ (runSteps (Actor.create cfg seed t0) ins).sock.requests, compareAddr r.to src = true ∧
      (runSteps (Actor.create cfg seed t0) ins).sock.live r now = true ∧
      ∃ x req, (r.to, x) ∈ (runSteps (Actor.create cfg seed t0) ins).out ∧ x.tid.toNat = m.tid.toNat ∧
        x.mtype = .request req :=
  accepted_was_solicited _ _ (reachable_ready T cfg seed t0 hb0 ins hok).sock.ord
    (C09Own.reachable_attr T cfg seed t0 hb0 ins hok) now m src hk hacc

end Mainline.Props.C09Solicited
