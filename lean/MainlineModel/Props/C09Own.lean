/-
  C09 — a transaction id belongs to one query, and the datagram that carried it says which.

  `Lemmas/AttrLemmas.lean` proves the attribution invariant `Attr` for one iteration of the loop
  (`step_attr`); here it is lifted to every reachable state (`reachable_attr`) and its consequences are
  drawn: two lookups (or puts, or a lookup and a put) never list the same transaction id
  (`lookups_excl`, `lookup_put_excl`, `puts_excl`); the entry of the socket's request table for an id
  of a lookup names the address the lookup's request went to and the log holds exactly that request
  (`sock_entry`); `Core::handle_response`'s search for the owner of a response finds the one lookup
  that sent the request, and no put (`owner_found`).  This is the "once, by the addressed peer, for the
  request it answers" of C09 at the level of the whole node: a response can only ever advance the
  query whose request it answers.
-/
import MainlineModel.Lemmas.AttrLemmas
import MainlineModel.Props.C06Puts
import MainlineModel.Props.C02Node
namespace Mainline.Props.C09Own
open Mainline Mainline.Actor Mainline.Props.C06Time

/-! ### every reachable state -/

theorem fresh_attr (core : Core) (m : Bool) (n : Nat) (h1 : core.iter = []) (h2 : core.puts = []) :
    Attr { sockServerMode := m, core := core, sock := { nextTid := n } } := by
  refine ⟨⟨List.Pairwise.nil, ?_⟩, ?_, ?_, ?_⟩
  · intro x h; cases h
  · intro p h; rw [h1] at h; cases h
  · intro p h; rw [h2] at h; cases h
  · intro r h; cases h

theorem boot_attr (a0 : Actor) (now : Nat) (h0 : Attr a0)
    (hb : a0.sock.nextTid + (({ (a0.maintenance now) with sock := (a0.maintenance now).sock.cleanup now } : Actor).out.length
      - a0.out.length) < two32) :
    Attr { (a0.maintenance now) with sock := (a0.maintenance now).sock.cleanup now } :=
  ((maintenance_advA a0 now).trans (cleanup_advA (a0.maintenance now) now)).keep hb h0

theorem create_attr (cfg : NodeConfig) (seed : UInt64) (now : Nat)
    (hb : cfg.firstTid % two32 + (Actor.create cfg seed now).out.length < two32) :
    Attr (Actor.create cfg seed now) := by
  unfold Actor.create at hb ⊢
  split at hb <;>
  · simp only at hb ⊢
    apply boot_attr
    · exact fresh_attr _ _ _ rfl rfl
    · simpa using hb

theorem run_attr (T : Nat) (ins : List StepIn) : ∀ (a : Actor) (now0 : Nat), Attr a → RunOk T a now0 ins →
    Attr (runSteps a ins) := by
  induction ins with
  | nil => intro a now0 h _; exact h
  | cons i is ih =>
    intro a now0 h hr
    obtain ⟨_, _, _, h4, h5⟩ := hr
    exact ih _ _ (step_attr a h i.env i.dgram i.msg h4) h5

/-- **Every reachable state satisfies the attribution invariant** (between wrap-arounds of the id
    counter): any datagrams, any API calls, any clock. -/
theorem reachable_attr (T : Nat) (cfg : NodeConfig) (seed : UInt64) (t0 : Nat)
    (hb : cfg.firstTid % two32 + (Actor.create cfg seed t0).out.length < two32)
    (ins : List StepIn) (hok : RunOk T (Actor.create cfg seed t0) t0 ins) :
    Attr (runSteps (Actor.create cfg seed t0) ins) :=
  run_attr T ins _ _ (create_attr cfg seed t0 hb) hok

/-! ### every lookup sits under its own target -/

def Targeted (l : List (Id × IterQuery)) : Prop := ∀ p ∈ l, p.2.target = p.1

theorem lstep_target (q : IterQuery) (op : C07.LOp) : (C07.lstep q op).target = q.target := by
  cases op with
  | msg env src m =>
    simp only [C07.lstep]
    unfold lookupStep
    split
    · exact (C02.absorb_fields q env.now src m).1
    · exact (C02.absorb_fields q env.now src m).1
  | visitAddrs a tos now => exact (C07.visitAll_fields a q tos now).2.1
  | visitClosest a now => exact (C07.visitAll_fields a q q.closestCandidates now).2.1

theorem lrun_target (ops : List C07.LOp) : ∀ q : IterQuery, (C07.lrun q ops).target = q.target := by
  unfold C07.lrun
  induction ops with
  | nil => intro q; rfl
  | cons op ops ih => intro q; simp only [List.foldl_cons]; rw [ih, lstep_target]

theorem targeted_of_rel (old new : List (Id × IterQuery)) (h : Targeted old)
    (hrel : C07.IterRel (fun _ _ _ => True) old new) : Targeted new := by
  intro p hp
  rcases hrel p.1 p.2 hp with ⟨q, ops, hm, heq, _⟩ | ⟨rid, k, seeds, ops, heq, _⟩
  · rw [heq, lrun_target]; exact h (p.1, q) hm
  · rw [heq, lrun_target]; exact (C02.seedQuery_fields rid p.1 k seeds).1

theorem step_targeted (a : Actor) (h : Targeted a.core.iter) (env : Env) (dgram : Option (Message × Addr)) (msg : Option ApiMsg) :
    Targeted (a.step env dgram msg).core.iter :=
  targeted_of_rel _ _ h (C07.step_iter (fun _ _ _ => True) a env dgram msg (fun _ _ _ => trivial))

theorem reachable_targeted (cfg : NodeConfig) (seed : UInt64) (t0 : Nat) (ins : List StepIn) :
    Targeted (runSteps (Actor.create cfg seed t0) ins).core.iter := by
  have h0 : Targeted (Actor.create cfg seed t0).core.iter :=
    targeted_of_rel [] _ (by intro p h; cases h) (C07.create_iter (fun _ _ _ => True) cfg seed t0).1
  unfold runSteps
  generalize Actor.create cfg seed t0 = a at h0
  induction ins generalizing a with
  | nil => exact h0
  | cons i is ih => simp only [List.foldl_cons]; exact ih _ (step_targeted a h0 i.env i.dgram i.msg)

/-! ### exclusivity -/

theorem getKind_request_target (k1 k2 : GetKind) (t1 t2 : Id) (h : k1.request t1 = k2.request t2) : t1 = t2 := by
  cases k1 <;> cases k2 <;> simp [GetKind.request] at h <;> first | exact h | exact h.1

theorem getKind_request_not_put (k : GetKind) (t : Id) (tok : Bytes) (spec : PutSpec) : k.request t ≠ .put tok spec := by
  cases k <;> simp [GetKind.request]

/-- two registered lookups that list the same transaction id sent the same request … -/
theorem lookups_excl {a : Actor} (h : Attr a) (p1 p2 : Id × IterQuery) (h1 : p1 ∈ a.core.iter) (h2 : p2 ∈ a.core.iter)
    (tid : Nat) (t1 : tid ∈ p1.2.inflight) (t2 : tid ∈ p2.2.inflight) : p1.2.request = p2.2.request := by
  obtain ⟨to1, s1⟩ := h.iter p1 h1 tid t1
  obtain ⟨to2, s2⟩ := h.iter p2 h2 tid t2
  exact (Sent.unique h.log s1 s2).2

/-- … so they are registered under the same target -/
theorem lookups_same_key {a : Actor} (h : Attr a) (ht : Targeted a.core.iter) (p1 p2 : Id × IterQuery)
    (h1 : p1 ∈ a.core.iter) (h2 : p2 ∈ a.core.iter) (tid : Nat) (t1 : tid ∈ p1.2.inflight) (t2 : tid ∈ p2.2.inflight) :
    p1.1 = p2.1 := by
  have he := lookups_excl h p1 p2 h1 h2 tid t1 t2
  have : p1.2.kind.request p1.2.target = p2.2.kind.request p2.2.target := by
    have := congrArg Request.rtype he
    exact this
  have := getKind_request_target _ _ _ _ this
  rw [ht p1 h1, ht p2 h2] at this
  exact this

/-- no transaction id is listed by a lookup and by a put -/
theorem lookup_put_excl {a : Actor} (h : Attr a) (p : Id × IterQuery) (e : Id × PutEntry) (h1 : p ∈ a.core.iter)
    (h2 : e ∈ a.core.puts) (tid : Nat) (t1 : tid ∈ p.2.inflight) (t2 : tid ∈ e.2.q.inflight) : False := by
  obtain ⟨to1, s1⟩ := h.iter p h1 tid t1
  obtain ⟨to2, rid, tok, s2⟩ := h.puts e h2 tid t2
  have := (Sent.unique h.log s1 s2).2
  have hr := congrArg Request.rtype this
  exact getKind_request_not_put _ _ _ _ hr

/-- two registered puts that list the same transaction id carry the same payload -/
theorem puts_excl {a : Actor} (h : Attr a) (e1 e2 : Id × PutEntry) (h1 : e1 ∈ a.core.puts) (h2 : e2 ∈ a.core.puts)
    (tid : Nat) (t1 : tid ∈ e1.2.q.inflight) (t2 : tid ∈ e2.2.q.inflight) : e1.2.spec = e2.2.spec := by
  obtain ⟨to1, r1, k1, s1⟩ := h.puts e1 h1 tid t1
  obtain ⟨to2, r2, k2, s2⟩ := h.puts e2 h2 tid t2
  have := (Sent.unique h.log s1 s2).2
  have hr := congrArg Request.rtype this
  simp only at hr
  injection hr with _ hs

/-- the table entry for a transaction id of a lookup names the address the lookup's request went to -/
theorem sock_entry {a : Actor} (h : Attr a) (p : Id × IterQuery) (hp : p ∈ a.core.iter) (r : InflightReq)
    (hr : r ∈ a.sock.requests) (ht : r.tid ∈ p.2.inflight) : Sent a r.tid r.to p.2.request := by
  obtain ⟨to, s1⟩ := h.iter p hp r.tid ht
  obtain ⟨req, s2⟩ := h.sock r hr
  obtain ⟨e1, e2⟩ := Sent.unique h.log s1 s2
  rw [← e1, ← e2] at s2
  rw [← e1]; exact s1

/-- **`handle_response` finds the owner.**  In a state satisfying the invariants, for a transaction id
    listed by the lookup registered under `t`: the search over the puts finds nothing and the search
    over the lookups finds exactly that lookup. -/
theorem owner_found {a : Actor} (h : Attr a) (ht : Targeted a.core.iter) (hk : IterKeys a.core.iter)
    (t : Id) (q : IterQuery) (hq : alGet a.core.iter t = some q) (tid : Nat) (hin : tid ∈ q.inflight) :
    a.core.puts.find? (fun p => p.2.q.isInflight tid) = none ∧
    a.core.iter.find? (fun p => p.2.isInflight tid) = some (t, q) := by
  have hmem : (t, q) ∈ a.core.iter := mem_of_alGet _ _ _ hq
  constructor
  · rw [List.find?_eq_none]
    intro e he hc
    have : tid ∈ e.2.q.inflight := by simpa [PutQuery.isInflight] using hc
    exact lookup_put_excl h (t, q) e hmem he tid hin this
  · cases hf : a.core.iter.find? (fun p => p.2.isInflight tid) with
    | none =>
      rw [List.find?_eq_none] at hf
      exact absurd (by simpa [IterQuery.isInflight] using hin) (hf (t, q) hmem)
    | some p0 =>
      have hp0 : p0 ∈ a.core.iter := List.mem_of_find?_eq_some hf
      have hin0 : tid ∈ p0.2.inflight := by
        have := List.find?_some hf
        simpa [IterQuery.isInflight] using this
      have hkey := lookups_same_key h ht p0 (t, q) hp0 hmem tid hin0 hin
      have : alGet a.core.iter p0.1 = some p0.2 := alGet_of_mem _ hk p0.1 p0.2 hp0
      rw [hkey] at this
      simp only at this
      rw [hq] at this
      injection this with this
      congr 1
      exact Prod.ext hkey this.symm

end Mainline.Props.C09Own
