/-
  C14 — Routing tables stay healthy over time.

  Model: `Actor.pruneAndPing` / `pingRound` (`check_nodes_to_ping_and_remove_stale_nodes`),
  `Actor.addResponder` + `RoutingTable.add` (responders re-added on every expected response — ping
  responses included after the `fix:` commit, answers that carry a value after another —, `last_seen` refreshed for a known node after the
  other `fix:` commit), `Actor.maintenance` (`periodic_node_maintaenance`: bootstrap when empty,
  refresh every 15 minutes, ping round every 5 minutes).
  Time is the virtual monotonic clock in ns; the three intervals are read from the source (T1).
-/
import MainlineModel.Props.C12
import MainlineModel.Props.C06
namespace Mainline.Props.C14
open Mainline Mainline.Actor Mainline.RoutingTable Mainline.Props.C12

theorem intervals : Constants.STALE_TIME_SECS = 15 * 60 ∧ Constants.PING_TABLE_SECS = 5 * 60 ∧
    Constants.REFRESH_TABLE_SECS = 15 * 60 ∧ Constants.MIN_PING_BACKOFF_SECS = 10 := by decide

/-! ### removing a node -/

/-- `remove` takes out exactly the entry with that id -/
theorem mem_entries_remove (rt : RoutingTable) (hinv : TableInv rt) (nodeId : Id) (e : Node) :
    e ∈ (rt.remove nodeId).entries ↔ (e ∈ rt.entries ∧ e.id ≠ nodeId) := by
  unfold RoutingTable.remove
  cases hb : rt.bucket (rt.id.distance nodeId) with
  | none =>
    simp only
    constructor
    · intro he
      refine ⟨he, ?_⟩
      intro hid
      obtain ⟨b, hbm, heb⟩ := (mem_entries rt e).1 he
      have hd := (hinv.dist b hbm e heb).1
      rw [hid] at hd
      have := findB_of_mem rt.buckets hinv.sorted b.1 b.2 hbm
      rw [← bucket_eq_findB, ← hd, hb] at this
      cases this
    · exact fun h => h.1
  | some b =>
    simp only
    have hbm : (rt.id.distance nodeId, b) ∈ rt.buckets :=
      findB_some_mem rt.buckets _ b (by rw [← bucket_eq_findB]; exact hb)
    rw [mem_entries_setBucket rt hinv.sorted]
    constructor
    · rintro (hf | ⟨b', hb', hne, heb'⟩)
      · have := List.mem_filter.1 hf
        exact ⟨(mem_entries rt e).2 ⟨_, hbm, this.1⟩, by simpa using this.2⟩
      · refine ⟨(mem_entries rt e).2 ⟨b', hb', heb'⟩, ?_⟩
        intro hid
        have hd := (hinv.dist b' hb' e heb').1
        rw [hid] at hd
        exact hne hd.symm
    · rintro ⟨he, hid⟩
      obtain ⟨b', hb', heb'⟩ := (mem_entries rt e).1 he
      by_cases hk : b'.1 = rt.id.distance nodeId
      · left
        have h1 := findB_of_mem rt.buckets hinv.sorted b'.1 b'.2 hb'
        have h2 := findB_of_mem rt.buckets hinv.sorted _ b hbm
        rw [hk, h2] at h1
        injection h1 with h1
        rw [List.mem_filter]
        exact ⟨by rw [h1]; exact heb', by simpa using hid⟩
      · exact Or.inr ⟨b', hb', hk, heb'⟩

/-- removing a list of ids -/
theorem mem_entries_removeAll (ids : List Id) (rt : RoutingTable) (hinv : TableInv rt) (e : Node) :
    TableInv (ids.foldl (fun t i => t.remove i) rt) ∧
    (e ∈ (ids.foldl (fun t i => t.remove i) rt).entries ↔ (e ∈ rt.entries ∧ e.id ∉ ids)) := by
  induction ids generalizing rt with
  | nil => exact ⟨hinv, by simp⟩
  | cons i is ih =>
    simp only [List.foldl_cons]
    obtain ⟨i1, i2⟩ := ih (rt.remove i) (inv_remove rt hinv i)
    refine ⟨i1, ?_⟩
    rw [i2, mem_entries_remove rt hinv i e]
    simp only [List.mem_cons, not_or]
    exact ⟨fun h => ⟨h.1.1, h.1.2, h.2⟩, fun h => ⟨⟨h.1, h.2.1⟩, h.2.2⟩⟩

/-! ### the ping round -/

/-- **Stale out, fresh in.** After the 5-minute round a table holds exactly its entries that were
    heard from within the last 15 minutes: a peer that answered any of this node's requests in that
    time is still there, a peer silent for longer is gone. -/
theorem prune_spec (rt : RoutingTable) (hinv : TableInv rt) (now : Nat) (e : Node) :
    e ∈ (pruneAndPing rt now).1.entries ↔ (e ∈ rt.entries ∧ e.isStale now = false) := by
  unfold pruneAndPing
  simp only
  have hfold : ∀ (l : List Node) (t : RoutingTable),
      l.foldl (fun t n => t.remove n.id) t = (l.map (·.id)).foldl (fun t i => t.remove i) t := by
    intro l
    induction l with
    | nil => intro t; rfl
    | cons x xs ih => intro t; simp only [List.foldl_cons, List.map_cons]; exact ih _
  rw [hfold, (mem_entries_removeAll _ rt hinv e).2, nodes_eq_entries rt hinv]
  constructor
  · rintro ⟨he, hnot⟩
    refine ⟨he, ?_⟩
    cases hs : e.isStale now with
    | false => rfl
    | true =>
      exfalso; apply hnot
      rw [List.mem_map]
      exact ⟨e, List.mem_filter.2 ⟨he, hs⟩, rfl⟩
  · rintro ⟨he, hs⟩
    refine ⟨he, ?_⟩
    intro hm
    rw [List.mem_map] at hm
    obtain ⟨x, hx, hid⟩ := hm
    obtain ⟨hxm, hxs⟩ := List.mem_filter.1 hx
    -- ids are distinct: x is e
    have hnd := ids_distinct rt hinv
    have hxe : x = e := by
      rw [List.nodup_iff_pairwise_ne, List.pairwise_map] at hnd
      obtain ⟨i, hi, rfl⟩ := List.getElem_of_mem hxm
      obtain ⟨j, hj, rfl⟩ := List.getElem_of_mem he
      rw [List.pairwise_iff_getElem] at hnd
      rcases Nat.lt_trichotomy i j with h | h | h
      · exact absurd hid (hnd i j hi hj h)
      · subst h; rfl
      · exact absurd hid.symm (hnd j i hj hi h)
    rw [hxe, hs] at hxs
    cases hxs

/-- the invariant of C12 survives the round -/
theorem prune_inv (rt : RoutingTable) (hinv : TableInv rt) (now : Nat) : TableInv (pruneAndPing rt now).1 := by
  unfold pruneAndPing
  simp only
  have hfold : ∀ (l : List Node) (t : RoutingTable),
      l.foldl (fun t n => t.remove n.id) t = (l.map (·.id)).foldl (fun t i => t.remove i) t := by
    intro l
    induction l with
    | nil => intro t; rfl
    | cons x xs ih => intro t; simp only [List.foldl_cons, List.map_cons]; exact ih _
  rw [hfold]
  exact (mem_entries_removeAll _ rt hinv default).1

/-- who is pinged: every entry that is not stale and was not heard from in the last 10 seconds -/
theorem ping_targets (rt : RoutingTable) (hinv : TableInv rt) (now : Nat) (a : Addr) :
    a ∈ (pruneAndPing rt now).2 ↔ ∃ e ∈ rt.entries, e.addr = a ∧ e.isStale now = false ∧ e.shouldPing now = true := by
  unfold pruneAndPing
  simp only [List.mem_map, List.mem_filter, nodes_eq_entries rt hinv, Bool.and_eq_true, Bool.not_eq_true']
  constructor
  · rintro ⟨e, ⟨he, h1, h2⟩, rfl⟩; exact ⟨e, he, rfl, h1, h2⟩
  · rintro ⟨e, he, rfl, h1, h2⟩; exact ⟨e, ⟨he, h1, h2⟩, rfl⟩

/-! ### timers -/

/-- the ping round runs as soon as more than 5 minutes passed since the previous one -/
theorem ping_round_when_due (a : Actor) (now : Nat)
    (h : now - a.core.lastPing > secsToNs Constants.PING_TABLE_SECS) :
    (a.pingTable now).core.lastPing = now ∧
    (a.pingTable now).core.rt = (pruneAndPing a.core.rt now).1 := by
  have hfold : ∀ (l : List Addr) (b : Actor), (l.foldl (fun a addr => a.ping addr now) b).core = b.core := by
    intro l
    induction l with
    | nil => intro b; rfl
    | cons x xs ih => intro b; simp only [List.foldl_cons]; rw [ih]; rfl
  unfold pingTable
  simp only [h, ite_true, hfold]
  exact ⟨rfl, rfl⟩

/-- …and not before -/
theorem no_ping_round_before (a : Actor) (now : Nat)
    (h : ¬ now - a.core.lastPing > secsToNs Constants.PING_TABLE_SECS) : a.pingTable now = a := by
  unfold pingTable; simp [h]

/-- a node with a bootstrap list whose table is empty looks up its own id again at every tick:
    the table never stays empty while a bootstrap node answers -/
theorem empty_table_bootstraps (a : Actor) (now : Nat) (he : a.core.rt.isEmpty = true)
    (hb : a.core.bootstrap.isEmpty = false) :
    hasKey (a.bootstrapIfEmpty now).core.iter a.id := by
  unfold bootstrapIfEmpty populate
  simp only [he, ite_true, hb, Bool.false_eq_true, ite_false]
  exact (C06.get_frame a .findNode a.id [] now).2.2.2.2

/-- every 15 minutes the own id is looked up again, whatever the table holds -/
theorem refresh_when_due (a : Actor) (now : Nat) (hdue : a.refreshDue now = true)
    (hb : a.core.bootstrap.isEmpty = false) :
    hasKey (a.refreshTable now).core.iter a.id := by
  unfold refreshTable populate
  simp only [hdue, ite_true]
  generalize hb' : adaptiveSwitch { a with core := { a.core with lastRefresh := now } } = b
  have hboot : b.core.bootstrap = a.core.bootstrap := by
    rw [← hb']; unfold adaptiveSwitch; split <;> rfl
  have hid : b.id = a.id := by
    rw [← hb']; unfold adaptiveSwitch Actor.id; split <;> rfl
  simp only [hboot, hb, Bool.false_eq_true, ite_false]
  have := (C06.get_frame b .findNode b.id [] now).2.2.2.2
  rw [hid] at this
  rw [hid]
  exact this


/-! ### whoever answers is in the table -/

/-- `KBucket::add` answers `true` only after putting the incoming node (with its fresh timestamp) at
    the tail of the bucket -/
theorem kbucketAdd_true_mem (nodes : List Node) (incoming : Node) (now : Nat)
    (h : (RoutingTable.kbucketAdd nodes incoming now).2 = true) :
    incoming ∈ (RoutingTable.kbucketAdd nodes incoming now).1 := by
  unfold RoutingTable.kbucketAdd at h ⊢
  cases hf : nodes.findIdx? (fun n => n.id == incoming.id) with
  | some index =>
    rw [hf] at h
    simp only at h ⊢
    split
    · simp
    · rename_i hacc; rw [if_neg hacc] at h; cases h
  | none =>
    rw [hf] at h
    simp only at h ⊢
    split
    · simp
    · rename_i h1
      rw [if_neg h1] at h
      split
      · simp
      · rename_i h2; rw [if_neg h2] at h; cases h

/-- **`add` says what it did**: when it answers `true`, the table holds the node as given — its
    id, its address, last seen now. -/
theorem add_true_mem (rt : RoutingTable) (hinv : TableInv rt) (node : Node) (now : Nat)
    (h : (rt.add node now).2 = true) : node ∈ (rt.add node now).1.entries := by
  unfold RoutingTable.add at h ⊢
  split
  · rename_i h0; simp [h0] at h
  · split
    · rename_i h0 h1; simp [h0, h1] at h
    · rename_i h0 h1
      simp only [h0, h1] at h
      simp only
      rw [mem_entries_setBucket rt hinv.sorted]
      exact Or.inl (kbucketAdd_true_mem _ node now (by simpa using h))


/-- the only answer to a lookup whose author is not offered to the routing table: signed peers of
    which one record does not verify -/
theorem lookupStep_flag_false (q : IterQuery) (env : Env) (src : Addr) (m : Message)
    (h : (lookupStep q env src m).2.2 = false) :
    ∃ i t ps ns, m.mtype = .response (.getSignedPeers i t ps ns) := by
  unfold lookupStep at h
  have key : ∀ (q' : IterQuery), (queryValue env.verify q' m.mtype).2 = false →
      ∃ i t ps ns, m.mtype = .response (.getSignedPeers i t ps ns) := by
    intro q' hq
    unfold queryValue at hq
    split at hq
    · cases hq
    · rename_i i t ps ns heq
      exact ⟨i, t, ps, ns, heq⟩
    · split at hq <;> cases hq
    · split at hq <;> cases hq
    · cases hq
  split at h
  · rename_i v b heq
    exact key _ (by rw [heq]; exact h)
  · rename_i b heq
    exact key _ (by rw [heq]; exact h)

/-- **Whoever answers a lookup is offered to the routing table** — with a value or without (the
    `fix:` commit 65e9807 made the first half true): after `handle_response` the table is the old
    table with `add(author id @ sender address, seen now)` applied. -/
theorem answer_adds_author (c : Core) (env : Env) (src : Addr) (m : Message) (target : Id) (q : IterQuery) (i : Id)
    (hro : m.readOnly = false)
    (hput : c.puts.find? (fun p => p.2.q.isInflight m.tid.toNat) = none)
    (hfind : c.iter.find? (fun p => p.2.isInflight m.tid.toNat) = some (target, q))
    (hflag : (lookupStep q env src m).2.2 = true) (hauth : authorId m = some i) :
    (handleResponse c env src m).1.rt = (c.rt.add { id := i, addr := src, lastSeen := env.now } env.now).1 := by
  unfold handleResponse
  simp only [hro, Bool.false_eq_true, ite_false, hput, hfind, hflag, ite_true]
  unfold addResponder
  simp only [hauth]
  split <;> rfl

/-- …and whoever answers a ping (an answer that belongs to no lookup and no put) -/
theorem ping_answer_adds_author (c : Core) (env : Env) (src : Addr) (m : Message) (i : Id)
    (hro : m.readOnly = false)
    (hput : c.puts.find? (fun p => p.2.q.isInflight m.tid.toNat) = none)
    (hfind : c.iter.find? (fun p => p.2.isInflight m.tid.toNat) = none)
    (hm : m.mtype = .response (.ping i)) :
    (handleResponse c env src m).1.rt = (c.rt.add { id := i, addr := src, lastSeen := env.now } env.now).1 := by
  unfold handleResponse
  simp only [hro, Bool.false_eq_true, ite_false, hput, hfind, hm]
  unfold addResponder authorId
  simp only [hm, Response.authorId]
  split <;> rfl

/-- **C14, first clause, for one answer.**  A peer whose answer to a lookup has just been handled is
    in the routing table, seen now, unless `RoutingTable::add` refused it — which it does only for
    the table's own id, for the per-IP limits of C12, or for a full bucket whose oldest entry is
    still fresh. -/
theorem answering_peer_in_table (c : Core) (hinv : TableInv c.rt) (env : Env) (src : Addr) (m : Message)
    (target : Id) (q : IterQuery) (i : Id) (hro : m.readOnly = false)
    (hput : c.puts.find? (fun p => p.2.q.isInflight m.tid.toNat) = none)
    (hfind : c.iter.find? (fun p => p.2.isInflight m.tid.toNat) = some (target, q))
    (hflag : (lookupStep q env src m).2.2 = true) (hauth : authorId m = some i)
    (hadd : (c.rt.add { id := i, addr := src, lastSeen := env.now } env.now).2 = true) :
    ({ id := i, addr := src, lastSeen := env.now } : Node) ∈ (handleResponse c env src m).1.rt.entries := by
  rw [answer_adds_author c env src m target q i hro hput hfind hflag hauth]
  exact add_true_mem c.rt hinv _ env.now hadd


end Mainline.Props.C14
