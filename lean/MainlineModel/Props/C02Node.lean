/-
  C02, the whole node — every value a node remembers for, or forwards to, its callers is authentic.

  `Props/C02.lean` proves it for one message and one lookup.  Here: for every registered lookup of a
  node, in every state the node can reach (`reachable_authInv`), and for the value the node forwards
  to the callers parked under a target when a datagram arrives (`forwarded_value_authentic`).
  Uses the refinement of `Props/C07.lean`: the actor touches its registered lookups only through
  `lookupStep` and visits.
-/
import MainlineModel.Props.C07
namespace Mainline.Props.C02
open Mainline Mainline.Actor Mainline.Props.C07

/-- every registered lookup sits under its own target and remembers only authentic values -/
def AuthInv (verify : Verify) (iter : List (Id × IterQuery)) : Prop :=
  ∀ p ∈ iter, p.2.target = p.1 ∧ ResponsesAuthentic verify p.2

theorem visitAll_responses (a : Actor) (q : IterQuery) (tos : List Addr) (now : Nat) :
    (a.visitAll q tos now).2.responses = q.responses := by
  unfold visitAll
  induction tos generalizing a q with
  | nil => rfl
  | cons t ts ih => simp only [List.foldl_cons]; rw [ih]; rfl

/-- a history of lookup operations under one signature check keeps the lookup's target, kind and the
    authenticity of what it remembers -/
theorem lrun_authentic (verify : Verify) (ops : List LOp) :
    ∀ q : IterQuery, MsgsOk (fun e _ _ => e.verify = verify) ops → ResponsesAuthentic verify q →
      (lrun q ops).target = q.target ∧ (lrun q ops).kind = q.kind ∧ ResponsesAuthentic verify (lrun q ops) := by
  unfold lrun
  induction ops with
  | nil => intro q _ h; exact ⟨rfl, rfl, h⟩
  | cons op ops ih =>
    intro q hok hq
    simp only [List.foldl_cons]
    have hrest : MsgsOk (fun e _ _ => e.verify = verify) ops := fun e s m h => hok e s m (List.mem_cons_of_mem _ h)
    cases op with
    | msg env src m =>
      have hv : env.verify = verify := hok env src m List.mem_cons_self
      obtain ⟨t1, k1, _, r1⟩ := lookupStep_authentic q env src m (by rw [hv]; exact hq)
      obtain ⟨t2, k2, r2⟩ := ih (lstep q (.msg env src m)) hrest (by rw [← hv]; exact r1)
      exact ⟨t2.trans t1, k2.trans k1, r2⟩
    | visitAddrs a tos now =>
      obtain ⟨_, v2, v3, _, _⟩ := visitAll_fields a q tos now
      have hr : ResponsesAuthentic verify (lstep q (.visitAddrs a tos now)) := by
        intro v hv
        have : v ∈ q.responses := by
          have h := visitAll_responses a q tos now
          simp only [lstep] at hv; rw [h] at hv; exact hv
        exact authentic_congr verify _ q (by simp only [lstep]; exact v2.symm) (by simp only [lstep]; exact v3.symm) v (hq v this)
      obtain ⟨t2, k2, r2⟩ := ih _ hrest hr
      exact ⟨t2.trans v2, k2.trans v3, r2⟩
    | visitClosest a now =>
      obtain ⟨_, v2, v3, _, _⟩ := visitAll_fields a q q.closestCandidates now
      have hr : ResponsesAuthentic verify (lstep q (.visitClosest a now)) := by
        intro v hv
        have : v ∈ q.responses := by
          have h := visitAll_responses a q q.closestCandidates now
          simp only [lstep] at hv; rw [h] at hv; exact hv
        exact authentic_congr verify _ q (by simp only [lstep]; exact v2.symm) (by simp only [lstep]; exact v3.symm) v (hq v this)
      obtain ⟨t2, k2, r2⟩ := ih _ hrest hr
      exact ⟨t2.trans v2, k2.trans v3, r2⟩

theorem seedQuery_fields (rid t : Id) (k : GetKind) (seeds : List Node) :
    (seedQuery rid t k seeds).target = t ∧ (seedQuery rid t k seeds).responses = [] := by
  unfold seedQuery
  have : ∀ (q : IterQuery), (seeds.foldl (fun q n => { q with closest := q.closest.add n }) q).target = q.target ∧
      (seeds.foldl (fun q n => { q with closest := q.closest.add n }) q).responses = q.responses := by
    induction seeds with
    | nil => intro q; exact ⟨rfl, rfl⟩
    | cons n ns ih => intro q; simp only [List.foldl_cons]; exact ih _
  exact this _

/-- **One iteration of the loop keeps the invariant**, whatever datagram arrives -/
theorem step_authInv (a : Actor) (env : Env) (dgram : Option (Message × Addr)) (msg : Option ApiMsg)
    (h : AuthInv env.verify a.core.iter) : AuthInv env.verify (a.step env dgram msg).core.iter := by
  have hrel := step_iter (fun e _ _ => e.verify = env.verify) a env dgram msg (fun _ _ _ => rfl)
  intro p hp
  rcases hrel p.1 p.2 hp with ⟨q, ops, hm, heq, hok⟩ | ⟨rid, k, seeds, ops, heq, hok⟩
  · obtain ⟨ht, hr⟩ := h (p.1, q) hm
    obtain ⟨t1, _, r1⟩ := lrun_authentic env.verify ops q hok hr
    rw [heq]
    exact ⟨t1.trans ht, r1⟩
  · obtain ⟨st, sr⟩ := seedQuery_fields rid p.1 k seeds
    obtain ⟨t1, _, r1⟩ := lrun_authentic env.verify ops (seedQuery rid p.1 k seeds) hok
      (by intro v hv; rw [sr] at hv; cases hv)
    rw [heq]
    exact ⟨t1.trans st, r1⟩

/-- **Every reachable state**: start any node and run it through any inputs that use one signature
    check; every lookup it has registered sits under its own target and remembers only values that
    are authentic for it — whatever the datagrams contained. -/
theorem reachable_authInv (verify : Verify) (cfg : NodeConfig) (seed : UInt64) (t0 : Nat) (ins : List StepIn)
    (hv : ∀ i ∈ ins, i.env.verify = verify) :
    AuthInv verify (runSteps (Actor.create cfg seed t0) ins).core.iter := by
  have h0 : AuthInv verify (Actor.create cfg seed t0).core.iter := by
    obtain ⟨hrel, _⟩ := create_iter (fun e _ _ => e.verify = verify) cfg seed t0
    intro p hp
    rcases hrel p.1 p.2 hp with ⟨q, _, hm, _, _⟩ | ⟨rid, k, seeds, ops, heq, hok⟩
    · cases hm
    · obtain ⟨st, sr⟩ := seedQuery_fields rid p.1 k seeds
      obtain ⟨t1, _, r1⟩ := lrun_authentic verify ops (seedQuery rid p.1 k seeds) hok
        (by intro v hv; rw [sr] at hv; cases hv)
      rw [heq]
      exact ⟨t1.trans st, r1⟩
  unfold runSteps
  generalize Actor.create cfg seed t0 = a at h0
  induction ins generalizing a with
  | nil => exact h0
  | cons i is ih =>
    simp only [List.foldl_cons]
    have hi : i.env.verify = verify := hv i List.mem_cons_self
    refine ih (fun j hj => hv j (List.mem_cons_of_mem _ hj)) _ ?_
    rw [← hi]
    exact step_authInv a i.env i.dgram i.msg (by rw [hi]; exact h0)

/-- **What is forwarded.**  When a datagram makes `handle_response` produce a value for the callers
    parked under a target, that value is authentic for the lookup registered under that target. -/
theorem forwarded_value_authentic (c : Core) (env : Env) (src : Addr) (m : Message) (t : Id) (v : Value)
    (hinv : AuthInv env.verify c.iter) (h : (handleResponse c env src m).2 = some (t, v)) :
    ∃ q, (t, q) ∈ c.iter ∧ q.target = t ∧ Authentic env.verify q v := by
  unfold handleResponse at h
  split at h
  · cases h
  · split at h
    · cases h
    · split at h
      · rename_i target q hf
        have hmem : (target, q) ∈ c.iter := List.mem_of_find?_eq_some hf
        obtain ⟨ht, hr⟩ := hinv _ hmem
        obtain ⟨_, _, hval, _⟩ := lookupStep_authentic q env src m hr
        have key : ∀ o : Option Value, o.map (fun v => (target, v)) = some (t, v) → target = t ∧ o = some v := by
          intro o ho
          cases o with
          | none => cases ho
          | some x => simp only [Option.map_some, Option.some.injEq, Prod.mk.injEq] at ho; exact ⟨ho.1, by rw [ho.2]⟩
        split at h
        · obtain ⟨e1, e2⟩ := key _ h
          subst e1
          exact ⟨q, hmem, ht, hval v e2⟩
        · obtain ⟨e1, e2⟩ := key _ h
          subst e1
          exact ⟨q, hmem, ht, hval v e2⟩
      · split at h <;> cases h

end Mainline.Props.C02
