/-
  C01 — Stored data is found: put-then-get completeness and availability.

  FULL STATEMENT (`C01_statement`, stated on the honest network of `Model/Net.lean`, NOT proved as a
  whole): in a network of honest, mutually reachable nodes, once a put has been answered Ok on one
  node, a lookup of the same key started afterwards on any other node with a non-empty table yields
  the stored value, as long as one acknowledging node other than the reader is alive.

  PROVED (`…_partial`): (1) every safety invariant of a single node (C06's `Good`) holds for every
  node of every network history, with the network as an adversary; (2) the chain of node-level facts
  the full statement composes: a put is answered Ok only if a storing node acknowledged it (C08), a
  server acknowledges a put only after storing it and then serves it to any requester (C03/C04 on
  the shared `Server` model; restated here for the immutable case), a reader yields exactly the
  authentic values it receives (C02), a lookup queries each of its 20 closest candidates (C07) in
  the C11 order.  (3) for honest loss-free networks of at
  most 20 nodes the value IS found (`small_network_value_found_partial`, on the lookup's history).
  MISSING: the convergence argument for larger networks, that the reader's candidate list reaches an
  acknowledging node in every honest network (Kademlia's routing invariant over the *union* of the
  nodes' tables) — observed by the `mnet` stream on real networks of 2..24 nodes with crashes, and
  on the multi-node model through the correspondence, but not proved.
-/
import MainlineModel.Model.Net
import MainlineModel.Props.C06
import MainlineModel.Props.C03
import MainlineModel.Props.C07
namespace Mainline.Props.C01
open Mainline Mainline.Actor

/-! ### the full statement, on the honest network -/

/-- an immutable value put on `writer`, then looked up on `reader` -/
def putThenGet (verify : Verify) (net : Net) (writer reader : Addr) (v : Bytes) (rounds : Nat) : Net :=
  let target : Id := ⟨hashImmutable v⟩
  let n1 := Net.apply verify net (.api writer (.put 1 (.putImmutable target v) []))
  let s1 := Net.settle verify 5000000 rounds (n1.collect)
  let n2 := Net.apply verify s1.1 (.api reader (.get (.getValue none none) target (.immutable 2)))
  (Net.settle verify 5000000 rounds (n2, s1.2)).1

/-- **C01 for immutable values** (the other three kinds are analogous): if the writer's put is
    answered Ok and some node other than the reader stored the value, the reader's get yields it -/
def C01_statement : Prop :=
  ∀ (verify : Verify) (net : Net) (writer reader : Addr) (v : Bytes) (rounds : Nat),
    writer ≠ reader →
    (∃ w, (putThenGet verify net writer reader v rounds).node? writer = some w ∧
        (∃ t, Event.putResult 1 (.ok t) ∈ w.events)) →
    (∃ h s, h ≠ reader ∧ (putThenGet verify net writer reader v rounds).node? h = some s ∧
        s.core.serverMode = true ∧ s.core.server.immutable.find? ⟨hashImmutable v⟩ = some v) →
    (∃ r, (putThenGet verify net writer reader v rounds).node? reader = some r ∧
        Event.value 2 (.immutable v) ∈ r.events)

/-! ### (1) single-node safety lifts to every network history -/

def AllGood (n : Net) : Prop := ∀ p ∈ n.nodes, C06.Good p.2

theorem apply_allGood (verify : Verify) (n : Net) (h : AllGood n) (op : NetOp) : AllGood (Net.apply verify n op) := by
  have hmap : ∀ (a : Addr) (f : Actor → Actor), (∀ x, C06.Good x → C06.Good (f x)) → AllGood (n.mapNode a f) := by
    intro a f hf p hp
    simp only [Net.mapNode, List.mem_map] at hp
    obtain ⟨q, hq, rfl⟩ := hp
    split
    · exact hf _ (h q hq)
    · exact h q hq
  cases op with
  | deliver to m src =>
    show AllGood (n.mapNode to (fun a => a.step (n.env verify) (some (m, src)) none))
    exact hmap to _ (fun x hx => C06.step_good x hx (n.env verify) (some (m, src)) none)
  | idle node =>
    show AllGood (n.mapNode node (fun a => a.step (n.env verify) none none))
    exact hmap node _ (fun x hx => C06.step_good x hx (n.env verify) none none)
  | api node msg =>
    show AllGood (n.mapNode node (fun a => a.step (n.env verify) none (some msg)))
    exact hmap node _ (fun x hx => C06.step_good x hx (n.env verify) none (some msg))
  | advance dt => exact h

/-- **Whatever the network does** — loses, duplicates, reorders, delays or forges datagrams — and
    whatever calls are made on whatever nodes, on every node nobody waits on nothing. -/
theorem net_reachable_good_partial (verify : Verify) (n : Net) (h : AllGood n) (ops : List NetOp) :
    AllGood (Net.run verify n ops) := by
  unfold Net.run
  induction ops generalizing n with
  | nil => exact h
  | cons op ops ih => simp only [List.foldl_cons]; exact ih _ (apply_allGood verify n h op)

/-- a network of freshly created nodes -/
theorem fresh_net_good (t0 : Nat) (cfgs : List (Addr × NodeConfig × UInt64)) :
    AllGood { now := t0, nodes := cfgs.map fun c => (c.1, Actor.create c.2.1 c.2.2 t0) } := by
  intro p hp
  simp only [List.mem_map] at hp
  obtain ⟨c, _, rfl⟩ := hp
  exact C06.create_good _ _ _

/-! ### (2) the node-level chain -/

/-- a put is answered Ok only after a storing node's acknowledgement was counted (C08) -/
theorem ok_needs_ack_partial (q : PutQuery) (sock : Inflight) (now : Nat) (h : q.check sock now = .ok true) :
    0 < q.storedAt := ((C08.check_ok_iff q sock now).1 h).2

/-- a server that acknowledges an immutable put has stored exactly that value under its target -/
theorem stored_on_ack_partial (s : Server) (verify : Verify) (rt : RoutingTable) (src : Addr)
    (wall : Nat) (rid : Id) (token : Bytes) (target : Id) (v : Bytes)
    (h : (s.handlePut verify rt src wall rid token (.putImmutable target v)).2 = C03.ok rt) :
    (s.handlePut verify rt src wall rid token (.putImmutable target v)).1.immutable.find? target = some v :=
  C03.put_immutable_stores s verify rt src wall rid token target v h

/-- …and a server that holds a value answers a `get` for its target with that value, whoever asks -/
theorem stored_is_served_partial (s : Server) (verify : Verify) (rt srt : RoutingTable)
    (src : Addr) (now wall : Nat) (rid target : Id) (salt : Option Bytes) (v : Bytes)
    (h : s.immutable.find? target = some v) :
    ∃ i tok ns, (s.handleRequest verify (fun _ _ => true) rt srt src now wall ⟨rid, .getValue target none salt⟩).2
        = some (.response (.getImmutable i tok ns v)) := by
  unfold Server.handleRequest
  simp only [Bool.not_true, Bool.false_eq_true, ite_false]
  generalize hs0 : (if s.tokens.shouldUpdate now = true then
      ({ s with tokens := (s.tokens.rotate s.rng now).1, rng := (s.tokens.rotate s.rng now).2 } : Server)
    else s) = s0
  have him : s0.immutable = s.immutable := by rw [← hs0]; split <;> rfl
  have hget : (s0.immutable.get target).2 = some v := by
    rw [Lru.get_snd, him]; exact h
  cases hg : s0.immutable.get target with
  | mk im found =>
    rw [hg] at hget
    simp only at hget
    subst hget
    exact ⟨_, _, _, rfl⟩

/-- …which the reader yields to its caller if and only if it is authentic for the looked-up target
    (C02): an honest holder's answer always is -/
theorem honest_answer_is_yielded_partial (verify : Verify) (q : IterQuery) (i : Id) (tok : Bytes)
    (ns : Option (List Node)) (v : Bytes) (h : hashImmutable v = q.target.bytes) :
    (queryValue verify q (.response (.getImmutable i tok ns v))).1 = some (.immutable v) := by
  simp [queryValue, h]


/-! ### (3) networks of up to 20 nodes: the value is found -/

/-- **Put-then-get completeness for honest loss-free networks of at most 20 nodes, on the lookup's
    history** (proved in `Props/C07.lean`): if a live node holding the value can be reached, through
    the servers' answers, from any address the reader's lookup queried, the lookup queries it and its
    answer hands the value to the reader's callers.  `_partial`: larger networks need Kademlia's
    routing argument over the union of the nodes' tables.  The model actor applies exactly the
    operations of `C07.lrun` to its lookups (`C07.step_iter`). -/
theorem small_network_value_found_partial (U : Id → Addr → Prop) (hU : C07.Honest U) (univ : List Id)
    (huniv : ∀ i a, U i a → i ∈ univ) (hsmall : univ.length ≤ Constants.K)
    (q0 : IterQuery) (h0 : C07.CandOk U q0) (ops : List C07.LOp) (hops : C07.AllIn U (C07.listed ops))
    (hcl : C07.Closed (C07.lrun q0 ops)) (answers : Addr → Option (List Node))
    (hloss : C07.LossFree answers q0 ops)
    (holder : Addr) (v : Bytes) (hhash : hashImmutable v = q0.target.bytes)
    (hreach : ∃ a ∈ (C07.lrun q0 ops).visited, C07.Reaches answers a holder)
    (hserves : holder ∈ (C07.lrun q0 ops).visited →
      ∃ env m i tok ns, C07.LOp.msg env holder m ∈ ops ∧ m.mtype = .response (.getImmutable i tok ns v)) :
    holder ∈ (C07.lrun q0 ops).visited ∧ Value.immutable v ∈ C07.lemits q0 ops :=
  C07.small_network_value_found U hU univ huniv hsmall q0 h0 ops hops hcl answers hloss holder v hhash hreach hserves

end Mainline.Props.C01
