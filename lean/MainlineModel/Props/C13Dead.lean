/-
  C13, last clause — "with an unreachable bootstrap list the node reports not bootstrapped instead
  of hanging" — as a theorem about the whole node from its creation (it rests on the time bound of
  `Props/C06Time.lean`).

  A node created with a bootstrap list registers the lookup of its own id in its very first
  maintenance (`C14.empty_table_bootstraps`; checked below for a concrete configuration), and
  `bootstrapped()` parks a caller on that lookup.  If nobody ever answers — no datagram arrives in any
  iteration — every lookup registered at creation is released by a tick of the run as soon as the clock
  has passed one request timeout: unregistered, its callers answered (with the node list it has — none)
  and un-parked.  The empty-table retry of C14 then starts the next attempt.
-/
import MainlineModel.Props.C06Time
import MainlineModel.Props.C14
namespace Mainline.Props.C13Dead
open Mainline Mainline.Actor Mainline.Props.C06Time

/-- **An unreachable bootstrap list cannot hang the node.**  For every configuration, every lookup `q`
    registered when the node is created, and every run in which no datagram ever arrives (monotone
    clock, request timeout at or below `T`, no wrap of the id counter): once the clock has reached
    `t0 + T`, some tick of the run has released the lookup — it is unregistered and every caller parked
    on it has its closing event. -/
theorem unreachable_bootstrap_released (T : Nat) (cfg : NodeConfig) (seed : UInt64) (t0 : Nat)
    (hb0 : cfg.firstTid % two32 + (Actor.create cfg seed t0).out.length < two32) (hT : 0 < T)
    (ins : List StepIn) (hok : RunOk T (Actor.create cfg seed t0) t0 ins) (hsil : Silent ins)
    (hend : t0 + T ≤ endNow t0 ins)
    (t : Id) (q : IterQuery) (hq : alGet (Actor.create cfg seed t0).core.iter t = some q) :
    ∃ pre i post, ins = pre ++ i :: post ∧
      Released (runSteps (Actor.create cfg seed t0) pre) ((runSteps (Actor.create cfg seed t0) pre).afterRecv i.env none) t := by
  have hr := create_ready cfg seed t0 hb0
  rcases silent_run T ins _ t0 hr hok hsil t q hq (t0 + T) (dueBy_now T _ t0 hr.sock.ord q) (by omega) with h | ⟨_, hlt⟩
  · exact h
  · exact absurd hlt (by omega)

/-- the lookup is there (a test, labelled as a test): a client with one bootstrap address has the
    lookup of its own id registered when it is created -/
example : (alGet (Actor.create demoCfg 7 0).core.iter (Actor.create demoCfg 7 0).id).isSome = true := by decide

end Mainline.Props.C13Dead
