/-
  C19, last clause — "is_valid_for_ip agrees with the BEP42 reference computation (CRC32C of the
  masked IP and r) for every IP and every id" — against an INDEPENDENT definition of CRC-32C.

  `Props/C19.lean` states the clause with the model's own CRC-32C (the reflected, table-free
  implementation that the `hash` stream ties to the `crc` crate).  `Lemmas/CrcRef.lean` defines
  CRC-32C by the book (MSB-first shift register, polynomial 0x1EDC6F41, reflected input and output,
  init and xorout 0xFFFFFFFF) and proves the two equal for byte strings of every length.  Hence the
  clause holds with the textbook CRC.  Axioms: the three `bv_decide` facts of `Lemmas/CrcRef.lean`
  (32-bit identities whose SAT certificates are checked by compiled code) besides the usual three.
-/
import MainlineModel.Props.C19
import MainlineModel.Lemmas.CrcRef
namespace Mainline.Props.C19
open Mainline Mainline.Id

/-- **`is_valid_for_ip` is the BEP42 reference computation with the textbook CRC-32C**: exempt
    ranges, otherwise the first 21 bits of the id equal the first 21 bits of CRC-32C over the
    big-endian word `(ip & 0x030f3fff) | (r << 29)`, `r` the id's last byte — for every id and IP. -/
theorem isValidForIp_iff_textbook_crc (a : Id) (ip : UInt32) :
    a.isValidForIp ip =
      (ipExempt ip ||
        first21 a.bytes ==
          first21 ((be32 (CrcRef.crc32c (be32 ((ip &&& (0x030f3fff : UInt32)) ||| ((a.bytes.getD 19 0).toUInt32 <<< 29))))).take 3)) := by
  rw [← CrcRef.crc32c_eq_reference]
  exact isValidForIp_iff_reference a ip

-- the BEP42 test vector of the specification (a test, labelled as a test): 124.31.75.21 with r = 1 gives a
-- CRC starting 5f bf bd, i.e. the 21-bit prefix of the specification's example id 5fbfbf…
set_option maxRecDepth 100000 in
example : (be32 (CrcRef.crc32c (be32 (((0x7C1F4B15 : UInt32) &&& (0x030f3fff : UInt32)) ||| ((1 : UInt32) <<< 29))))).take 3
    = [0x5f, 0xbf, 0xbd] := by decide

end Mainline.Props.C19
