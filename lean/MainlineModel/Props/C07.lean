/-
  C07 — Iterative lookups are exhaustive (Kademlia closure).

  Model: `IterQuery` with `Actor.visit` / `visitAll` / `visitClosest` / `visitClosestAll`
  (`IterativeQuery::{visit, visit_closest, closest_candidates, is_done}`), `Actor.absorbNodes`
  (`handle_response` merging the nodes of every response) and `Actor.closestOfDone`.
  The candidate order (BEP42-secure first, then XOR distance, one insecure or eight secure nodes
  per IP) is the `ClosestNodes` accumulator of C11.

  Three layers: (a) single operations (`visit_closest_closes`, …); (b) the whole lookup as a history
  of operations `lrun` — `lrun_merged`, `lookup_closure`, networks of at most 20 nodes
  (`small_population_all_queried`, `small_network_reachable_queried`, `small_network_value_found`);
  (c) refinement — every iteration of the actor loop acts on its registered lookups only through
  those operations (`step_iter`) and leaves them closed (`step_closed`), hence
  `node_lookup_closure` for every run of a node from its creation.
-/
import MainlineModel.Lemmas.ActorLemmas
import MainlineModel.Props.C11
import MainlineModel.Lemmas.SocketLemmas
import MainlineModel.Props.C02
import MainlineModel.Props.C06
namespace Mainline.Props.C07
open Mainline Mainline.Actor Mainline.ClosestNodes

/-- the lookup's closure property: each of its 20 closest candidates has been queried -/
def Closed (q : IterQuery) : Prop := ∀ n ∈ q.closest.nodes.take Constants.K, n.addr ∈ q.visited

theorem closed_iff (q : IterQuery) : Closed q ↔ q.closestCandidates = [] := by
  unfold Closed IterQuery.closestCandidates
  rw [List.map_eq_nil_iff, List.filter_eq_nil_iff]
  constructor
  · intro h n hn; simpa using h n hn
  · intro h n hn; simpa using h n hn

/-! ### visiting -/

theorem visit_fields (a : Actor) (q : IterQuery) (to : Addr) (now : Nat) :
    (a.visit q to now).2.closest = q.closest ∧ (a.visit q to now).2.target = q.target ∧
    (a.visit q to now).2.kind = q.kind ∧ (a.visit q to now).2.responders = q.responders ∧
    to ∈ (a.visit q to now).2.visited ∧ (∀ x ∈ q.visited, x ∈ (a.visit q to now).2.visited) := by
  refine ⟨rfl, rfl, rfl, rfl, ?_, ?_⟩
  · simp only [visit]
    split
    · rename_i h; simpa using h
    · simp
  · intro x hx
    simp only [visit]
    split
    · exact hx
    · exact List.mem_append_left _ hx

theorem visitAll_fields (a : Actor) (q : IterQuery) (tos : List Addr) (now : Nat) :
    (a.visitAll q tos now).2.closest = q.closest ∧ (a.visitAll q tos now).2.target = q.target ∧
    (a.visitAll q tos now).2.kind = q.kind ∧
    (∀ x ∈ tos, x ∈ (a.visitAll q tos now).2.visited) ∧
    (∀ x ∈ q.visited, x ∈ (a.visitAll q tos now).2.visited) := by
  unfold visitAll
  induction tos generalizing a q with
  | nil => exact ⟨rfl, rfl, rfl, by simp, fun x hx => hx⟩
  | cons t ts ih =>
    simp only [List.foldl_cons]
    obtain ⟨v1, v2, v3, _, v5, v6⟩ := visit_fields a q t now
    obtain ⟨i1, i2, i3, i4, i5⟩ := ih (a.visit q t now).1 (a.visit q t now).2
    refine ⟨i1.trans v1, i2.trans v2, i3.trans v3, ?_, fun x hx => i5 x (v6 x hx)⟩
    intro x hx
    rcases List.mem_cons.1 hx with rfl | hx
    · exact i5 _ v5
    · exact i4 x hx

/-- **Closure after every `visit_closest`.** Once a lookup has visited its closest candidates,
    every one of its 20 closest candidates has been queried. -/
theorem visit_closest_closes (a : Actor) (q : IterQuery) (now : Nat) :
    Closed (a.visitAll q q.closestCandidates now).2 := by
  obtain ⟨hc, _, _, hnew, hold⟩ := visitAll_fields a q q.closestCandidates now
  intro n hn
  rw [hc] at hn
  by_cases hv : n.addr ∈ q.visited
  · exact hold _ hv
  · apply hnew
    unfold IterQuery.closestCandidates
    rw [List.mem_map]
    exact ⟨n, List.mem_filter.2 ⟨hn, by simpa using hv⟩, rfl⟩

/-- **Never queried again.** `visit_closest` only addresses candidates that have not been visited;
    an address that has answered or timed out stays in `visited` for the lookup's lifetime. -/
theorem visit_closest_only_unvisited (q : IterQuery) : ∀ x ∈ q.closestCandidates, x ∉ q.visited := by
  intro x hx
  unfold IterQuery.closestCandidates at hx
  rw [List.mem_map] at hx
  obtain ⟨n, hn, rfl⟩ := hx
  have := (List.mem_filter.1 hn).2
  simpa using this

/-- each `visit` sends exactly one request, to that address, with the lookup's own request -/
theorem visit_sends_one (a : Actor) (q : IterQuery) (to : Addr) (now : Nat) :
    ∃ m, (a.visit q to now).1.out = a.out ++ [(to, m)] ∧ m.mtype = .request q.request := by
  exact ⟨_, rfl, rfl⟩

/-! ### a lookup is only reported done in a closed state -/

/-- a request that was just sent is in flight (any positive request timeout): so a lookup that still
    had an unvisited close candidate at `visit_closest` is not reported done in that tick -/
theorem fresh_request_in_flight (s : Inflight) (hinv : s.Inv) (hok : s.addOk) (to : Addr) (now : Nat)
    (ht : s.Timed now) (hpos : 0 < s.timeout) :
    (s.add to now).1.isInflight (s.add to now).2 now = true := by
  have hinv' := Inflight.inv_add s hinv hok to now ht
  have hmem : ({ tid := s.nextTid, to := to, sentAt := now } : InflightReq) ∈ (s.add to now).1.requests := by
    simp [Inflight.add]
  have hf := Inflight.find_of_mem _ hinv' _ hmem
  unfold Inflight.isInflight Inflight.get
  unfold Inflight.find at hf
  simp only [Inflight.add] at hf ⊢
  cases hfb : Inflight.findByTid
      { s with nextTid := (s.nextTid + 1) % two32,
               requests := s.requests ++ [{ tid := s.nextTid, to := to, sentAt := now }],
               cap := Inflight.grow s.requests.length s.cap } s.nextTid with
  | inr p => rw [hfb] at hf; cases hf
  | inl i =>
    rw [hfb] at hf
    simp only at hf ⊢
    rw [hf]
    simp [Inflight.live, hpos]

/-! ### what a finished lookup reports -/

/-- find_node reports the first 20 candidates, in candidate order -/
theorem find_node_reports_closest (c : Core) (q : IterQuery) (h : q.kind = .findNode) :
    closestOfDone c q = q.closest.nodes.take Constants.K := by
  simp [closestOfDone, h, GetKind.isFindNode]

/-- every other lookup reports (and a put writes to) a prefix of the responders — the nodes that
    answered with a token — in candidate order, at least 20 of them when there are that many -/
theorem get_reports_closest_responders (c : Core) (q : IterQuery) (h : q.kind.isFindNode = false) :
    ∃ k, closestOfDone c q = q.responders.nodes.take k ∧ min Constants.K q.responders.nodes.length ≤ k := by
  simp only [closestOfDone, h, Bool.false_eq_true, ite_false, ClosestNodes.takeSecure]
  obtain ⟨n, h1, _, h3⟩ := C11.takeUntilSecure_prefix q.responders
    (Stats.expectedDk (relevantStats c q.kind).respondersEstimate) (relevantStats c q.kind).averageSubnets
  exact ⟨n, h3, h1⟩

/-- the candidate lists stay sorted (secure first, then XOR distance) whatever is merged in -/
theorem candidates_stay_sorted (q : IterQuery) (ns : List Node) (now : Nat)
    (hs : q.closest.nodes.Pairwise (keyLt q.closest.target)) :
    (addCandidates q ns now).closest.nodes.Pairwise (keyLt q.closest.target) ∧
    (addCandidates q ns now).closest.target = q.closest.target := by
  unfold addCandidates
  induction ns generalizing q with
  | nil => exact ⟨hs, rfl⟩
  | cons n ns ih =>
    simp only [List.foldl_cons]
    have h1 := C11.add_preserves_sorted q.closest { n with lastSeen := now } hs
    have ht : (q.closest.add { n with lastSeen := now }).target = q.closest.target := add_target _ _
    obtain ⟨i1, i2⟩ := ih { q with closest := q.closest.add { n with lastSeen := now } } (by rw [ht]; exact h1)
    simp only at i1 i2
    rw [ht] at i1 i2
    exact ⟨i1, i2⟩

/-- every node listed in a response is offered to the candidate list (the per-IP rule of C11
    decides whether it enters) -/
theorem response_nodes_are_merged (q : IterQuery) (now : Nat) (m : Message) (r : Response) (ns : List Node)
    (hm : m.mtype = .response r) (hn : Response.closerNodes r = some ns) :
    absorbNodes q now m = addCandidates q ns now := by
  simp [absorbNodes, hm, hn]


/-! ## The whole lookup: closure over every history of answers -/

/-- the identity of a node is its id and address (token and last-seen time are bookkeeping) -/
def Same (a b : Node) : Prop := a.id = b.id ∧ a.addr = b.addr

/-- a candidate list holds (an entry for) the node -/
def Represented (c : ClosestNodes) (n : Node) : Prop := ∃ e ∈ c.nodes, Same e n

/-- an honest population of nodes: 20-byte ids, one address per id, one id per address, one node
    per IP -/
structure Honest (U : Id → Addr → Prop) : Prop where
  len20 : ∀ i a, U i a → i.bytes.length = 20
  id_of_addr : ∀ i j a, U i a → U j a → i = j
  addr_of_id : ∀ i a b, U i a → U i b → a = b
  one_per_ip : ∀ i j a b, U i a → U j b → a.ip = b.ip → a = b

def AllIn (U : Id → Addr → Prop) (l : List Node) : Prop := ∀ e ∈ l, U e.id e.addr

/-- in an honest population `ClosestNodes::add` never loses a node: afterwards the list holds the
    offered node, everything it held before, and only members of the population -/
theorem add_honest (U : Id → Addr → Prop) (hU : Honest U) (c : ClosestNodes) (ht : c.target.bytes.length = 20)
    (hs : c.nodes.Pairwise (keyLt c.target)) (hc : AllIn U c.nodes) (n : Node) (hn : U n.id n.addr) :
    Represented (c.add n) n ∧ (∀ e ∈ c.nodes, e ∈ (c.add n).nodes) ∧ AllIn U (c.add n).nodes := by
  unfold ClosestNodes.add
  split
  · rename_i hae
    refine ⟨?_, fun e he => he, hc⟩
    unfold Node.alreadyExists at hae
    obtain ⟨e, he, hcond⟩ := List.any_eq_true.1 hae
    simp only [Bool.and_eq_true] at hcond
    have hip : n.addr.ip = e.addr.ip := by
      have := hcond.1; unfold Node.sameIp at this; simpa using this
    have haddr : n.addr = e.addr := hU.one_per_ip _ _ _ _ hn (hc e he) hip
    have hid : e.id = n.id := hU.id_of_addr _ _ _ (hc e he) (by rw [← haddr]; exact hn)
    exact ⟨e, he, hid, haddr.symm⟩
  · rcases insert_perm c n hs with ⟨hperm, _⟩ | ⟨heq, e, he, heeq⟩
    · refine ⟨⟨n, hperm.symm.subset List.mem_cons_self, rfl, rfl⟩, ?_, ?_⟩
      · intro e he; exact hperm.symm.subset (List.mem_cons_of_mem _ he)
      · intro e he
        rcases List.mem_cons.1 (hperm.subset he) with rfl | h
        · exact hn
        · exact hc e h
    · rw [heq]
      refine ⟨?_, fun e he => he, hc⟩
      have hid : e.id = n.id := C11.cmpProbe_eq_same_id c.target n e ht (hU.len20 _ _ hn) (hU.len20 _ _ (hc e he)) heeq
      have haddr : e.addr = n.addr := hU.addr_of_id _ _ _ (hc e he) (by rw [hid]; exact hn)
      exact ⟨e, he, hid, haddr⟩

/-- the state of a lookup's candidate list that the closure argument needs -/
structure CandOk (U : Id → Addr → Prop) (q : IterQuery) : Prop where
  target20 : q.closest.target.bytes.length = 20
  sorted : q.closest.nodes.Pairwise (keyLt q.closest.target)
  allIn : AllIn U q.closest.nodes

theorem addCandidates_honest (U : Id → Addr → Prop) (hU : Honest U) (ns : List Node) (now : Nat) :
    ∀ q : IterQuery, CandOk U q → AllIn U ns →
      CandOk U (addCandidates q ns now) ∧ (∀ n ∈ ns, Represented (addCandidates q ns now).closest n) ∧
      (∀ e ∈ q.closest.nodes, e ∈ (addCandidates q ns now).closest.nodes) ∧
      (addCandidates q ns now).visited = q.visited ∧ (addCandidates q ns now).closest.target = q.closest.target := by
  unfold addCandidates
  induction ns with
  | nil => intro q hq _; exact ⟨hq, by simp, fun e he => he, rfl, rfl⟩
  | cons n ns ih =>
    intro q hq hns
    simp only [List.foldl_cons]
    have hn : U ({ n with lastSeen := now } : Node).id ({ n with lastSeen := now } : Node).addr := hns n List.mem_cons_self
    obtain ⟨hrep, hmono, hall⟩ := add_honest U hU q.closest hq.target20 hq.sorted hq.allIn { n with lastSeen := now } hn
    have hq' : CandOk U { q with closest := q.closest.add { n with lastSeen := now } } :=
      ⟨by simp only [add_target]; exact hq.target20,
       by simp only [add_target]; exact C11.add_preserves_sorted q.closest _ hq.sorted, hall⟩
    obtain ⟨i1, i2, i3, i4, i5⟩ := ih _ hq' (fun e he => hns e (List.mem_cons_of_mem _ he))
    refine ⟨i1, ?_, fun e he => i3 e (hmono e he), i4, by rw [i5]; exact add_target _ _⟩
    intro m hm
    rcases List.mem_cons.1 hm with rfl | hm
    · obtain ⟨e, he, hsame⟩ := hrep
      exact ⟨e, i3 e he, hsame⟩
    · exact i2 m hm

/-! ### the lookup's life as a history of operations -/

/-- what happens to one lookup: a message attributed to it is handled (`handle_response`), some
    addresses are visited (`visit`: bootstrap nodes, seeds), or its closest unvisited candidates are
    visited (`visit_closest`, every tick) -/
inductive LOp
  | msg (env : Env) (src : Addr) (m : Message)
  | visitAddrs (a : Actor) (tos : List Addr) (now : Nat)
  | visitClosest (a : Actor) (now : Nat)

def lstep (q : IterQuery) : LOp → IterQuery
  | .msg env src m => (lookupStep q env src m).1
  | .visitAddrs a tos now => (a.visitAll q tos now).2
  | .visitClosest a now => (a.visitAll q q.closestCandidates now).2

def lrun (q : IterQuery) (ops : List LOp) : IterQuery := ops.foldl lstep q

/-- the values handed to the lookup's callers along the way -/
def lemits (q : IterQuery) : List LOp → List Value
  | [] => []
  | op :: rest =>
    (match op with
     | .msg env src m => (match (lookupStep q env src m).2.1 with
       | some v => [v]
       | none => [])
     | _ => []) ++ lemits (lstep q op) rest

/-- the nodes listed in one message -/
def listedIn (m : Message) : List Node :=
  match m.mtype with
  | .response r => (Response.closerNodes r).getD []
  | _ => []

/-- every node listed in any answer of the history -/
def listed : List LOp → List Node
  | [] => []
  | .msg _ _ m :: rest => listedIn m ++ listed rest
  | _ :: rest => listed rest

theorem absorbNodes_eq (q : IterQuery) (now : Nat) (m : Message) :
    absorbNodes q now m = addCandidates q (listedIn m) now := by
  unfold absorbNodes listedIn
  cases hm : m.mtype with
  | response r =>
    simp only
    cases hr : Response.closerNodes r with
    | some ns => simp
    | none => simp [addCandidates]
  | request _ => simp [addCandidates]
  | error _ => simp [addCandidates]

theorem addCandidates_visited (q : IterQuery) (ns : List Node) (now : Nat) :
    (addCandidates q ns now).visited = q.visited := by
  unfold addCandidates
  induction ns generalizing q with
  | nil => rfl
  | cons n ns ih => simp only [List.foldl_cons]; rw [ih]

theorem lookupStep_cands (q : IterQuery) (env : Env) (src : Addr) (m : Message) :
    (lookupStep q env src m).1.closest = (addCandidates q (listedIn m) env.now).closest ∧
    (lookupStep q env src m).1.visited = q.visited := by
  have h1 : ∀ q1 : IterQuery, (absorbToken q1 env.now src m).closest = q1.closest ∧
      (absorbToken q1 env.now src m).visited = q1.visited := by
    intro q1; unfold absorbToken
    split
    · split <;> exact ⟨rfl, rfl⟩
    · exact ⟨rfl, rfl⟩
  have h2 : ∀ q2 : IterQuery, (absorbVote q2 m).closest = q2.closest ∧ (absorbVote q2 m).visited = q2.visited := by
    intro q2; unfold absorbVote
    split <;> exact ⟨rfl, rfl⟩
  have h3 : (absorb q env.now src m).closest = (addCandidates q (listedIn m) env.now).closest ∧
      (absorb q env.now src m).visited = q.visited := by
    unfold absorb
    obtain ⟨a1, a2⟩ := h2 (absorbToken (absorbNodes q env.now m) env.now src m)
    obtain ⟨b1, b2⟩ := h1 (absorbNodes q env.now m)
    rw [a1, b1, a2, b2, absorbNodes_eq]
    exact ⟨rfl, addCandidates_visited q (listedIn m) env.now⟩
  unfold lookupStep
  split <;> exact h3

/-- **Every history.** Whatever messages are attributed to the lookup and whenever it visits, in an
    honest population its candidate list stays sorted, holds every node listed in any answer so
    far and every earlier candidate, and no address is ever un-visited. -/
theorem lrun_merged (U : Id → Addr → Prop) (hU : Honest U) (ops : List LOp) :
    ∀ q : IterQuery, CandOk U q → AllIn U (listed ops) →
      CandOk U (lrun q ops) ∧ (∀ n ∈ listed ops, Represented (lrun q ops).closest n) ∧
      (∀ e ∈ q.closest.nodes, e ∈ (lrun q ops).closest.nodes) ∧
      (∀ a ∈ q.visited, a ∈ (lrun q ops).visited) ∧ (lrun q ops).closest.target = q.closest.target := by
  unfold lrun
  induction ops with
  | nil => intro q hq _; exact ⟨hq, by simp [listed], fun e he => he, fun a ha => ha, rfl⟩
  | cons op ops ih =>
    intro q hq hl
    simp only [List.foldl_cons]
    cases op with
    | msg env src m =>
      have hl1 : AllIn U (listedIn m) := fun e he => hl e (by simp [listed, he])
      have hl2 : AllIn U (listed ops) := fun e he => hl e (by simp [listed, he])
      obtain ⟨c1, c2, c3, c4, c5⟩ := addCandidates_honest U hU (listedIn m) env.now q hq hl1
      obtain ⟨k1, k2⟩ := lookupStep_cands q env src m
      have hq' : CandOk U (lstep q (.msg env src m)) := by
        show CandOk U (lookupStep q env src m).1
        exact ⟨by rw [k1]; exact c1.target20, by rw [k1]; exact c1.sorted, by rw [k1]; exact c1.allIn⟩
      obtain ⟨i1, i2, i3, i4, i5⟩ := ih _ hq' hl2
      refine ⟨i1, ?_, ?_, ?_, ?_⟩
      · intro n hn
        simp only [listed, List.mem_append] at hn
        rcases hn with hn | hn
        · obtain ⟨e, he, hsame⟩ := c2 n hn
          exact ⟨e, i3 e (by show e ∈ (lookupStep q env src m).1.closest.nodes; rw [k1]; exact he), hsame⟩
        · exact i2 n hn
      · intro e he
        exact i3 e (by show e ∈ (lookupStep q env src m).1.closest.nodes; rw [k1]; exact c3 e he)
      · intro a ha
        exact i4 a (by show a ∈ (lookupStep q env src m).1.visited; rw [k2]; exact ha)
      · rw [i5]; show (lookupStep q env src m).1.closest.target = _; rw [k1]; exact c5
    | visitAddrs a tos now =>
      obtain ⟨v1, _, _, _, v5⟩ := visitAll_fields a q tos now
      have hq' : CandOk U (lstep q (.visitAddrs a tos now)) := by
        show CandOk U (a.visitAll q tos now).2
        exact ⟨by rw [v1]; exact hq.target20, by rw [v1]; exact hq.sorted, by rw [v1]; exact hq.allIn⟩
      obtain ⟨i1, i2, i3, i4, i5⟩ := ih _ hq' (fun e he => hl e (by simpa [listed] using he))
      refine ⟨i1, fun n hn => i2 n (by simpa [listed] using hn), ?_, fun x hx => i4 x (v5 x hx), ?_⟩
      · intro e he; exact i3 e (by show e ∈ (a.visitAll q tos now).2.closest.nodes; rw [v1]; exact he)
      · rw [i5]; show (a.visitAll q tos now).2.closest.target = _; rw [v1]
    | visitClosest a now =>
      obtain ⟨v1, _, _, _, v5⟩ := visitAll_fields a q q.closestCandidates now
      have hq' : CandOk U (lstep q (.visitClosest a now)) := by
        show CandOk U (a.visitAll q q.closestCandidates now).2
        exact ⟨by rw [v1]; exact hq.target20, by rw [v1]; exact hq.sorted, by rw [v1]; exact hq.allIn⟩
      obtain ⟨i1, i2, i3, i4, i5⟩ := ih _ hq' (fun e he => hl e (by simpa [listed] using he))
      refine ⟨i1, fun n hn => i2 n (by simpa [listed] using hn), ?_, fun x hx => i4 x (v5 x hx), ?_⟩
      · intro e he; exact i3 e (by show e ∈ (a.visitAll q q.closestCandidates now).2.closest.nodes; rw [v1]; exact he)
      · rw [i5]; show (a.visitAll q q.closestCandidates now).2.closest.target = _; rw [v1]


/-! ### closure -/

/-- the lookup's order only looks at a node's identity -/
theorem keyLt_same (t : Id) (y e n : Node) (h : Same e n) : keyLt t y e ↔ keyLt t y n := by
  obtain ⟨hid, haddr⟩ := h
  have hsec : e.isSecure = n.isSecure := by unfold Node.isSecure; rw [hid, haddr]
  unfold keyLt
  rw [hsec, hid]

/-- **Closure, statically.** In a state where every one of the 20 first candidates has been
    queried, each candidate has either been queried itself or stands behind 20 queried candidates
    that precede it in the lookup's order (BEP42-secure first, then XOR distance). -/
theorem closed_candidate (q : IterQuery) (hs : q.closest.nodes.Pairwise (keyLt q.closest.target))
    (hcl : Closed q) (x : Node) (hx : x ∈ q.closest.nodes) :
    x.addr ∈ q.visited ∨
    ((q.closest.nodes.take Constants.K).length = Constants.K ∧
      ∀ y ∈ q.closest.nodes.take Constants.K, y.addr ∈ q.visited ∧ keyLt q.closest.target y x) := by
  have hsplit : x ∈ q.closest.nodes.take Constants.K ++ q.closest.nodes.drop Constants.K := by
    rw [List.take_append_drop]; exact hx
  rcases List.mem_append.1 hsplit with h | h
  · exact Or.inl (hcl x h)
  · right
    have hlen : Constants.K ≤ q.closest.nodes.length := by
      by_cases hk : Constants.K ≤ q.closest.nodes.length
      · exact hk
      · have : q.closest.nodes.drop Constants.K = [] := List.drop_eq_nil_of_le (by omega)
        rw [this] at h; cases h
    refine ⟨by rw [List.length_take]; omega, ?_⟩
    intro y hy
    have hp : (q.closest.nodes.take Constants.K ++ q.closest.nodes.drop Constants.K).Pairwise (keyLt q.closest.target) := by
      rw [List.take_append_drop]; exact hs
    exact ⟨hcl y hy, (List.pairwise_append.1 hp).2.2 y hy x h⟩

/-- **C07, the whole lookup.**  Take any history of a lookup in an honest population: any messages
    attributed to it in any order, visits at any time.  If it ends in a closed state (which is the
    only kind of state `visit_closest` leaves behind, `visit_closest_closes`), then every node that
    was listed in any answer has been queried, unless 20 queried candidates precede it in the
    lookup's order.  In other words: the 20 closest entries among all listed nodes were all
    queried. -/
theorem lookup_closure (U : Id → Addr → Prop) (hU : Honest U) (q0 : IterQuery) (h0 : CandOk U q0)
    (ops : List LOp) (hops : AllIn U (listed ops)) (hcl : Closed (lrun q0 ops)) :
    ∀ n ∈ listed ops, n.addr ∈ (lrun q0 ops).visited ∨
      (((lrun q0 ops).closest.nodes.take Constants.K).length = Constants.K ∧
        ∀ y ∈ (lrun q0 ops).closest.nodes.take Constants.K,
          y.addr ∈ (lrun q0 ops).visited ∧ keyLt q0.closest.target y n) := by
  obtain ⟨hok, hrep, _, _, htgt⟩ := lrun_merged U hU ops q0 h0 hops
  intro n hn
  obtain ⟨e, he, hsame⟩ := hrep n hn
  rcases closed_candidate _ hok.sorted hcl e he with h | ⟨hlen, h⟩
  · left; rw [← hsame.2]; exact h
  · right
    refine ⟨hlen, fun y hy => ⟨(h y hy).1, ?_⟩⟩
    have := (h y hy).2
    rw [htgt] at this
    exact (keyLt_same _ y e n hsame).1 this

/-- the same for the seeds the lookup started with (routing-table and cached candidates) -/
theorem lookup_closure_seeds (U : Id → Addr → Prop) (hU : Honest U) (q0 : IterQuery) (h0 : CandOk U q0)
    (ops : List LOp) (hops : AllIn U (listed ops)) (hcl : Closed (lrun q0 ops)) :
    ∀ e ∈ q0.closest.nodes, e.addr ∈ (lrun q0 ops).visited ∨
      (((lrun q0 ops).closest.nodes.take Constants.K).length = Constants.K ∧
        ∀ y ∈ (lrun q0 ops).closest.nodes.take Constants.K,
          y.addr ∈ (lrun q0 ops).visited ∧ keyLt q0.closest.target y e) := by
  obtain ⟨hok, _, hmono, _, htgt⟩ := lrun_merged U hU ops q0 h0 hops
  intro e he
  rcases closed_candidate _ hok.sorted hcl e (hmono e he) with h | ⟨hlen, h⟩
  · exact Or.inl h
  · exact Or.inr ⟨hlen, fun y hy => ⟨(h y hy).1, by have := (h y hy).2; rw [htgt] at this; exact this⟩⟩

/-! ### networks of at most 20 nodes: everything is queried -/

/-- pigeonhole: a list without repetitions whose elements all come from `u` is no longer than `u` -/
theorem length_le_of_nodup_subset {α} [DecidableEq α] (l u : List α) (hn : l.Nodup) (hsub : ∀ x ∈ l, x ∈ u) :
    l.length ≤ u.length := by
  induction l generalizing u with
  | nil => simp
  | cons a l ih =>
    rw [List.nodup_cons] at hn
    have hau : a ∈ u := hsub a List.mem_cons_self
    have hsub' : ∀ x ∈ l, x ∈ u.erase a := by
      intro x hx
      have hxa : x ≠ a := by intro h; rw [h] at hx; exact hn.1 hx
      exact (List.mem_erase_of_ne hxa).2 (hsub x (List.mem_cons_of_mem _ hx))
    have := ih (u.erase a) hn.2 hsub'
    rw [List.length_erase_of_mem hau] at this
    have hpos : 0 < u.length := List.length_pos_of_mem hau
    simp only [List.length_cons]
    omega

/-- a strictly sorted candidate list has no two entries with the same id -/
theorem sorted_ids_nodup (t : Id) (l : List Node) (hs : l.Pairwise (keyLt t)) (hsec : ∀ a ∈ l, ∀ b ∈ l, a.id = b.id → a.isSecure = b.isSecure) :
    (l.map (·.id)).Nodup := by
  induction l with
  | nil => simp
  | cons a l ih =>
    rw [List.pairwise_cons] at hs
    simp only [List.map_cons, List.nodup_cons, List.mem_map, not_exists, not_and]
    refine ⟨?_, ih hs.2 (fun x hx y hy => hsec x (List.mem_cons_of_mem _ hx) y (List.mem_cons_of_mem _ hy))⟩
    intro b hb hid
    have hlt := hs.1 b hb
    have hs2 := hsec a List.mem_cons_self b (List.mem_cons_of_mem _ hb) hid.symm
    rcases hlt with ⟨h1, h2⟩ | ⟨_, h⟩
    · rw [hs2] at h1; rw [h1] at h2; cases h2
    · rw [hid] at h; exact bytesCmp_lt_irrefl _ h

/-- in an honest population enumerated by `univ`, the candidate list is no longer than `univ` -/
theorem candidates_le_population (U : Id → Addr → Prop) (hU : Honest U) (univ : List Id)
    (huniv : ∀ i a, U i a → i ∈ univ) (q : IterQuery) (hq : CandOk U q) :
    q.closest.nodes.length ≤ univ.length := by
  have hnd := sorted_ids_nodup q.closest.target q.closest.nodes hq.sorted (by
    intro a ha b hb hid
    have haddr : a.addr = b.addr := hU.addr_of_id _ _ _ (hq.allIn a ha) (by rw [hid]; exact hq.allIn b hb)
    unfold Node.isSecure; rw [hid, haddr])
  have := length_le_of_nodup_subset (q.closest.nodes.map (·.id)) univ hnd (by
    intro i hi
    obtain ⟨e, he, rfl⟩ := List.mem_map.1 hi
    exact huniv _ _ (hq.allIn e he))
  simpa using this

/-- **C13 / C07, up to 20 nodes.** In an honest population of at most 20 nodes, a lookup that ends
    closed has queried every seed and every node listed in any answer it received. -/
theorem small_population_all_queried (U : Id → Addr → Prop) (hU : Honest U) (univ : List Id)
    (huniv : ∀ i a, U i a → i ∈ univ) (hsmall : univ.length ≤ Constants.K)
    (q0 : IterQuery) (h0 : CandOk U q0) (ops : List LOp) (hops : AllIn U (listed ops))
    (hcl : Closed (lrun q0 ops)) :
    (∀ n ∈ listed ops, n.addr ∈ (lrun q0 ops).visited) ∧
    (∀ e ∈ q0.closest.nodes, e.addr ∈ (lrun q0 ops).visited) := by
  obtain ⟨hok, hrep, hmono, _, _⟩ := lrun_merged U hU ops q0 h0 hops
  have hlen := candidates_le_population U hU univ huniv _ hok
  have hall : ∀ e ∈ (lrun q0 ops).closest.nodes, e.addr ∈ (lrun q0 ops).visited := by
    intro e he
    apply hcl e
    rw [List.take_of_length_le (by omega)]
    exact he
  refine ⟨?_, fun e he => hall e (hmono e he)⟩
  intro n hn
  obtain ⟨e, he, hsame⟩ := hrep n hn
  rw [← hsame.2]
  exact hall e he


/-! ### the network around the lookup: loss-free delivery, reachability, values -/

theorem mem_listed (ops : List LOp) (env : Env) (src : Addr) (m : Message) (h : LOp.msg env src m ∈ ops) :
    ∀ n ∈ listedIn m, n ∈ listed ops := by
  induction ops with
  | nil => cases h
  | cons op ops ih =>
    intro n hn
    rcases List.mem_cons.1 h with h1 | h1
    · subst h1; simp [listed, hn]
    · have hrest := ih h1 n hn
      cases op with
      | msg _ _ _ => simp only [listed, List.mem_append]; exact Or.inr hrest
      | visitAddrs _ _ _ => simp only [listed]; exact hrest
      | visitClosest _ _ => simp only [listed]; exact hrest

/-- `answers a = some ns`: the live server at `a` answers this lookup's request listing `ns`.
    The network is loss-free for the lookup when the answer of every queried live server has been
    handled by the end of the history. -/
def LossFree (answers : Addr → Option (List Node)) (q0 : IterQuery) (ops : List LOp) : Prop :=
  ∀ a ∈ (lrun q0 ops).visited, ∀ ns, answers a = some ns →
    ∃ env m, LOp.msg env a m ∈ ops ∧ listedIn m = ns

/-- `b` can be reached from `a` by following what the servers list -/
inductive Reaches (answers : Addr → Option (List Node)) : Addr → Addr → Prop
  | refl (a : Addr) : Reaches answers a a
  | step (a : Addr) (ns : List Node) (n : Node) (b : Addr) :
      answers a = some ns → n ∈ ns → Reaches answers n.addr b → Reaches answers a b

/-- **C13: with up to 20 servers a lookup queries every server** it can reach: in a loss-free
    honest network of at most 20 nodes, a lookup that ends closed has queried every node reachable
    (through the servers' answers) from any address it queried — all of them, when the knows-graph
    is strongly connected. -/
theorem small_network_reachable_queried (U : Id → Addr → Prop) (hU : Honest U) (univ : List Id)
    (huniv : ∀ i a, U i a → i ∈ univ) (hsmall : univ.length ≤ Constants.K)
    (q0 : IterQuery) (h0 : CandOk U q0) (ops : List LOp) (hops : AllIn U (listed ops))
    (hcl : Closed (lrun q0 ops)) (answers : Addr → Option (List Node)) (hloss : LossFree answers q0 ops) :
    ∀ a b, a ∈ (lrun q0 ops).visited → Reaches answers a b → b ∈ (lrun q0 ops).visited := by
  obtain ⟨hlisted, _⟩ := small_population_all_queried U hU univ huniv hsmall q0 h0 ops hops hcl
  intro a b ha hr
  induction hr with
  | refl a => exact ha
  | step a ns n b hans hn _ ih =>
    obtain ⟨env, m, hmem, hl⟩ := hloss a ha ns hans
    exact ih (hlisted n (mem_listed ops env a m hmem n (by rw [hl]; exact hn)))

/-! #### values -/

theorem lstep_target (q : IterQuery) (op : LOp) : (lstep q op).target = q.target := by
  cases op with
  | msg env src m =>
    show (lookupStep q env src m).1.target = q.target
    obtain ⟨ht, _, _⟩ := C02.absorb_fields q env.now src m
    unfold lookupStep
    split <;> exact ht
  | visitAddrs a tos now => exact (visitAll_fields a q tos now).2.1
  | visitClosest a now => exact (visitAll_fields a q q.closestCandidates now).2.1

/-- **An honest holder's answer reaches the callers.** Whenever in the lookup's history the answer
    of a node holding the immutable value arrives — however late, whatever came before — the value
    is handed to the lookup's callers. -/
theorem holder_answer_is_yielded (ops : List LOp) :
    ∀ (q : IterQuery) (env : Env) (src : Addr) (m : Message) (i : Id) (tok : Bytes) (ns : Option (List Node)) (v : Bytes),
      LOp.msg env src m ∈ ops → m.mtype = .response (.getImmutable i tok ns v) →
      hashImmutable v = q.target.bytes → Value.immutable v ∈ lemits q ops := by
  induction ops with
  | nil => intro q env src m i tok ns v h; cases h
  | cons op ops ih =>
    intro q env src m i tok ns v hmem hm hh
    rcases List.mem_cons.1 hmem with h | h
    · subst h
      simp only [lemits, List.mem_append]
      left
      have hv : (lookupStep q env src m).2.1 = some (.immutable v) := by
        have ht := (C02.absorb_fields q env.now src m).1
        have : (queryValue env.verify (absorb q env.now src m) m.mtype).1 = some (.immutable v) := by
          rw [hm]; simp [queryValue, ht, hh]
        unfold lookupStep
        split
        · rename_i v' b heq; rw [heq] at this; simpa using this
        · rename_i b heq; rw [heq] at this; cases this
      rw [hv]; simp
    · simp only [lemits, List.mem_append]
      right
      exact ih (lstep q op) env src m i tok ns v h hm (by rw [lstep_target]; exact hh)

/-- **C01 for networks of up to 20 nodes**, on the lookup's history: in a loss-free honest network
    of at most 20 nodes, if a live node holding the value can be reached (through the servers'
    answers) from any address the lookup queried, the lookup queries it, and its answer hands the
    value to the reader's callers. -/
theorem small_network_value_found (U : Id → Addr → Prop) (hU : Honest U) (univ : List Id)
    (huniv : ∀ i a, U i a → i ∈ univ) (hsmall : univ.length ≤ Constants.K)
    (q0 : IterQuery) (h0 : CandOk U q0) (ops : List LOp) (hops : AllIn U (listed ops))
    (hcl : Closed (lrun q0 ops)) (answers : Addr → Option (List Node)) (hloss : LossFree answers q0 ops)
    (holder : Addr) (v : Bytes) (hhash : hashImmutable v = q0.target.bytes)
    (hreach : ∃ a ∈ (lrun q0 ops).visited, Reaches answers a holder)
    (hserves : holder ∈ (lrun q0 ops).visited →
      ∃ env m i tok ns, LOp.msg env holder m ∈ ops ∧ m.mtype = .response (.getImmutable i tok ns v)) :
    holder ∈ (lrun q0 ops).visited ∧ Value.immutable v ∈ lemits q0 ops := by
  obtain ⟨a, ha, hr⟩ := hreach
  have hq := small_network_reachable_queried U hU univ huniv hsmall q0 h0 ops hops hcl answers hloss a holder ha hr
  obtain ⟨env, m, i, tok, ns, hmem, hm⟩ := hserves hq
  exact ⟨hq, holder_answer_is_yielded ops q0 env holder m i tok ns v hmem hm hhash⟩


/-! #### the hypotheses are satisfiable (non-vacuity) -/

/-- a population of two nodes -/
def demoU (i : Id) (a : Addr) : Prop :=
  (i = ⟨List.replicate 20 1⟩ ∧ a = ⟨1, 6881⟩) ∨ (i = ⟨List.replicate 20 2⟩ ∧ a = ⟨2, 6881⟩)

example : Honest demoU := by
  refine ⟨?_, ?_, ?_, ?_⟩
  · rintro i a (⟨rfl, _⟩ | ⟨rfl, _⟩) <;> rfl
  · rintro i j a (⟨rfl, rfl⟩ | ⟨rfl, rfl⟩) (⟨rfl, h⟩ | ⟨rfl, h⟩) <;> first | rfl | (exfalso; revert h; decide)
  · rintro i a b (⟨rfl, rfl⟩ | ⟨rfl, rfl⟩) (⟨h, rfl⟩ | ⟨h, rfl⟩) <;> first | rfl | (exfalso; revert h; decide)
  · rintro i j a b (⟨rfl, rfl⟩ | ⟨rfl, rfl⟩) (⟨rfl, rfl⟩ | ⟨rfl, rfl⟩) h <;> first | rfl | (exfalso; revert h; decide)

/-- every fresh lookup on a 20-byte target meets `CandOk`, for every population -/
example (U : Id → Addr → Prop) (rid target : Id) (k : GetKind) (h : target.bytes.length = 20) :
    CandOk U (IterQuery.new rid target k) :=
  ⟨h, List.Pairwise.nil, fun _ he => by cases he⟩

/-- a closed, loss-free history exists: ask the first node, which lists the second; ask the second -/
example :
    let q0 := IterQuery.new ⟨List.replicate 20 9⟩ ⟨List.replicate 20 3⟩ .findNode
    let a : Actor := Actor.create { serverMode := false, bootstrap := [], publicIp := none } 1 0
    let env : Env := { now := 0, wall := 0, verify := fun _ _ _ => true }
    let n2 : Node := { id := ⟨List.replicate 20 2⟩, addr := ⟨2, 6881⟩ }
    let m1 : Message := { tid := 0, mtype := .response (.findNode ⟨List.replicate 20 1⟩ [n2]), version := none, requesterIp := none, readOnly := false }
    let m2 : Message := { tid := 1, mtype := .response (.findNode ⟨List.replicate 20 2⟩ []), version := none, requesterIp := none, readOnly := false }
    let ops := [LOp.visitAddrs a [⟨1, 6881⟩] 0, .msg env ⟨1, 6881⟩ m1, .visitClosest a 0, .msg env ⟨2, 6881⟩ m2, .visitClosest a 0]
    Closed (lrun q0 ops) ∧ (lrun q0 ops).visited = [⟨1, 6881⟩, ⟨2, 6881⟩] ∧ AllIn demoU (listed ops) := by
  refine ⟨?_, ?_, ?_⟩
  · rw [closed_iff]; decide +kernel
  · decide +kernel
  · intro e he
    have : e = { id := ⟨List.replicate 20 2⟩, addr := ⟨2, 6881⟩ } := by
      simp [listed, listedIn, Response.closerNodes] at he; exact he
    subst this
    exact Or.inr ⟨rfl, rfl⟩


/-! ## The actor applies exactly these operations to its lookups (refinement) -/

/-- every message of the history satisfies `D` (for one step: it is the delivered datagram) -/
def MsgsOk (D : Env → Message → Addr → Prop) (ops : List LOp) : Prop :=
  ∀ e s m, LOp.msg e s m ∈ ops → D e m s

/-- the lookup `create_iterative_query` builds: a fresh query seeded with known nodes -/
def seedQuery (rid t : Id) (k : GetKind) (seeds : List Node) : IterQuery :=
  seeds.foldl (fun q n => { q with closest := q.closest.add n }) (IterQuery.new rid t k)

/-- where a registered lookup comes from: an older registered lookup of the same target, through a
    history of operations; or a fresh seeded query, through a history of operations -/
def Desc (D : Env → Message → Addr → Prop) (old : List (Id × IterQuery)) (t : Id) (q' : IterQuery) : Prop :=
  (∃ q ops, (t, q) ∈ old ∧ q' = lrun q ops ∧ MsgsOk D ops) ∨
  (∃ rid k seeds ops, q' = lrun (seedQuery rid t k seeds) ops ∧ MsgsOk D ops)

def IterRel (D : Env → Message → Addr → Prop) (old new : List (Id × IterQuery)) : Prop :=
  ∀ t q', (t, q') ∈ new → Desc D old t q'

theorem lrun_append (q : IterQuery) (o1 o2 : List LOp) : lrun (lrun q o1) o2 = lrun q (o1 ++ o2) := by
  unfold lrun; rw [List.foldl_append]

theorem msgsOk_append (D : Env → Message → Addr → Prop) (o1 o2 : List LOp) (h1 : MsgsOk D o1) (h2 : MsgsOk D o2) :
    MsgsOk D (o1 ++ o2) := by
  intro e s m hm
  rcases List.mem_append.1 hm with h | h
  · exact h1 e s m h
  · exact h2 e s m h

theorem msgsOk_nil (D : Env → Message → Addr → Prop) : MsgsOk D [] := by intro e s m h; cases h

theorem IterRel.refl (D : Env → Message → Addr → Prop) (l : List (Id × IterQuery)) : IterRel D l l :=
  fun _ q' h => Or.inl ⟨q', [], h, rfl, msgsOk_nil D⟩

theorem IterRel.trans {D : Env → Message → Addr → Prop} {l1 l2 l3 : List (Id × IterQuery)}
    (h12 : IterRel D l1 l2) (h23 : IterRel D l2 l3) : IterRel D l1 l3 := by
  intro t q3 h3
  rcases h23 t q3 h3 with ⟨q2, ops2, hm2, rfl, ok2⟩ | hf
  · rcases h12 t q2 hm2 with ⟨q1, ops1, hm1, rfl, ok1⟩ | ⟨rid, k, seeds, ops1, rfl, ok1⟩
    · exact Or.inl ⟨q1, ops1 ++ ops2, hm1, lrun_append _ _ _, msgsOk_append D _ _ ok1 ok2⟩
    · exact Or.inr ⟨rid, k, seeds, ops1 ++ ops2, lrun_append _ _ _, msgsOk_append D _ _ ok1 ok2⟩
  · exact Or.inr hf

theorem IterRel.of_eq {D : Env → Message → Addr → Prop} {l1 l2 : List (Id × IterQuery)} (h : l2 = l1) : IterRel D l1 l2 := by
  rw [h]; exact IterRel.refl D l1

theorem IterRel.mono {D D' : Env → Message → Addr → Prop} {l1 l2 : List (Id × IterQuery)}
    (hD : ∀ e m s, D e m s → D' e m s) (h : IterRel D l1 l2) : IterRel D' l1 l2 := by
  intro t q' hq
  rcases h t q' hq with ⟨q, ops, hm, he, ok⟩ | ⟨rid, k, seeds, ops, he, ok⟩
  · exact Or.inl ⟨q, ops, hm, he, fun e s m h => hD _ _ _ (ok e s m h)⟩
  · exact Or.inr ⟨rid, k, seeds, ops, he, fun e s m h => hD _ _ _ (ok e s m h)⟩

/-- replacing the entry of `t` by a descendant of an entry of `t` -/
theorem IterRel.alSet_desc (D : Env → Message → Addr → Prop) (l : List (Id × IterQuery)) (t : Id) (q : IterQuery)
    (hq : (t, q) ∈ l) (ops : List LOp) (ok : MsgsOk D ops) : IterRel D l (alSet l t (lrun q ops)) := by
  intro t' q' h
  rcases mem_alSet l t _ _ h with heq | hm
  · injection heq with h1 h2
    subst h1; subst h2
    exact Or.inl ⟨q, ops, hq, rfl, ok⟩
  · exact IterRel.refl D l t' q' hm

theorem IterRel.alSet_fresh (D : Env → Message → Addr → Prop) (l : List (Id × IterQuery)) (t rid : Id) (k : GetKind)
    (seeds : List Node) (ops : List LOp) (ok : MsgsOk D ops) :
    IterRel D l (alSet l t (lrun (seedQuery rid t k seeds) ops)) := by
  intro t' q' h
  rcases mem_alSet l t _ _ h with heq | hm
  · injection heq with h1 h2
    subst h1; subst h2
    exact Or.inr ⟨rid, k, seeds, ops, rfl, ok⟩
  · exact IterRel.refl D l t' q' hm

theorem IterRel.alRemove (D : Env → Message → Addr → Prop) (l : List (Id × IterQuery)) (t : Id) :
    IterRel D l (alRemove l t) :=
  fun t' q' h => IterRel.refl D l t' q' (mem_alRemove l t _ h)



variable (D : Env → Message → Addr → Prop)

theorem evictIfFull_iter (c : Core) : (evictIfFull c).iter = c.iter := by
  unfold evictIfFull
  split
  · exact (decrementCached_fields _ _).2
  · rfl

theorem cacheQuery_iter (c : Core) (q : IterQuery) (nodes : List Node) : (cacheQuery c q nodes).iter = c.iter := by
  unfold cacheQuery
  split
  · exact evictIfFull_iter c
  · rw [(countEntry_fields _ _).2, (decrementCached_fields _ _).2]
    exact evictIfFull_iter c


/-! ### phase by phase -/


theorem seedQuery_append (rid t : Id) (k : GetKind) (s1 s2 : List Node) :
    s2.foldl (fun q n => { q with closest := q.closest.add n }) (seedQuery rid t k s1) = seedQuery rid t k (s1 ++ s2) := by
  unfold seedQuery; rw [List.foldl_append]

/-- what `create_iterative_query` returns when it creates a lookup: no lookup of the target was
    registered, the query is freshly seeded, and its closest candidates are among the addresses to
    visit -/
theorem createIter_some (c : Core) (k : GetKind) (t : Id) (extra : List Addr) (now : Nat)
    (q : IterQuery) (tv : List Addr) (h : (createIterativeQuery c k t extra now).2 = some (q, tv)) :
    alGet c.iter t = none ∧ (∃ seeds, q = seedQuery c.rt.id t k seeds) ∧ (∀ x ∈ q.closestCandidates, x ∈ tv) := by
  unfold createIterativeQuery at h
  split at h
  · cases h
  · rename_i hnone
    simp only at h
    injection h with h
    injection h with h htv
    refine ⟨?_, ?_, ?_⟩
    · cases hg : alGet c.iter t with
      | none => rfl
      | some x => rw [hg] at hnone; simp at hnone
    · rw [← h]
      split
      · rename_i ns _
        exact ⟨closestFromTables c k t ++ ns, (seedQuery_append _ _ _ _ _).symm ▸ rfl⟩
      · exact ⟨closestFromTables c k t, rfl⟩
    · intro x hx
      have key : ∀ (q0 : IterQuery) (b : Bool) (bs ex : List Addr), x ∈ q0.closestCandidates →
          x ∈ (if b = true then q0.closestCandidates ++ bs else q0.closestCandidates) ++ ex := by
        intro q0 b bs ex h0
        apply List.mem_append_left
        split
        · exact List.mem_append_left _ h0
        · exact h0
      subst h
      rw [← htv]
      exact key _ _ _ _ hx

/-- a relation between the lookup registry before and after, closed under what the actor does to
    the registry when it picks up an API message or does its maintenance: nothing, creations -/
structure CreateRel (R : List (Id × IterQuery) → List (Id × IterQuery) → Prop) : Prop where
  refl : ∀ l, R l l
  trans : ∀ l1 l2 l3, R l1 l2 → R l2 l3 → R l1 l3
  create : ∀ l t rid k seeds (b : Actor) tos now, alGet l t = none →
    (∀ x ∈ (seedQuery rid t k seeds).closestCandidates, x ∈ tos) →
    R l (alSet l t (b.visitAll (seedQuery rid t k seeds) tos now).2)

/-- … and under what it does outside `handle_response` and `visit_closest` altogether: removals too -/
structure LateRel (R : List (Id × IterQuery) → List (Id × IterQuery) → Prop) : Prop extends CreateRel R where
  remove : ∀ l t, R l (alRemove l t)

section create
variable {R : List (Id × IterQuery) → List (Id × IterQuery) → Prop} (hR : CreateRel R)
include hR

theorem CreateRel.of_eq {l1 l2 : List (Id × IterQuery)} (h : l2 = l1) : R l1 l2 := by rw [h]; exact hR.refl l1

theorem startLookup_rel (a : Actor) (k : GetKind) (t : Id) (extra : List Addr) (now : Nat) :
    R a.core.iter (a.startLookup k t extra now).core.iter := by
  obtain ⟨_, _, _, c4, _, _⟩ := createIter_fields a.core k t extra now
  have hsome := createIter_some a.core k t extra now
  unfold startLookup
  split
  · rename_i core q toVisit hm
    rw [hm] at c4 hsome
    simp only at c4 hsome
    obtain ⟨hnone, ⟨seeds, hq⟩, htv⟩ := hsome q toVisit rfl
    simp only
    rw [c4, hq]
    exact hR.create _ _ _ _ _ _ _ _ hnone (by rw [← hq]; exact htv)
  · rename_i core hm
    rw [hm] at c4
    simp only at c4 ⊢
    exact hR.of_eq c4

theorem get_rel (a : Actor) (k : GetKind) (t : Id) (extra : List Addr) (now : Nat) :
    R a.core.iter (a.get k t extra now).1.core.iter := by
  unfold Actor.get
  split
  · exact hR.refl _
  · exact startLookup_rel hR a k t extra now

theorem populate_rel (a : Actor) (now : Nat) : R a.core.iter (a.populate now).core.iter := by
  unfold populate
  split
  · exact hR.refl _
  · exact get_rel hR a _ _ _ now

theorem put_rel (a : Actor) (spec : PutSpec) (extra : List Node) (now : Nat) :
    R a.core.iter (a.put spec extra now).1.core.iter := by
  obtain ⟨k1, _⟩ := C06.checkConcurrency_spec a.core spec
  unfold Actor.put
  split
  · simp only; exact hR.of_eq k1
  · unfold putAfterCheck
    obtain ⟨_, _, _, g4, _⟩ := getCached_fields (checkConcurrency a.core spec).1 spec.target now
    split
    · rename_i closest _
      unfold putFromCache
      generalize hb : ({ a with core := (getCachedClosestNodes (checkConcurrency a.core spec).1 spec.target now).1 } : Actor) = b
      have hbi : b.core.iter = a.core.iter := by rw [← hb]; simp only; rw [g4, k1]
      obtain ⟨s1, _⟩ := startPut_core b (newPutEntry spec extra) closest now
      split
      · simp only; exact hR.of_eq (s1.trans hbi)
      · simp only [registerPut]; exact hR.of_eq (s1.trans hbi)
    · generalize hb : ({ a with core := (getCachedClosestNodes (checkConcurrency a.core spec).1 spec.target now).1 } : Actor) = b
      have hbi : b.core.iter = a.core.iter := by rw [← hb]; simp only; rw [g4, k1]
      have := get_rel hR b (GetKind.ofPut spec) spec.target [] now
      rw [hbi] at this
      simpa [registerPut] using this

theorem pickup_rel (a : Actor) (env : Env) (msg : Option ApiMsg) :
    R a.core.iter (a.pickup env msg).core.iter := by
  unfold pickup
  split
  · exact hR.refl _
  · exact hR.refl _
  · exact hR.refl _
  · rename_i c spec extra
    unfold pickupPut
    have := put_rel hR a spec extra env.now
    split
    · simpa [parkPutCaller] using this
    · simpa using this
  · rename_i kind target sender
    unfold pickupGet
    have := get_rel hR a kind target [] env.now
    simpa [parkGetCaller] using this

theorem maintenance_rel (a : Actor) (now : Nat) :
    R a.core.iter (a.maintenance now).core.iter := by
  unfold maintenance
  have h1 : R a.core.iter (a.bootstrapIfEmpty now).core.iter := by
    unfold bootstrapIfEmpty; split
    · exact populate_rel hR a now
    · exact hR.refl _
  have h2 : R (a.bootstrapIfEmpty now).core.iter ((a.bootstrapIfEmpty now).refreshTable now).core.iter := by
    generalize a.bootstrapIfEmpty now = b
    unfold refreshTable
    split
    · have := populate_rel hR (adaptiveSwitch { b with core := { b.core with lastRefresh := now } }) now
      have hi : (adaptiveSwitch { b with core := { b.core with lastRefresh := now } }).core.iter = b.core.iter := by
        unfold adaptiveSwitch; split <;> rfl
      rw [hi] at this
      exact this
    · exact hR.refl _
  have h12 := hR.trans _ _ _ h1 h2
  generalize (a.bootstrapIfEmpty now).refreshTable now = b at h12
  unfold pingTable
  split
  · have hfold : ∀ (l : List Addr) (x : Actor), (l.foldl (fun a addr => a.ping addr now) x).core = x.core := by
      intro l
      induction l with
      | nil => intro x; rfl
      | cons y ys ih => intro x; simp only [List.foldl_cons]; rw [ih]; rfl
    rw [hfold]
    exact h12
  · exact h12

end create

section late
variable {R : List (Id × IterQuery) → List (Id × IterQuery) → Prop} (hR : LateRel R)
include hR

theorem cleanupOneLookup_rel (acc : Core × Option Addr) (d : Id × List Node) :
    R acc.1.iter (cleanupOneLookup acc d).1.iter := by
  unfold cleanupOneLookup
  split
  · rename_i q _
    have h : (updateAddressVotes (cacheQuery { acc.1 with iter := alRemove acc.1.iter d.1 } q d.2) q).1.iter
        = alRemove acc.1.iter d.1 := by
      rw [(updateAddressVotes_fields _ _).1, cacheQuery_iter]
    split
    · simp only; rw [h]; exact hR.remove _ _
    · simp only; rw [h]; exact hR.remove _ _
  · exact hR.refl _

theorem cleanupDone_rel (c : Core) (di : List (Id × List Node)) (dp : List (Id × Option PutErr)) :
    R c.iter (cleanupDone c di dp).1.iter := by
  unfold cleanupDone
  have h1 : ∀ (l : List (Id × List Node)) (acc : Core × Option Addr),
      R acc.1.iter (l.foldl cleanupOneLookup acc).1.iter := by
    intro l
    induction l with
    | nil => intro acc; exact hR.refl _
    | cons d ds ih =>
      intro acc
      simp only [List.foldl_cons]
      exact hR.trans _ _ _ (cleanupOneLookup_rel hR acc d) (ih _)
  have h2 : ∀ (l : List (Id × Option PutErr)) (c' : Core), (l.foldl removePut c').iter = c'.iter := by
    intro l
    induction l with
    | nil => intro c'; rfl
    | cons d ds ih => intro c'; simp only [List.foldl_cons]; rw [ih]; rfl
  simp only
  rw [h2]
  exact h1 di (c, none)

/-- the second half of the tick, after `visit_closest` -/
theorem finishTick_rel (a4 : Actor) (now : Nat) (dp0 : List (Id × Option PutErr)) :
    R a4.core.iter (finishTick a4 now dp0).core.iter := by
  unfold finishTick
  generalize a4.doneLookups now = di
  obtain ⟨s1, _⟩ := startPuts_core a4 now di dp0
  generalize startPuts a4 now di dp0 = sp at s1
  have h6 := cleanupDone_rel hR sp.1.core di sp.2
  rw [s1] at h6
  generalize cleanupDone sp.1.core di sp.2 = cd at h6
  have hping : ∀ (b : Actor) (to : Option Addr), (b.pingOpt to now).core = b.core := by
    intro b to; unfold pingOpt; split <;> rfl
  have hrg : ∀ (b : Actor) (l : List (Id × List Node)), (b.releaseGetCallers l).core = b.core := by
    intro b l
    unfold releaseGetCallers
    induction l generalizing b with
    | nil => rfl
    | cons d ds ih =>
      simp only [List.foldl_cons]
      rw [ih]
      unfold releaseGetOne
      split <;> rfl
  have hrp : ∀ (b : Actor) (l : List (Id × Option PutErr)), (b.releasePutCallers l).core = b.core := by
    intro b l
    unfold releasePutCallers
    induction l generalizing b with
    | nil => rfl
    | cons d ds ih =>
      simp only [List.foldl_cons]
      rw [ih]
      unfold releasePutOne
      split <;> rfl
  rw [hrp, hrg, hping]
  exact h6

/-- everything that happens to the registry after `visit_closest` until the end of the step -/
theorem late_rel (a4 : Actor) (env : Env) (dp0 : List (Id × Option PutErr)) (msg : Option ApiMsg) :
    R a4.core.iter (((finishTick a4 env.now dp0).pickup env msg).maintenance env.now).core.iter :=
  hR.trans _ _ _ (hR.trans _ _ _ (finishTick_rel hR a4 env.now dp0) (pickup_rel hR.toCreateRel _ env msg)) (maintenance_rel hR.toCreateRel _ env.now)

end late

/-! #### the descendant relation through the phases -/

theorem iterRel_late : LateRel (IterRel D) :=
  ⟨⟨IterRel.refl D, fun _ _ _ h1 h2 => IterRel.trans h1 h2,
   fun l t rid k seeds b tos now _ _ => by
     have : (b.visitAll (seedQuery rid t k seeds) tos now).2
         = lrun (seedQuery rid t k seeds) [LOp.visitAddrs b tos now] := rfl
     rw [this]
     exact IterRel.alSet_fresh D l t rid k seeds _ (by intro e s m h; simp at h)⟩, IterRel.alRemove D⟩


theorem handleResponse_iter (c : Core) (env : Env) (src : Addr) (m : Message) (hD : D env m src) :
    IterRel D c.iter (handleResponse c env src m).1.iter := by
  unfold handleResponse
  split
  · exact IterRel.refl D _
  · split
    · exact IterRel.refl D _
    · split
      · rename_i target q hf
        have hmem : (target, q) ∈ c.iter := List.mem_of_find?_eq_some hf
        have hstep : (lookupStep q env src m).1 = lrun q [LOp.msg env src m] := rfl
        have hnew : IterRel D c.iter (alSet c.iter target (lookupStep q env src m).1) := by
          rw [hstep]
          apply IterRel.alSet_desc D c.iter target q hmem
          intro e s m' h
          simp only [List.mem_singleton] at h
          injection h with h1 h2 h3
          subst h1; subst h2; subst h3
          exact hD
        split
        · obtain ⟨r1, _⟩ := addResponder_cache { c with iter := alSet c.iter target (lookupStep q env src m).1 } env.now src m
          rw [r1]; exact hnew
        · exact hnew
      · split
        · obtain ⟨r1, _⟩ := addResponder_cache c env.now src m
          rw [r1]; exact IterRel.refl D _
        · exact IterRel.refl D _

theorem handleIncoming_iter (a : Actor) (env : Env) (handed : Option (Message × Addr))
    (hD : ∀ m s, handed = some (m, s) → D env m s) :
    IterRel D a.core.iter (a.handleIncoming env handed).1.core.iter := by
  unfold handleIncoming
  cases handed with
  | none => exact IterRel.refl D _
  | some p =>
    obtain ⟨m, src⟩ := p
    simp only
    cases hm : m.mtype with
    | request req =>
      simp only
      obtain ⟨r1, _⟩ := handleRequest_cache a.core env src m.readOnly m.version req
      unfold handleIncomingRequest
      split
      · have := populate_rel (iterRel_late D).toCreateRel (sendReply { a with core := (handleRequest a.core env src m.readOnly m.version req).1 } src m.tid
            (handleRequest a.core env src m.readOnly m.version req).2.1) env.now
        rw [sendReply_core] at this
        simp only at this
        rw [r1] at this
        exact this
      · rw [sendReply_core]; simp only; exact IterRel.of_eq r1
    | response r => exact handleResponse_iter D a.core env src m (hD m src rfl)
    | error e => exact handleResponse_iter D a.core env src m (hD m src rfl)

theorem recvPhase_handed (a : Actor) (now : Nat) (dgram : Option (Message × Addr)) (m : Message) (s : Addr)
    (h : (a.recvPhase now dgram).2 = some (m, s)) : dgram = some (m, s) := by
  unfold recvPhase at h
  cases dgram with
  | none => cases h
  | some p =>
    obtain ⟨m', s'⟩ := p
    simp only at h
    generalize (a.sock.decide _ m'.tid.toNat s' now).2 = up at h
    cases up with
    | true => simpa using h
    | false => simp at h

theorem preDone_iter (a : Actor) (env : Env) (dgram : Option (Message × Addr))
    (hD : ∀ m s, dgram = some (m, s) → D env m s) :
    IterRel D a.core.iter (a.preDone env dgram).core.iter := by
  unfold preDone
  have h1 : (a.recvPhase env.now dgram).1.core = a.core := by
    unfold recvPhase
    cases dgram with
    | none => rfl
    | some p => rfl
  have h2 := handleIncoming_iter D (a.recvPhase env.now dgram).1 env (a.recvPhase env.now dgram).2
    (fun m s h => hD m s (recvPhase_handed a env.now dgram m s h))
  have h3 : ∀ (b : Actor) (v : Option (Id × Value)), (b.forwardValue v).core = b.core := by
    intro b v
    unfold forwardValue
    split
    · split <;> rfl
    · rfl
  rw [h3]; rw [h1] at h2; exact h2


theorem visitClosest_iter (a : Actor) (t : Id) (now : Nat) :
    IterRel D a.core.iter (a.visitClosest t now).core.iter := by
  unfold visitClosest
  cases hg : alGet a.core.iter t with
  | none => exact IterRel.refl D _
  | some q =>
    simp only
    obtain ⟨hc, _⟩ := visitAll_core a q q.closestCandidates now
    rw [hc]
    have : (a.visitAll q q.closestCandidates now).2 = lrun q [LOp.visitClosest a now] := rfl
    rw [this]
    exact IterRel.alSet_desc D _ t q (mem_of_alGet a.core.iter t q hg) _ (by intro e s m h; simp at h)

theorem visitClosestAll_iter (a : Actor) (now : Nat) :
    IterRel D a.core.iter (a.visitClosestAll now).core.iter := by
  unfold visitClosestAll
  have : ∀ (l : List (Id × IterQuery)) (b : Actor),
      IterRel D b.core.iter (l.foldl (fun (a : Actor) (p : Id × IterQuery) => a.visitClosest p.1 now) b).core.iter := by
    intro l
    induction l with
    | nil => intro b; exact IterRel.refl D _
    | cons p ps ih =>
      intro b
      simp only [List.foldl_cons]
      exact IterRel.trans (visitClosest_iter D b p.1 now) (ih _)
  exact this _ a



/-- **Refinement, one iteration of the actor loop.** Every lookup registered after the step is a
    lookup that was registered before it (under the same target) advanced by a history of lookup
    operations whose messages are the delivered datagram, or a freshly seeded lookup advanced by
    such a history.  Nothing else ever happens to a registered lookup. -/
theorem step_iter (a : Actor) (env : Env) (dgram : Option (Message × Addr)) (msg : Option ApiMsg)
    (hD : ∀ m s, dgram = some (m, s) → D env m s) :
    IterRel D a.core.iter (a.step env dgram msg).core.iter := by
  unfold Actor.step afterRecv
  exact IterRel.trans (IterRel.trans (preDone_iter D a env dgram hD) (visitClosestAll_iter D _ env.now))
    (late_rel (iterRel_late D) _ env _ msg)

/-! ### every registered lookup is closed at the end of every step -/

/-- visiting a superset of the closest candidates closes the lookup -/
theorem visit_superset_closes (a : Actor) (q : IterQuery) (tos : List Addr) (now : Nat)
    (h : ∀ x ∈ q.closestCandidates, x ∈ tos) : Closed (a.visitAll q tos now).2 := by
  obtain ⟨hc, _, _, hnew, hold⟩ := visitAll_fields a q tos now
  intro n hn
  rw [hc] at hn
  by_cases hv : n.addr ∈ q.visited
  · exact hold _ hv
  · apply hnew
    apply h
    unfold IterQuery.closestCandidates
    rw [List.mem_map]
    exact ⟨n, List.mem_filter.2 ⟨hn, by simpa using hv⟩, rfl⟩

/-- every lookup the registry shows afterwards was shown before, or is closed -/
def AddsClosed (l l' : List (Id × IterQuery)) : Prop :=
  ∀ t q, alGet l' t = some q → alGet l t = some q ∨ Closed q

theorem addsClosed_late : LateRel AddsClosed := by
  refine ⟨⟨fun l t q h => Or.inl h, ?_, ?_⟩, ?_⟩
  · intro l1 l2 l3 h12 h23 t q h
    rcases h23 t q h with h2 | hc
    · exact h12 t q h2
    · exact Or.inr hc
  · intro l k rid kind seeds b tos now _ hsup t q h
    by_cases htk : t = k
    · subst htk
      rw [alGet_alSet_self] at h
      injection h with h
      rw [← h]
      exact Or.inr (visit_superset_closes b _ tos now hsup)
    · rw [alGet_alSet_other l k t _ htk] at h; exact Or.inl h
  · intro l k t q h
    by_cases htk : t = k
    · subst htk; rw [alGet_alRemove_self] at h; cases h
    · rw [alGet_alRemove_other l k t htk] at h; exact Or.inl h

def AllClosed (l : List (Id × IterQuery)) : Prop := ∀ t q, alGet l t = some q → Closed q

theorem visitClosest_keeps_closed (a : Actor) (t' : Id) (now : Nat) (t : Id)
    (h : ∀ q, alGet a.core.iter t = some q → Closed q) :
    ∀ q, alGet (a.visitClosest t' now).core.iter t = some q → Closed q := by
  unfold visitClosest
  cases hg : alGet a.core.iter t' with
  | none => exact h
  | some q0 =>
    simp only
    obtain ⟨hc, _⟩ := visitAll_core a q0 q0.closestCandidates now
    rw [hc]
    intro q hq
    by_cases htt : t = t'
    · subst htt
      rw [alGet_alSet_self] at hq
      injection hq with hq
      rw [← hq]
      exact visit_closest_closes a q0 now
    · rw [alGet_alSet_other _ _ _ _ htt] at hq
      exact h q hq

theorem visitClosest_closes_own (a : Actor) (t : Id) (now : Nat) :
    ∀ q, alGet (a.visitClosest t now).core.iter t = some q → Closed q := by
  unfold visitClosest
  cases hg : alGet a.core.iter t with
  | none => intro q hq; simp only at hq; rw [hg] at hq; cases hq
  | some q0 =>
    simp only
    obtain ⟨hc, _⟩ := visitAll_core a q0 q0.closestCandidates now
    rw [hc]
    intro q hq
    rw [alGet_alSet_self] at hq
    injection hq with hq
    rw [← hq]
    exact visit_closest_closes a q0 now

/-- after `visit_closest` ran for every registered lookup, every registered lookup is closed -/
theorem visitClosestAll_closed (a : Actor) (now : Nat) : AllClosed (a.visitClosestAll now).core.iter := by
  unfold visitClosestAll
  -- fold over any list of pairs: closed for the keys of the list, and closedness is kept
  have hfold : ∀ (l : List (Id × IterQuery)) (b : Actor) (t : Id),
      ((∀ q, alGet b.core.iter t = some q → Closed q) ∨ ∃ p ∈ l, p.1 = t) →
      ∀ q, alGet (l.foldl (fun (a : Actor) (p : Id × IterQuery) => a.visitClosest p.1 now) b).core.iter t = some q → Closed q := by
    intro l
    induction l with
    | nil =>
      intro b t h
      rcases h with h | ⟨p, hp, _⟩
      · exact h
      · cases hp
    | cons p ps ih =>
      intro b t h
      simp only [List.foldl_cons]
      apply ih
      rcases h with h | ⟨p', hp', hpt⟩
      · exact Or.inl (visitClosest_keeps_closed b p.1 now t h)
      · rcases List.mem_cons.1 hp' with rfl | hp'
        · left; rw [← hpt]; exact visitClosest_closes_own b p'.1 now
        · exact Or.inr ⟨p', hp', hpt⟩
  intro t q hq
  have hkeys := (C06.visitClosest_fold_frame a.core.iter a now).2.2.2 t
  have hk : hasKey a.core.iter t := hkeys.1 (by unfold hasKey; rw [hq]; rfl)
  -- the key is in the list that is folded over
  have hmem : ∃ p ∈ a.core.iter, p.1 = t := by
    unfold hasKey at hk
    cases hg : alGet a.core.iter t with
    | none => rw [hg] at hk; cases hk
    | some q0 => exact ⟨(t, q0), mem_of_alGet _ _ _ hg, rfl⟩
  exact hfold a.core.iter a t (Or.inr hmem) q hq

/-- **Closed at every step boundary.** After every iteration of the actor loop — whatever the
    state before, whatever datagram and API message — every registered lookup has queried each of
    its 20 closest candidates. -/
theorem step_closed (a : Actor) (env : Env) (dgram : Option (Message × Addr)) (msg : Option ApiMsg) :
    AllClosed (a.step env dgram msg).core.iter := by
  unfold Actor.step afterRecv
  intro t q hq
  have hlate := late_rel addsClosed_late ((a.preDone env dgram).visitClosestAll env.now) env
    ((a.preDone env dgram).checkDonePuts env.now) msg t q hq
  rcases hlate with h | h
  · exact visitClosestAll_closed _ env.now t q h
  · exact h


/-! ### every history of the actor -/


/-- `m` from `s` is one of the datagrams delivered during the run -/
def Delivered (ins : List StepIn) (e : Env) (m : Message) (s : Addr) : Prop :=
  ∃ i ∈ ins, i.env = e ∧ i.dgram = some (m, s)

/-- **Refinement, every run.** -/
theorem run_iter (ins : List StepIn) : ∀ a : Actor,
    IterRel (Delivered ins) a.core.iter (runSteps a ins).core.iter := by
  unfold runSteps
  induction ins with
  | nil => intro a; exact IterRel.refl _ _
  | cons i is ih =>
    intro a
    simp only [List.foldl_cons]
    have h1 : IterRel (Delivered (i :: is)) a.core.iter (a.step i.env i.dgram i.msg).core.iter :=
      step_iter (Delivered (i :: is)) a i.env i.dgram i.msg (fun m s h => ⟨i, List.mem_cons_self, rfl, h⟩)
    have h2 : IterRel (Delivered (i :: is)) (a.step i.env i.dgram i.msg).core.iter
        (List.foldl (fun a i => a.step i.env i.dgram i.msg) (a.step i.env i.dgram i.msg) is).core.iter :=
      IterRel.mono (fun e m s ⟨j, hj, h⟩ => ⟨j, List.mem_cons_of_mem _ hj, h⟩) (ih _)
    exact IterRel.trans h1 h2

theorem run_closed (ins : List StepIn) : ∀ a : Actor, AllClosed a.core.iter → AllClosed (runSteps a ins).core.iter := by
  unfold runSteps
  induction ins with
  | nil => intro a h; exact h
  | cons i is ih => intro a _; simp only [List.foldl_cons]; exact ih _ (step_closed a i.env i.dgram i.msg)

/-- a freshly created node: whatever it registered was created by the first maintenance -/
theorem create_iter (D : Env → Message → Addr → Prop) (cfg : NodeConfig) (seed : UInt64) (now : Nat) :
    IterRel D [] (Actor.create cfg seed now).core.iter ∧ AllClosed (Actor.create cfg seed now).core.iter := by
  unfold Actor.create
  simp only
  constructor
  · exact maintenance_rel (iterRel_late D).toCreateRel _ now
  · intro t q hq
    rcases maintenance_rel addsClosed_late.toCreateRel _ now t q hq with h | h
    · cases h
    · exact h

theorem seedQuery_closest (rid t : Id) (k : GetKind) (seeds : List Node) :
    (seedQuery rid t k seeds).closest = seeds.foldl ClosestNodes.add { target := t } := by
  unfold seedQuery
  have : ∀ (q : IterQuery), (seeds.foldl (fun q n => { q with closest := q.closest.add n }) q).closest
      = seeds.foldl ClosestNodes.add q.closest := by
    induction seeds with
    | nil => intro q; rfl
    | cons n ns ih => intro q; simp only [List.foldl_cons]; rw [ih]
  rw [this]; rfl

theorem seedQuery_candOk (U : Id → Addr → Prop) (rid t : Id) (k : GetKind) (seeds : List Node)
    (ht : t.bytes.length = 20) (hs : AllIn U seeds) : CandOk U (seedQuery rid t k seeds) := by
  have htgt : (seedQuery rid t k seeds).closest.target = t := by
    rw [seedQuery_closest]; exact C11.foldl_add_target t seeds _ rfl
  refine ⟨by rw [htgt]; exact ht, ?_, ?_⟩
  · rw [htgt, seedQuery_closest]; exact C11.accumulator_sorted_after_any_insertions t seeds
  · rw [seedQuery_closest]
    have : ∀ (l : List Node), AllIn U l → ∀ (c : ClosestNodes), AllIn U c.nodes →
        AllIn U (l.foldl ClosestNodes.add c).nodes := by
      intro l
      induction l with
      | nil => intro _ c hc; exact hc
      | cons n ns ih =>
        intro hl c hc
        simp only [List.foldl_cons]
        apply ih (fun e he => hl e (List.mem_cons_of_mem _ he))
        intro e he
        rcases ClosestNodes.mem_add c n e he with rfl | h
        · exact hl e List.mem_cons_self
        · exact hc e h
    exact this seeds hs _ (fun e he => by cases he)

/-- **C07 at the level of the node.**  Start any node, run it through any sequence of loop
    iterations — any datagrams, any API calls, any clock.  Every lookup registered at the end is a
    freshly seeded query advanced by lookup operations whose messages were datagrams delivered to
    the node; it is closed; and if its seeds and the nodes listed in those datagrams belong to an
    honest population, every listed node has been queried or stands behind 20 queried candidates
    that precede it in the lookup's order. -/
theorem node_lookup_closure (cfg : NodeConfig) (seed : UInt64) (t0 : Nat) (ins : List StepIn) (t : Id) (q : IterQuery)
    (h : alGet (runSteps (Actor.create cfg seed t0) ins).core.iter t = some q) :
    ∃ rid k seeds ops, q = lrun (seedQuery rid t k seeds) ops ∧ MsgsOk (Delivered ins) ops ∧ Closed q ∧
      ∀ U : Id → Addr → Prop, Honest U → t.bytes.length = 20 → AllIn U seeds → AllIn U (listed ops) →
        ∀ n ∈ listed ops, n.addr ∈ q.visited ∨
          ((q.closest.nodes.take Constants.K).length = Constants.K ∧
            ∀ y ∈ q.closest.nodes.take Constants.K, y.addr ∈ q.visited ∧ keyLt t y n) := by
  obtain ⟨hc1, hc2⟩ := create_iter (Delivered ins) cfg seed t0
  have hrel := IterRel.trans hc1 (run_iter ins (Actor.create cfg seed t0))
  have hclosed := run_closed ins _ hc2 t q h
  rcases hrel t q (mem_of_alGet _ _ _ h) with ⟨q0, _, hm, _, _⟩ | ⟨rid, k, seeds, ops, hq, hok⟩
  · cases hm
  · refine ⟨rid, k, seeds, ops, hq, hok, hclosed, ?_⟩
    intro U hU ht hseeds hlisted n hn
    have h0 := seedQuery_candOk U rid t k seeds ht hseeds
    have htgt : (seedQuery rid t k seeds).closest.target = t := by
      rw [seedQuery_closest]; exact C11.foldl_add_target t seeds _ rfl
    have := lookup_closure U hU (seedQuery rid t k seeds) h0 ops hlisted (by rw [← hq]; exact hclosed) n hn
    rw [← hq, htgt] at this
    exact this


end Mainline.Props.C07
