/-
  C07 — Iterative lookups are exhaustive (Kademlia closure).

  Model: `IterQuery` with `Actor.visit` / `visitAll` / `visitClosest` / `visitClosestAll`
  (`IterativeQuery::{visit, visit_closest, closest_candidates, is_done}`), `Actor.absorbNodes`
  (`handle_response` merging the nodes of every response) and `Actor.closestOfDone`.
  The candidate order (BEP42-secure first, then XOR distance, one insecure or eight secure nodes
  per IP) is the `ClosestNodes` accumulator of C11.
-/
import MainlineModel.Lemmas.ActorLemmas
import MainlineModel.Props.C11
import MainlineModel.Lemmas.SocketLemmas
namespace Mainline.Props.C07
open Mainline Mainline.Actor Mainline.ClosestNodes

/-- the lookup's closure property: each of its 20 closest candidates has been queried -/
def Closed (q : IterQuery) : Prop := ∀ n ∈ q.closest.nodes.take Constants.K, n.addr ∈ q.visited

theorem closed_iff (q : IterQuery) : Closed q ↔ q.closestCandidates = [] := by
  unfold Closed IterQuery.closestCandidates
  rw [List.map_eq_nil_iff, List.filter_eq_nil_iff]
  constructor
  · intro h n hn; simpa using h n hn
  · intro h n hn; simpa using h n hn

/-! ### visiting -/

theorem visit_fields (a : Actor) (q : IterQuery) (to : Addr) (now : Nat) :
    (a.visit q to now).2.closest = q.closest ∧ (a.visit q to now).2.target = q.target ∧
    (a.visit q to now).2.kind = q.kind ∧ (a.visit q to now).2.responders = q.responders ∧
    to ∈ (a.visit q to now).2.visited ∧ (∀ x ∈ q.visited, x ∈ (a.visit q to now).2.visited) := by
  refine ⟨rfl, rfl, rfl, rfl, ?_, ?_⟩
  · simp only [visit]
    split
    · rename_i h; simpa using h
    · simp
  · intro x hx
    simp only [visit]
    split
    · exact hx
    · exact List.mem_append_left _ hx

theorem visitAll_fields (a : Actor) (q : IterQuery) (tos : List Addr) (now : Nat) :
    (a.visitAll q tos now).2.closest = q.closest ∧ (a.visitAll q tos now).2.target = q.target ∧
    (a.visitAll q tos now).2.kind = q.kind ∧
    (∀ x ∈ tos, x ∈ (a.visitAll q tos now).2.visited) ∧
    (∀ x ∈ q.visited, x ∈ (a.visitAll q tos now).2.visited) := by
  unfold visitAll
  induction tos generalizing a q with
  | nil => exact ⟨rfl, rfl, rfl, by simp, fun x hx => hx⟩
  | cons t ts ih =>
    simp only [List.foldl_cons]
    obtain ⟨v1, v2, v3, _, v5, v6⟩ := visit_fields a q t now
    obtain ⟨i1, i2, i3, i4, i5⟩ := ih (a.visit q t now).1 (a.visit q t now).2
    refine ⟨i1.trans v1, i2.trans v2, i3.trans v3, ?_, fun x hx => i5 x (v6 x hx)⟩
    intro x hx
    rcases List.mem_cons.1 hx with rfl | hx
    · exact i5 _ v5
    · exact i4 x hx

/-- **Closure after every `visit_closest`.** Once a lookup has visited its closest candidates,
    every one of its 20 closest candidates has been queried. -/
theorem visit_closest_closes (a : Actor) (q : IterQuery) (now : Nat) :
    Closed (a.visitAll q q.closestCandidates now).2 := by
  obtain ⟨hc, _, _, hnew, hold⟩ := visitAll_fields a q q.closestCandidates now
  intro n hn
  rw [hc] at hn
  by_cases hv : n.addr ∈ q.visited
  · exact hold _ hv
  · apply hnew
    unfold IterQuery.closestCandidates
    rw [List.mem_map]
    exact ⟨n, List.mem_filter.2 ⟨hn, by simpa using hv⟩, rfl⟩

/-- **Never queried again.** `visit_closest` only addresses candidates that have not been visited;
    an address that has answered or timed out stays in `visited` for the lookup's lifetime. -/
theorem visit_closest_only_unvisited (q : IterQuery) : ∀ x ∈ q.closestCandidates, x ∉ q.visited := by
  intro x hx
  unfold IterQuery.closestCandidates at hx
  rw [List.mem_map] at hx
  obtain ⟨n, hn, rfl⟩ := hx
  have := (List.mem_filter.1 hn).2
  simpa using this

/-- each `visit` sends exactly one request, to that address, with the lookup's own request -/
theorem visit_sends_one (a : Actor) (q : IterQuery) (to : Addr) (now : Nat) :
    ∃ m, (a.visit q to now).1.out = a.out ++ [(to, m)] ∧ m.mtype = .request q.request := by
  exact ⟨_, rfl, rfl⟩

/-! ### a lookup is only reported done in a closed state -/

/-- a request that was just sent is in flight (any positive request timeout): so a lookup that still
    had an unvisited close candidate at `visit_closest` is not reported done in that tick -/
theorem fresh_request_in_flight (s : Inflight) (hinv : s.Inv) (hok : s.addOk) (to : Addr) (now : Nat)
    (ht : s.Timed now) (hpos : 0 < s.timeout) :
    (s.add to now).1.isInflight (s.add to now).2 now = true := by
  have hinv' := Inflight.inv_add s hinv hok to now ht
  have hmem : ({ tid := s.nextTid, to := to, sentAt := now } : InflightReq) ∈ (s.add to now).1.requests := by
    simp [Inflight.add]
  have hf := Inflight.find_of_mem _ hinv' _ hmem
  unfold Inflight.isInflight Inflight.get
  unfold Inflight.find at hf
  simp only [Inflight.add] at hf ⊢
  cases hfb : Inflight.findByTid
      { s with nextTid := (s.nextTid + 1) % two32,
               requests := s.requests ++ [{ tid := s.nextTid, to := to, sentAt := now }],
               cap := Inflight.grow s.requests.length s.cap } s.nextTid with
  | inr p => rw [hfb] at hf; cases hf
  | inl i =>
    rw [hfb] at hf
    simp only at hf ⊢
    rw [hf]
    simp [Inflight.live, hpos]

/-! ### what a finished lookup reports -/

/-- find_node reports the first 20 candidates, in candidate order -/
theorem find_node_reports_closest (c : Core) (q : IterQuery) (h : q.kind = .findNode) :
    closestOfDone c q = q.closest.nodes.take Constants.K := by
  simp [closestOfDone, h, GetKind.isFindNode]

/-- every other lookup reports (and a put writes to) a prefix of the responders — the nodes that
    answered with a token — in candidate order, at least 20 of them when there are that many -/
theorem get_reports_closest_responders (c : Core) (q : IterQuery) (h : q.kind.isFindNode = false) :
    ∃ k, closestOfDone c q = q.responders.nodes.take k ∧ min Constants.K q.responders.nodes.length ≤ k := by
  simp only [closestOfDone, h, Bool.false_eq_true, ite_false, ClosestNodes.takeSecure]
  obtain ⟨n, h1, _, h3⟩ := C11.takeUntilSecure_prefix q.responders
    (Stats.expectedDk (relevantStats c q.kind).respondersEstimate) (relevantStats c q.kind).averageSubnets
  exact ⟨n, h3, h1⟩

/-- the candidate lists stay sorted (secure first, then XOR distance) whatever is merged in -/
theorem candidates_stay_sorted (q : IterQuery) (ns : List Node) (now : Nat)
    (hs : q.closest.nodes.Pairwise (keyLt q.closest.target)) :
    (addCandidates q ns now).closest.nodes.Pairwise (keyLt q.closest.target) ∧
    (addCandidates q ns now).closest.target = q.closest.target := by
  unfold addCandidates
  induction ns generalizing q with
  | nil => exact ⟨hs, rfl⟩
  | cons n ns ih =>
    simp only [List.foldl_cons]
    have h1 := C11.add_preserves_sorted q.closest { n with lastSeen := now } hs
    have ht : (q.closest.add { n with lastSeen := now }).target = q.closest.target := add_target _ _
    obtain ⟨i1, i2⟩ := ih { q with closest := q.closest.add { n with lastSeen := now } } (by rw [ht]; exact h1)
    simp only at i1 i2
    rw [ht] at i1 i2
    exact ⟨i1, i2⟩

/-- every node listed in a response is offered to the candidate list (the per-IP rule of C11
    decides whether it enters) -/
theorem response_nodes_are_merged (q : IterQuery) (now : Nat) (m : Message) (r : Response) (ns : List Node)
    (hm : m.mtype = .response r) (hn : Response.closerNodes r = some ns) :
    absorbNodes q now m = addCandidates q ns now := by
  simp [absorbNodes, hm, hn]

end Mainline.Props.C07
