/-
  PutQuery.lean — mirrors `src/core/put_query.rs`: the store phase of a put.
-/
import MainlineModel.Model.Socket
namespace Mainline

inductive PutErr where
  | noClosestNodes | timeout | errorResponse (code : Int)
  | casFailed | notMostRecent | conflictRisk
  deriving DecidableEq, Repr

def PutErr.isConcurrency : PutErr → Bool
  | .casFailed | .notMostRecent | .conflictRisk => true
  | _ => false

structure PutQuery where
  /-- `matches!(request, PutRequestSpecific::PutMutable(_))` -/
  isMutable : Bool
  storedAt : Nat := 0
  /-- transaction ids of the requests sent by `start` -/
  inflight : List Nat := []
  /-- (count, error code), most frequent first -/
  errors : List (Nat × Int) := []
  extra : List Node := []
  deriving Repr

namespace PutQuery

def started (q : PutQuery) : Bool := !q.inflight.isEmpty

/-- the nodes `start` iterates over: the first `u8::MAX` closest nodes, then the extra nodes -/
def candidates (q : PutQuery) (closest : List Node) : List Node := closest.take Constants.PUT_TAKE_CLOSEST ++ q.extra

/-- the send loop of `start`: one request per token-bearing node, each with its own token -/
def sendLoop (sock : Inflight) (now : Nat) : List Node → List Nat → List (Addr × Bytes) →
    Inflight × List Nat × List (Addr × Bytes)
  | [], tids, sent => (sock, tids, sent)
  | n :: ns, tids, sent =>
    match n.token with
    | some tok =>
      let (sock', tid) := sock.add n.addr now
      sendLoop sock' now ns (tids ++ [tid]) (sent ++ [(n.addr, tok)])
    | none => sendLoop sock now ns tids sent

/-- `start`; the last component lists (address, token) of the datagrams sent -/
def start (q : PutQuery) (sock : Inflight) (closest : List Node) (now : Nat) :
    PutQuery × Inflight × Except PutErr Unit × List (Addr × Bytes) :=
  if q.started then (q, sock, .ok (), []) else
  if closest.isEmpty then (q, sock, .error .noClosestNodes, []) else
    let (sock', tids, sent) := sendLoop sock now (q.candidates closest) q.inflight []
    let q' := { q with inflight := tids }
    if tids.isEmpty then (q', sock', .error .noClosestNodes, sent) else (q', sock', .ok (), sent)

def isInflight (q : PutQuery) (tid : Nat) : Bool := q.inflight.contains tid

def success (q : PutQuery) : PutQuery := { q with storedAt := q.storedAt + 1 }

/-- the `while i > 0 && errors[i].0 > errors[i-1].0 { swap }` loop: `revPre` is the part before
    the updated entry, reversed -/
def bubble : List (Nat × Int) → (Nat × Int) → List (Nat × Int) → List (Nat × Int)
  | [], x, after => x :: after
  | p :: ps, x, after =>
    if x.1 > p.1 then bubble ps x (p :: after) else (p :: ps).reverse ++ x :: after

/-- `error`: count the code, keep the most frequent first -/
def error (q : PutQuery) (code : Int) : PutQuery :=
  match q.errors.findIdx? (fun e => code == e.2) with
  | some pos =>
    match q.errors[pos]? with
    | some e => { q with errors := bubble (q.errors.take pos).reverse (e.1 + 1, e.2) (q.errors.drop (pos + 1)) }
    | none => q
  | none => { q with errors := q.errors ++ [(1, code)] }

/-- `is_done`: started, and none of its requests is still in flight -/
def isDone (q : PutQuery) (sock : Inflight) (now : Nat) : Bool :=
  if q.inflight.isEmpty then false else !(q.inflight.any fun tid => sock.isInflight tid now)

/-- `most_common_error` -/
def mostCommonError (q : PutQuery) : Option (Nat × PutErr) :=
  if !q.isMutable then none else
    match q.errors.head? with
    | some (count, code) =>
      if code == 301 then some (count, .casFailed)
      else if code == 302 then some (count, .notMostRecent)
      else none
    | none => none

/-- `majority_nodes_rejected_put_mutable` -/
def majorityRejected (q : PutQuery) : Option PutErr :=
  let half := q.inflight.length / 2 + 1
  if q.isMutable then
    match q.mostCommonError with
    | some (count, e) => if count ≥ half then (if e.isConcurrency then some e else none) else none
    | none => none
  else none

/-- `check`: `.ok true` done successfully, `.ok false` still running, `.error e` failed -/
def check (q : PutQuery) (sock : Inflight) (now : Nat) : Except PutErr Bool :=
  if q.isDone sock now then
    if q.storedAt == 0 then
      match q.mostCommonError with
      | some (_, e) => .error e
      | none => .error .timeout
    else .ok true
  else
    match q.majorityRejected with
    | some e => .error e
    | none => .ok false

end PutQuery
end Mainline
