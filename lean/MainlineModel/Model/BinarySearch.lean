/-
  BinarySearch.lean — `core::slice::binary_search_by` as implemented in Rust 1.95's `core`
  (branch-free halving loop, no early exit on `Equal`).  Used by `ClosestNodes::add` and by the
  in-flight request table.
-/
namespace Mainline

/-- the `while size > 1` loop; `f i` is the comparator applied to element `i` -/
def bsLoop (f : Nat → Ordering) : (size base : Nat) → Nat
  | size, base =>
    if _h : size > 1 then
      let half := size / 2
      let mid := base + half
      let base' := if f mid == .gt then base else mid
      bsLoop f (size - half) base'
    else base
termination_by size => size
decreasing_by omega

/-- `Ok i` is `.inl i`, `Err i` is `.inr i` -/
def bsSearch (f : Nat → Ordering) (len : Nat) : Nat ⊕ Nat :=
  if len = 0 then .inr 0 else
    let base := bsLoop f len 0
    match f base with
    | .eq => .inl base
    | .lt => .inr (base + 1)
    | .gt => .inr base

/-- the comparator applied to element `i` (never evaluated out of range) -/
def probeAt {α} (cmp : α → Ordering) (l : List α) (i : Nat) : Ordering :=
  match l[i]? with
  | some x => cmp x
  | none => .gt

/-- binary search over a list with comparator `cmp` (applied to the probed element) -/
def binarySearchBy {α} (cmp : α → Ordering) (l : List α) : Nat ⊕ Nat :=
  bsSearch (probeAt cmp l) l.length

end Mainline
