/-
  Messages.lean — the typed KRPC messages of `src/common/messages.rs` (the public structs; the
  wire codec is `Model/Krpc.lean`).  `i64`/`u64`/`i32` fields are `Int`/`Nat` here; the codec
  states their ranges.
-/
import MainlineModel.Model.Node
namespace Mainline

inductive PutSpec where
  | announcePeer (infoHash : Id) (port : UInt16) (impliedPort : Option Bool)
  | announceSignedPeer (infoHash : Id) (t : Nat) (k : Bytes) (sig : Bytes)
  | putImmutable (target : Id) (v : Bytes)
  | putMutable (target : Id) (v : Bytes) (k : Bytes) (seq : Int) (sig : Bytes)
      (salt : Option Bytes) (cas : Option Int)
  deriving DecidableEq, Repr, Inhabited

def PutSpec.target : PutSpec → Id
  | .announcePeer ih _ _ => ih
  | .announceSignedPeer ih _ _ _ => ih
  | .putImmutable t _ => t
  | .putMutable t _ _ _ _ _ _ => t

inductive RequestType where
  | ping
  | findNode (target : Id)
  | getPeers (infoHash : Id)
  | getSignedPeers (infoHash : Id)
  | getValue (target : Id) (seq : Option Int) (salt : Option Bytes)
  | put (token : Bytes) (spec : PutSpec)
  deriving DecidableEq, Repr, Inhabited

structure Request where
  requesterId : Id
  rtype : RequestType
  deriving DecidableEq, Repr, Inhabited

/-- a signed-peer record on the wire: key, timestamp, signature -/
structure SignedPeer where
  k : Bytes
  t : Nat
  sig : Bytes
  deriving DecidableEq, Repr, Inhabited

inductive Response where
  | ping (id : Id)
  | findNode (id : Id) (nodes : List Node)
  | getPeers (id : Id) (token : Bytes) (values : List Addr) (nodes : Option (List Node))
  | getSignedPeers (id : Id) (token : Bytes) (peers : List SignedPeer) (nodes : Option (List Node))
  | getImmutable (id : Id) (token : Bytes) (nodes : Option (List Node)) (v : Bytes)
  | getMutable (id : Id) (token : Bytes) (nodes : Option (List Node)) (v : Bytes) (k : Bytes)
      (seq : Int) (sig : Bytes)
  | noValues (id : Id) (token : Bytes) (nodes : Option (List Node))
  | noMoreRecentValue (id : Id) (token : Bytes) (nodes : Option (List Node)) (seq : Int)
  deriving DecidableEq, Repr, Inhabited

structure ErrorSpec where
  code : Int
  description : Bytes
  deriving DecidableEq, Repr, Inhabited

inductive MessageType where
  | request (r : Request)
  | response (r : Response)
  | error (e : ErrorSpec)
  deriving DecidableEq, Repr, Inhabited

structure Message where
  tid : UInt32
  version : Option Bytes
  requesterIp : Option Addr
  mtype : MessageType
  readOnly : Bool
  deriving DecidableEq, Repr, Inhabited

/-- what the server hands back to the socket layer -/
inductive Reply where
  | response (r : Response)
  | error (code : Int)
  deriving DecidableEq, Repr, Inhabited

end Mainline
