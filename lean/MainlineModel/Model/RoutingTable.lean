/-
  RoutingTable.lean — mirrors `src/common/routing_table.rs`.
  `buckets` is the `BTreeMap<u8, KBucket>` as an association list sorted by key.
-/
import MainlineModel.Model.Node
namespace Mainline

structure RoutingTable where
  id : Id
  buckets : List (Nat × List Node) := []
  deriving Repr, Inhabited

namespace RoutingTable

def bucket (rt : RoutingTable) (d : Nat) : Option (List Node) :=
  (rt.buckets.find? (fun b => b.1 == d)).map (·.2)

/-- `BTreeMap::insert`/`entry` keeping the keys sorted -/
def setBucketIn : List (Nat × List Node) → Nat → List Node → List (Nat × List Node)
  | [], d, ns => [(d, ns)]
  | (k, v) :: rest, d, ns =>
    if d < k then (d, ns) :: (k, v) :: rest
    else if d == k then (d, ns) :: rest
    else (k, v) :: setBucketIn rest d ns

def setBucket (rt : RoutingTable) (d : Nat) (ns : List Node) : RoutingTable :=
  { rt with buckets := setBucketIn rt.buckets d ns }

/-- all entries, in `buckets.values()` order -/
def entries (rt : RoutingTable) : List Node := rt.buckets.flatMap (·.2)

/-- the update condition of `KBucket::add` for an entry with the incoming id -/
def kbucketAccepts (existing incoming : Node) : Bool :=
  incoming.isSecure || (!existing.isSecure && existing.sameIp incoming)

/-- `KBucket::add` -/
def kbucketAdd (nodes : List Node) (incoming : Node) (now : Nat) : List Node × Bool :=
  match nodes.findIdx? (fun n => n.id == incoming.id) with
  | some index =>
    if kbucketAccepts (nodes.getD index default) incoming then
      (nodes.eraseIdx index ++ [incoming], true)
    else (nodes, false)
  | none =>
    if nodes.length < Constants.K then (nodes ++ [incoming], true)
    else if (nodes.getD 0 default).isStale now then (nodes.drop 1 ++ [incoming], true)
    else (nodes, false)

/-- the incoming node is already in the table under the same IP (so adding it is an update) -/
def isUpdate (rt : RoutingTable) (node : Node) : Bool :=
  match rt.bucket (rt.id.distance node.id) with
  | some b => b.any (fun e => e.id == node.id && e.sameIp node)
  | none => false

/-- `RoutingTable::add`; the incoming node's `lastSeen` is its creation instant -/
def add (rt : RoutingTable) (node : Node) (now : Nat) : RoutingTable × Bool :=
  if rt.id.distance node.id == 0 then (rt, false)
  else if !rt.isUpdate node && rt.buckets.any (fun b => node.alreadyExists b.2) then (rt, false)
  else
    (rt.setBucket (rt.id.distance node.id)
        (kbucketAdd ((rt.bucket (rt.id.distance node.id)).getD []) node now).1,
      (kbucketAdd ((rt.bucket (rt.id.distance node.id)).getD []) node now).2)

/-- `RoutingTable::remove` -/
def remove (rt : RoutingTable) (nodeId : Id) : RoutingTable :=
  match rt.bucket (rt.id.distance nodeId) with
  | some b => rt.setBucket (rt.id.distance nodeId) (b.filter (fun n => n.id != nodeId))
  | none => rt

/-- the hand-written `RoutingTableIterator`: bucket indices 1..=160 in order -/
def nodes (rt : RoutingTable) : List Node :=
  (List.range' 1 160).flatMap (fun d => (rt.bucket d).getD [])

def size (rt : RoutingTable) : Nat := rt.buckets.foldl (fun acc b => acc + b.2.length) 0

def isEmpty (rt : RoutingTable) : Bool := rt.buckets.all (fun b => b.2.isEmpty)

/-- `reset_id` -/
def resetId (rt : RoutingTable) (id : Id) (now : Nat) : RoutingTable :=
  rt.nodes.foldl (fun t n => (t.add n now).1) { rt with id := id, buckets := [] }

/-- `closest` -/
def closest (rt : RoutingTable) (target : Id) : List Node :=
  let c := rt.entries.foldl ClosestNodes.insert { target := target }
  c.nodes.take (min Constants.K c.nodes.length)

/-- `closest_secure`, with the table statistics' float outputs as inputs -/
def closestSecure (rt : RoutingTable) (target : Id) (expectedDk avgSubnets : Nat) : List Node :=
  let c := rt.nodes.foldl ClosestNodes.insert { target := target }
  c.takeUntilSecure expectedDk avgSubnets

/-- `to_bootstrap`: addresses of the non-stale entries -/
def toBootstrap (rt : RoutingTable) (now : Nat) : List Addr :=
  (rt.nodes.filter (fun n => !n.isStale now)).map (·.addr)

end RoutingTable
end Mainline
