/-
  Bencode.lean — bencode value trees, the canonical encoder, and a parser reproducing the
  leniencies of `serde_bencode` 0.2.4 as exercised by the repo (observed, then tied by the `codec`
  stream): unsorted and duplicate keys are syntactically fine, any value may be a key, integers go
  through Rust's `i64::from_str` (optional sign, leading zeros, `-0`), string lengths through
  `usize::from_str` (leading zeros), bytes after the top-level value are ignored.
-/
import MainlineModel.Model.Basic
namespace Mainline

inductive BVal where
  | int (i : Int)
  | bytes (b : Bytes)
  | list (l : List BVal)
  | dict (d : List (BVal × BVal))
  deriving Repr, Inhabited

namespace Bencode

def isDigit (b : UInt8) : Bool := 48 ≤ b.toNat && b.toNat ≤ 57

/-- value of a non-empty all-digit byte string -/
def digitsVal : Bytes → Option Nat
  | [] => none
  | bs => if bs.all isDigit then some (bs.foldl (fun acc b => acc * 10 + (b.toNat - 48)) 0) else none

/-- Rust `i64::from_str`: optional `+`/`-`, at least one digit, value in range -/
def parseI64 (s : Bytes) : Option Int :=
  match s with
  | 43 :: rest => (digitsVal rest).bind (fun n => if n ≤ 9223372036854775807 then some (Int.ofNat n) else none)
  | 45 :: rest => (digitsVal rest).bind (fun n => if n ≤ 9223372036854775808 then some (- Int.ofNat n) else none)
  | _ => (digitsVal s).bind (fun n => if n ≤ 9223372036854775807 then some (Int.ofNat n) else none)

/-- split at the first occurrence of `c` (not included in either part) -/
def splitAt? (c : UInt8) : Bytes → Option (Bytes × Bytes)
  | [] => none
  | b :: rest => if b == c then some ([], rest) else (splitAt? c rest).map (fun (a, r) => (b :: a, r))

/-- after `i`: everything up to the first `e` must parse as an `i64` -/
def parseIntBody (bs : Bytes) : Option (Int × Bytes) :=
  (splitAt? 101 bs).bind (fun (s, rest) => (parseI64 s).map (fun i => (i, rest)))

/-- a byte string starting at its length prefix (first byte already known to be a digit) -/
def parseBytes (bs : Bytes) : Option (Bytes × Bytes) :=
  (splitAt? 58 bs).bind (fun (s, rest) =>
    (digitsVal s).bind (fun n =>
      if n ≤ 18446744073709551615 ∧ n ≤ rest.length then some (rest.take n, rest.drop n) else none))

mutual
/-- one value; `fuel` bounds the recursion (2·length + 4 is always enough) -/
def parseVal : Nat → Bytes → Option (BVal × Bytes)
  | 0, _ => none
  | _ + 1, [] => none
  | fuel + 1, c :: rest =>
    if c == 105 then (parseIntBody rest).map (fun (i, r) => (.int i, r))
    else if isDigit c then (parseBytes (c :: rest)).map (fun (b, r) => (.bytes b, r))
    else if c == 108 then parseList fuel rest []
    else if c == 100 then parseDict fuel rest []
    else none
/-- list elements until `e` -/
def parseList : Nat → Bytes → List BVal → Option (BVal × Bytes)
  | 0, _, _ => none
  | _ + 1, [], _ => none
  | fuel + 1, c :: rest, acc =>
    if c == 101 then some (.list acc.reverse, rest)
    else match parseVal fuel (c :: rest) with
      | some (v, r) => parseList fuel r (v :: acc)
      | none => none
/-- key/value pairs until `e` -/
def parseDict : Nat → Bytes → List (BVal × BVal) → Option (BVal × Bytes)
  | 0, _, _ => none
  | _ + 1, [], _ => none
  | fuel + 1, c :: rest, acc =>
    if c == 101 then some (.dict acc.reverse, rest)
    else match parseVal fuel (c :: rest) with
      | some (k, r) =>
        (match parseVal fuel r with
         | some (v, r') => parseDict fuel r' ((k, v) :: acc)
         | none => none)
      | none => none
end

/-- parse the first value of the input; trailing bytes are ignored -/
def parse (bs : Bytes) : Option BVal := (parseVal (2 * bs.length + 4) bs).map (·.1)

/-! ### canonical encoder -/

def encInt (i : Int) : Bytes := [105] ++ intToAscii i ++ [101]
def encBytes (b : Bytes) : Bytes := natToAscii b.length ++ [58] ++ b

mutual
def encode : BVal → Bytes
  | .int i => encInt i
  | .bytes b => encBytes b
  | .list l => [108] ++ encodeList l ++ [101]
  | .dict d => [100] ++ encodeDict d ++ [101]
def encodeList : List BVal → Bytes
  | [] => []
  | x :: xs => encode x ++ encodeList xs
def encodeDict : List (BVal × BVal) → Bytes
  | [] => []
  | (k, v) :: r => encode k ++ encode v ++ encodeDict r
end

/-! ### UTF-8 validity (Rust `str::from_utf8`) -/

def isCont (b : UInt8) : Bool := 128 ≤ b.toNat && b.toNat ≤ 191

def validUtf8 : Bytes → Bool
  | [] => true
  | b0 :: rest =>
    if b0.toNat < 128 then validUtf8 rest
    else if 194 ≤ b0.toNat && b0.toNat ≤ 223 then
      match rest with
      | b1 :: r => isCont b1 && validUtf8 r
      | _ => false
    else if b0.toNat == 224 then
      match rest with
      | b1 :: b2 :: r => (160 ≤ b1.toNat && b1.toNat ≤ 191) && isCont b2 && validUtf8 r
      | _ => false
    else if (225 ≤ b0.toNat && b0.toNat ≤ 236) || b0.toNat == 238 || b0.toNat == 239 then
      match rest with
      | b1 :: b2 :: r => isCont b1 && isCont b2 && validUtf8 r
      | _ => false
    else if b0.toNat == 237 then
      match rest with
      | b1 :: b2 :: r => (128 ≤ b1.toNat && b1.toNat ≤ 159) && isCont b2 && validUtf8 r
      | _ => false
    else if b0.toNat == 240 then
      match rest with
      | b1 :: b2 :: b3 :: r => (144 ≤ b1.toNat && b1.toNat ≤ 191) && isCont b2 && isCont b3 && validUtf8 r
      | _ => false
    else if 241 ≤ b0.toNat && b0.toNat ≤ 243 then
      match rest with
      | b1 :: b2 :: b3 :: r => isCont b1 && isCont b2 && isCont b3 && validUtf8 r
      | _ => false
    else if b0.toNat == 244 then
      match rest with
      | b1 :: b2 :: b3 :: r => (128 ≤ b1.toNat && b1.toNat ≤ 143) && isCont b2 && isCont b3 && validUtf8 r
      | _ => false
    else false

end Bencode
end Mainline
