/-
  Node.lean — mirrors `src/common/node.rs` and `src/common/closest_nodes.rs`.
  Time is explicit: `lastSeen` and `now` are nanoseconds of the (virtual) monotonic clock.
-/
import MainlineModel.Model.Id
import MainlineModel.Model.BinarySearch
namespace Mainline

structure Addr where
  ip : UInt32
  port : UInt16
  deriving DecidableEq, Repr, Inhabited

structure Node where
  id : Id
  addr : Addr
  token : Option Bytes := none
  lastSeen : Nat := 0
  deriving DecidableEq, Repr, Inhabited

def secsToNs (s : Nat) : Nat := s * 1000000000

namespace Node

/-- `Instant::elapsed` (saturating) -/
def age (n : Node) (now : Nat) : Nat := now - n.lastSeen

/-- `is_stale`: last seen more than `STALE_TIME` ago -/
def isStale (n : Node) (now : Nat) : Bool := n.age now > secsToNs Constants.STALE_TIME_SECS

/-- `valid_token`: the node gave a token, `TOKEN_ROTATE_INTERVAL` ago or less -/
def validToken (n : Node) (now : Nat) : Bool := n.token.isSome && n.age now ≤ secsToNs Constants.TOKEN_ROTATE_SECS

/-- `should_ping` -/
def shouldPing (n : Node) (now : Nat) : Bool := n.age now > secsToNs Constants.MIN_PING_BACKOFF_SECS

def sameIp (a b : Node) : Bool := a.addr.ip == b.addr.ip

/-- `is_secure`: id valid for the node's IP (BEP42) -/
def isSecure (n : Node) : Bool := n.id.isValidForIp n.addr.ip

def prefix21 (n : Node) : Bytes := Id.first21 n.id.bytes

/-- `already_exists`: some existing node has the same IP and is either not secure or shares the
    21-bit id prefix -/
def alreadyExists (n : Node) (nodes : List Node) : Bool :=
  nodes.any fun e => n.sameIp e && (!e.isSecure || n.prefix21 == e.prefix21)

end Node

/-! ### ClosestNodes -/

structure ClosestNodes where
  target : Id
  nodes : List Node := []
  deriving Repr, Inhabited

namespace ClosestNodes

/-- the comparator closure of `ClosestNodes::add`, applied to the probed element -/
def cmpProbe (target : Id) (node probe : Node) : Ordering :=
  if probe.isSecure && !node.isSecure then .lt
  else if !probe.isSecure && node.isSecure then .gt
  else if probe.id == node.id then .eq
  else bytesCmp (probe.id.xor target).bytes (node.id.xor target).bytes

/-- `ClosestNodes::insert`: binary search, insert at the `Err` position, nothing on `Ok` -/
def insert (c : ClosestNodes) (node : Node) : ClosestNodes :=
  match binarySearchBy (cmpProbe c.target node) c.nodes with
  | .inr pos => { c with nodes := c.nodes.insertIdx pos node }
  | .inl _ => c

/-- `ClosestNodes::add` -/
def add (c : ClosestNodes) (node : Node) : ClosestNodes :=
  if node.alreadyExists c.nodes then c else c.insert node

/-- `distance(target, node)`: the first 16 bytes of the XOR as a big-endian `u128` -/
def distance128 (target : Id) (n : Node) : Nat := beToNat ((n.id.xor target).bytes.take 16)

/-- `subnet`: top 6 bits of the IPv4 address -/
def subnet (n : Node) : Nat := ((n.addr.ip >>> 26) &&& 0x3f).toNat

def insertSet (s : List Nat) (x : Nat) : List Nat := if s.contains x then s else x :: s

/-- the loop of `take_until_secure`: returns `until_secure` -/
def untilSecureLoop (target : Id) (expectedDk avgSubnets : Nat) :
    List Node → List Nat → Nat → Nat
  | [], _, acc => acc
  | n :: rest, subnets, acc =>
    let subnets := insertSet subnets (subnet n)
    if distance128 target n ≥ expectedDk ∧ subnets.length ≥ avgSubnets then acc
    else untilSecureLoop target expectedDk avgSubnets rest subnets (acc + 1)

/-- `take_until_secure`, with `expected_dk` (a float computation in the code) as an input -/
def takeUntilSecure (c : ClosestNodes) (expectedDk avgSubnets : Nat) : List Node :=
  let u := untilSecureLoop c.target expectedDk avgSubnets c.nodes [] 0
  c.nodes.take (min (max u Constants.K) c.nodes.length)

/-- `subnets_count` (a `u8`; at most 20 distinct values are counted) -/
def subnetsCount (c : ClosestNodes) : Nat :=
  if c.nodes.isEmpty then 20
  else ((c.nodes.take Constants.K).foldl (fun s n => insertSet s (subnet n)) []).length

end ClosestNodes
end Mainline
