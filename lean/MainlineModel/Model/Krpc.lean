/-
  Krpc.lean — the KRPC wire codec: `Message::to_bytes` / `Message::from_bytes`
  (`src/common/messages.rs`, `messages/internal.rs`, the serde derives and `serde_bencode`).

  `toBVal` mirrors `into_serde_message` + the derived `Serialize` impls (keys in sorted order, `None`
  omitted); `ofBVal` mirrors the derived `Deserialize` impls as observed on the real codec
  (DESIGN.md, Appendix A) + `from_serde_message`.  Slicing operations of the Rust code are explicit
  partial operations (`Outcome.panic`), so "decoding never panics" is a theorem, not a definition.
-/
import MainlineModel.Model.Bencode
import MainlineModel.Model.Messages
import MainlineModel.Gen.WireNames
namespace Mainline
namespace Krpc
open Bencode WireNames

def key (s : Bytes) : BVal := .bytes s

/-! ### encoding -/

def addrBytes (a : Addr) : Bytes := be32 a.ip ++ be16 a.port

/-- `nodes4_to_bytes`: 26 bytes per node, id ‖ ip ‖ port (big-endian) -/
def nodesBytes (ns : List Node) : Bytes := ns.flatMap (fun n => n.id.bytes ++ addrBytes n.addr)

/-- `signed_peer_to_bytes`: k ‖ t (big-endian u64) ‖ sig -/
def signedPeerBytes (p : SignedPeer) : Bytes := p.k ++ be64 (UInt64.ofNat p.t) ++ p.sig

/-- a `u64` timestamp cast `as i64` -/
def u64AsI64 (t : Nat) : Int :=
  if t % 18446744073709551616 < 9223372036854775808 then Int.ofNat (t % 18446744073709551616)
  else Int.ofNat (t % 18446744073709551616) - 18446744073709551616

/-- an `i64` cast `as u64` -/
def i64AsU64 (i : Int) : Nat := (i % 18446744073709551616).toNat

def optEntry (k : Bytes) : Option BVal → List (BVal × BVal)
  | some v => [(key k, v)]
  | none => []

def optNodes (ns : Option (List Node)) : List (BVal × BVal) :=
  optEntry n_nodes (ns.map (fun l => .bytes (nodesBytes l)))

/-- the `a` dictionary and the `q` name of a request -/
def requestArgs (r : Request) : Bytes × List (BVal × BVal) :=
  let id := (key n_id, BVal.bytes r.requesterId.bytes)
  match r.rtype with
  | .ping => (n_ping, [id])
  | .findNode t => (n_find_node, [id, (key n_target, .bytes t.bytes)])
  | .getPeers ih => (n_get_peers, [id, (key n_info_hash, .bytes ih.bytes)])
  | .getSignedPeers ih => (n_get_signed_peers, [id, (key n_info_hash, .bytes ih.bytes)])
  | .getValue t seq _ => (n_get, [id] ++ optEntry n_seq (seq.map .int) ++ [(key n_target, .bytes t.bytes)])
  | .put token (.announcePeer ih port implied) =>
    (n_announce_peer, [id, (key n_implied_port, .int (if implied == some true then 1 else 0)),
      (key n_info_hash, .bytes ih.bytes), (key n_port, .int port.toNat), (key n_token, .bytes token)])
  | .put token (.announceSignedPeer ih t k sig) =>
    (n_announce_signed_peer, [id, (key n_info_hash, .bytes ih.bytes), (key n_k, .bytes k),
      (key n_sig, .bytes sig), (key n_t, .int (u64AsI64 t)), (key n_token, .bytes token)])
  | .put token (.putImmutable t v) =>
    (n_put, [id, (key n_target, .bytes t.bytes), (key n_token, .bytes token), (key n_v, .bytes v)])
  | .put token (.putMutable t v k seq sig salt cas) =>
    (n_put, optEntry n_cas (cas.map .int) ++ [id, (key n_k, .bytes k)] ++ optEntry n_salt (salt.map .bytes) ++
      [(key n_seq, .int seq), (key n_sig, .bytes sig), (key n_target, .bytes t.bytes),
       (key n_token, .bytes token), (key n_v, .bytes v)])

/-- the `r` dictionary of a response -/
def responseArgs : Response → List (BVal × BVal)
  | .ping i => [(key n_id, .bytes i.bytes)]
  | .findNode i ns => [(key n_id, .bytes i.bytes), (key n_nodes, .bytes (nodesBytes ns))]
  | .getPeers i tok vals ns =>
    [(key n_id, .bytes i.bytes)] ++ optNodes ns ++
      [(key n_token, .bytes tok), (key n_values, .list (vals.map (fun a => .bytes (addrBytes a))))]
  | .getSignedPeers i tok ps ns =>
    [(key n_id, .bytes i.bytes)] ++ optNodes ns ++
      [(key n_peers, .list (ps.map (fun p => .bytes (signedPeerBytes p)))), (key n_token, .bytes tok)]
  | .getImmutable i tok ns v =>
    [(key n_id, .bytes i.bytes)] ++ optNodes ns ++ [(key n_token, .bytes tok), (key n_v, .bytes v)]
  | .getMutable i tok ns v k seq sig =>
    [(key n_id, .bytes i.bytes), (key n_k, .bytes k)] ++ optNodes ns ++
      [(key n_seq, .int seq), (key n_sig, .bytes sig), (key n_token, .bytes tok), (key n_v, .bytes v)]
  | .noValues i tok ns => [(key n_id, .bytes i.bytes)] ++ optNodes ns ++ [(key n_token, .bytes tok)]
  | .noMoreRecentValue i tok ns seq =>
    [(key n_id, .bytes i.bytes)] ++ optNodes ns ++ [(key n_seq, .int seq), (key n_token, .bytes tok)]

/-- the whole message as a dictionary with keys in sorted order -/
def toBVal (m : Message) : BVal :=
  let ip := optEntry n_ip (m.requesterIp.map (fun a => .bytes (addrBytes a)))
  let ro := [(key n_ro, BVal.int (if m.readOnly then 1 else 0))]
  let t := [(key n_t, BVal.bytes (be32 m.tid))]
  let v := optEntry n_v (m.version.map .bytes)
  match m.mtype with
  | .request r =>
    let (q, a) := requestArgs r
    .dict ([(key n_a, .dict a)] ++ ip ++ [(key n_q, key q)] ++ ro ++ t ++ v ++ [(key n_y, key n_q)])
  | .response r =>
    .dict (ip ++ [(key n_r, .dict (responseArgs r))] ++ ro ++ t ++ v ++ [(key n_y, key n_r)])
  | .error e =>
    .dict ([(key n_e, .list [.int e.code, .bytes e.description])] ++ ip ++ ro ++ t ++ v ++ [(key n_y, key n_e)])

/-- `Message::to_bytes` -/
def toBytes (m : Message) : Bytes := encode (toBVal m)

/-! ### decoding: serde-level extraction -/

/-- `serde_bytes` accepts a byte string or a list of integers 0..255 -/
def asBytes : BVal → Option Bytes
  | .bytes b => some b
  | .list l => l.mapM (fun x => match x with
      | .int i => if 0 ≤ i ∧ i ≤ 255 then some (UInt8.ofNat i.toNat) else none
      | _ => none)
  | _ => none

def keyIs : BVal → Bytes → Bool
  | .bytes b, n => b == n
  | _, _ => false

/-- a known field of a map: `none` on duplicates, `some none` when absent -/
def field (d : List (BVal × BVal)) (name : Bytes) : Option (Option BVal) :=
  match d.filter (fun p => keyIs p.1 name) with
  | [] => some none
  | [p] => some (some p.2)
  | _ => none

/-- keys of a buffered (nested) map must be byte strings to be identified as fields -/
def nestedKeysOk (d : List (BVal × BVal)) : Bool :=
  d.all (fun p => match p.1 with | .bytes _ => true | _ => false)

/-- keys of the top-level map are read as `str`: byte strings holding valid UTF-8 -/
def topKeysOk (d : List (BVal × BVal)) : Bool :=
  d.all (fun p => match p.1 with | .bytes b => validUtf8 b | _ => false)

def reqBytes (d : List (BVal × BVal)) (name : Bytes) : Option Bytes :=
  match field d name with
  | some (some v) => asBytes v
  | _ => none

def reqBytesN (d : List (BVal × BVal)) (name : Bytes) (n : Nat) : Option Bytes :=
  (reqBytes d name).bind (fun b => if b.length == n then some b else none)

def optBytes (d : List (BVal × BVal)) (name : Bytes) : Option (Option Bytes) :=
  match field d name with
  | some none => some none
  | some (some v) => (asBytes v).map some
  | none => none

def optBytesN (d : List (BVal × BVal)) (name : Bytes) (n : Nat) : Option (Option Bytes) :=
  (optBytes d name).bind (fun o => match o with
    | none => some none
    | some b => if b.length == n then some (some b) else none)

def asIntIn (lo hi : Int) : BVal → Option Int
  | .int i => if lo ≤ i ∧ i ≤ hi then some i else none
  | _ => none

def i64Min : Int := -9223372036854775808
def i64Max : Int := 9223372036854775807

def reqInt (d : List (BVal × BVal)) (name : Bytes) (lo hi : Int) : Option Int :=
  match field d name with
  | some (some v) => asIntIn lo hi v
  | _ => none

def optInt (d : List (BVal × BVal)) (name : Bytes) (lo hi : Int) : Option (Option Int) :=
  match field d name with
  | some none => some none
  | some (some v) => (asIntIn lo hi v).map some
  | none => none

/-- `Vec<ByteBuf>`: a list whose elements are byte-string-like -/
def reqBytesList (d : List (BVal × BVal)) (name : Bytes) : Option (List Bytes) :=
  match field d name with
  | some (some (.list l)) => l.mapM asBytes
  | _ => none

/-! ### decoding: the argument structs (`DHT…Arguments`) -/

/-- what `from_serde_message` receives for a request -/
inductive RawRequest where
  | ping (id : Bytes)
  | findNode (id target : Bytes)
  | getPeers (id ih : Bytes)
  | getSignedPeers (id ih : Bytes)
  | getValue (id target : Bytes) (seq : Option Int)
  | announcePeer (id ih : Bytes) (port : Int) (token : Bytes) (implied : Option Int)
  | announceSignedPeer (id ih token k sig : Bytes) (t : Int)
  | putValue (id target token v : Bytes) (k sig : Option Bytes) (seq cas : Option Int) (salt : Option Bytes)

def rawRequest (q : Bytes) (a : List (BVal × BVal)) : Option RawRequest :=
  if !nestedKeysOk a then none else
  if q == n_ping then (reqBytesN a n_id 20).map .ping
  else if q == n_find_node then do
    let id ← reqBytesN a n_id 20; let t ← reqBytesN a n_target 20; pure (.findNode id t)
  else if q == n_get_peers then do
    let id ← reqBytesN a n_id 20; let t ← reqBytesN a n_info_hash 20; pure (.getPeers id t)
  else if q == n_get_signed_peers then do
    let id ← reqBytesN a n_id 20; let t ← reqBytesN a n_info_hash 20; pure (.getSignedPeers id t)
  else if q == n_get then do
    let id ← reqBytesN a n_id 20; let t ← reqBytesN a n_target 20
    let seq ← optInt a n_seq i64Min i64Max; pure (.getValue id t seq)
  else if q == n_announce_peer then do
    let id ← reqBytesN a n_id 20; let ih ← reqBytesN a n_info_hash 20
    let port ← reqInt a n_port 0 65535; let token ← reqBytes a n_token
    let implied ← optInt a n_implied_port 0 255
    pure (.announcePeer id ih port token implied)
  else if q == n_announce_signed_peer then do
    let id ← reqBytesN a n_id 20; let ih ← reqBytesN a n_info_hash 20; let token ← reqBytes a n_token
    let k ← reqBytesN a n_k 32; let sig ← reqBytesN a n_sig 64; let t ← reqInt a n_t i64Min i64Max
    pure (.announceSignedPeer id ih token k sig t)
  else if q == n_put then do
    let id ← reqBytesN a n_id 20; let target ← reqBytesN a n_target 20; let token ← reqBytes a n_token
    let v ← reqBytes a n_v; let k ← optBytesN a n_k 32; let sig ← optBytesN a n_sig 64
    let seq ← optInt a n_seq i64Min i64Max; let cas ← optInt a n_cas i64Min i64Max
    let salt ← optBytes a n_salt
    pure (.putValue id target token v k sig seq cas salt)
  else none

/-- what `from_serde_message` receives for a response: the variant that matched and its fields -/
inductive RawResponse where
  | getMutable (id token : Bytes) (nodes : Option Bytes) (v k sig : Bytes) (seq : Int)
  | noMoreRecentValue (id token : Bytes) (nodes : Option Bytes) (seq : Int)
  | getImmutable (id token : Bytes) (nodes : Option Bytes) (v : Bytes)
  | getPeers (id token : Bytes) (nodes : Option Bytes) (values : List Bytes)
  | getSignedPeers (id token : Bytes) (nodes : Option Bytes) (peers : List Bytes)
  | noValues (id token : Bytes) (nodes : Option Bytes)
  | findNode (id nodes : Bytes)
  | ping (id : Bytes)

/-- one variant of the untagged enum `DHTResponseSpecific`, by its Rust name -/
def tryVariant (name : String) (r : List (BVal × BVal)) : Option RawResponse :=
  if name == "GetMutable" then do
    let id ← reqBytesN r n_id 20; let tok ← reqBytes r n_token; let ns ← optBytes r n_nodes
    let v ← reqBytes r n_v; let k ← reqBytesN r n_k 32; let sig ← reqBytesN r n_sig 64
    let seq ← reqInt r n_seq i64Min i64Max
    pure (.getMutable id tok ns v k sig seq)
  else if name == "NoMoreRecentValue" then do
    let id ← reqBytesN r n_id 20; let tok ← reqBytes r n_token; let ns ← optBytes r n_nodes
    let seq ← reqInt r n_seq i64Min i64Max
    pure (.noMoreRecentValue id tok ns seq)
  else if name == "GetImmutable" then do
    let id ← reqBytesN r n_id 20; let tok ← reqBytes r n_token; let ns ← optBytes r n_nodes
    let v ← reqBytes r n_v
    pure (.getImmutable id tok ns v)
  else if name == "GetPeers" then do
    let id ← reqBytesN r n_id 20; let tok ← reqBytes r n_token; let ns ← optBytes r n_nodes
    let vals ← reqBytesList r n_values
    pure (.getPeers id tok ns vals)
  else if name == "GetSignedPeers" then do
    let id ← reqBytesN r n_id 20; let tok ← reqBytes r n_token; let ns ← optBytes r n_nodes
    let ps ← reqBytesList r n_peers
    pure (.getSignedPeers id tok ns ps)
  else if name == "NoValues" then do
    let id ← reqBytesN r n_id 20; let tok ← reqBytes r n_token; let ns ← optBytes r n_nodes
    pure (.noValues id tok ns)
  else if name == "FindNode" then do
    let id ← reqBytesN r n_id 20; let ns ← reqBytes r n_nodes
    pure (.findNode id ns)
  else if name == "Ping" then (reqBytesN r n_id 20).map .ping
  else none

/-- untagged: the first variant (in source order, read by T1) that deserialises wins -/
def rawResponse (r : List (BVal × BVal)) : Option RawResponse :=
  if !nestedKeysOk r then none else
  Constants.RESPONSE_VARIANT_ORDER.findSome? (fun name => tryVariant name r)

/-! ### decoding: `from_serde_message` (slicing is partial: `Outcome.panic`) -/

/-- `&bytes[a..b]` -/
def slice (bs : Bytes) (a b : Nat) : Outcome Bytes :=
  if a ≤ b ∧ b ≤ bs.length then .ok ((bs.drop a).take (b - a)) else .panic "slice index out of range"

/-- `bytes_to_sockaddr`: 6 bytes → address, 18 → IPv6 unsupported, anything else → error -/
def bytesToSockaddr (bs : Bytes) : Outcome (Option Addr) :=
  if bs.length == 6 then
    (slice bs 0 4).bind (fun ip => (slice bs 4 6).bind (fun port =>
      .ok (some ⟨UInt32.ofNat (beToNat ip), UInt16.ofNat (beToNat port)⟩)))
  else .ok none

/-- `bytes_to_nodes4` -/
def bytesToNodesLoop (bs : Bytes) : Nat → Nat → Outcome (Option (List Node))
  | 0, _ => .ok (some [])
  | n + 1, i =>
    (slice bs i (i + 20)).bind (fun idb =>
      (slice bs (i + 20) (i + 26)).bind (fun ab =>
        (bytesToSockaddr ab).bind (fun oa =>
          match oa with
          | none => .ok none
          | some a =>
            (bytesToNodesLoop bs n (i + 26)).bind (fun rest =>
              .ok (rest.map (fun l => ({ id := ⟨idb⟩, addr := a } : Node) :: l))))))

def bytesToNodes (bs : Bytes) : Outcome (Option (List Node)) :=
  if bs.length % 26 != 0 then .ok none else bytesToNodesLoop bs (bs.length / 26) 0

def optNodesOf : Option Bytes → Outcome (Option (Option (List Node)))
  | none => .ok (some none)
  | some bs => (bytesToNodes bs).bind (fun o => .ok (o.map some))

/-- `bytes_to_signed_peer` (after the `fix:` commit: exactly 104 bytes) -/
def bytesToSignedPeer (bs : Bytes) : Outcome (Option SignedPeer) :=
  if bs.length != 104 then .ok none else
    (slice bs 0 32).bind (fun k => (slice bs 32 40).bind (fun t => (slice bs 40 104).bind (fun sig =>
      .ok (some ⟨k, beToNat t, sig⟩))))

/-- `collect::<Result<Vec<_>, _>>()` over a partial conversion -/
def mapAll {α β : Type} (f : α → Outcome (Option β)) : List α → Outcome (Option (List β))
  | [] => .ok (some [])
  | x :: xs => (f x).bind (fun o => match o with
    | none => .ok none
    | some y => (mapAll f xs).bind (fun r => .ok (r.map (y :: ·))))

def requestOfRaw : RawRequest → Option Request
  | .ping id => some ⟨⟨id⟩, .ping⟩
  | .findNode id t => some ⟨⟨id⟩, .findNode ⟨t⟩⟩
  | .getPeers id t => some ⟨⟨id⟩, .getPeers ⟨t⟩⟩
  | .getSignedPeers id t => some ⟨⟨id⟩, .getSignedPeers ⟨t⟩⟩
  | .getValue id t seq => some ⟨⟨id⟩, .getValue ⟨t⟩ seq none⟩
  | .announcePeer id ih port token implied =>
    some ⟨⟨id⟩, .put token (.announcePeer ⟨ih⟩ (UInt16.ofNat port.toNat) (implied.map (· != 0)))⟩
  | .announceSignedPeer id ih token k sig t =>
    some ⟨⟨id⟩, .put token (.announceSignedPeer ⟨ih⟩ (i64AsU64 t) k sig)⟩
  | .putValue id target token v k sig seq cas salt =>
    match k with
    | some k =>
      (match seq, sig with
       | some seq, some sig => some ⟨⟨id⟩, .put token (.putMutable ⟨target⟩ v k seq sig salt cas)⟩
       | _, _ => none)   -- after the `fix:` commit: a decode error instead of `expect`
    | none => some ⟨⟨id⟩, .put token (.putImmutable ⟨target⟩ v)⟩

def responseOfRaw : RawResponse → Outcome (Option Response)
  | .ping id => .ok (some (.ping ⟨id⟩))
  | .findNode id ns => (bytesToNodes ns).bind (fun o => .ok (o.map (fun l => .findNode ⟨id⟩ l)))
  | .getPeers id tok ns vals =>
    (optNodesOf ns).bind (fun on => match on with
      | none => .ok none
      | some n => (mapAll bytesToSockaddr vals).bind (fun ov => .ok (ov.map (fun v => .getPeers ⟨id⟩ tok v n))))
  | .getSignedPeers id tok ns ps =>
    (optNodesOf ns).bind (fun on => match on with
      | none => .ok none
      | some n => (mapAll bytesToSignedPeer ps).bind (fun op => .ok (op.map (fun p => .getSignedPeers ⟨id⟩ tok p n))))
  | .noValues id tok ns => (optNodesOf ns).bind (fun on => .ok (on.map (fun n => .noValues ⟨id⟩ tok n)))
  | .getImmutable id tok ns v => (optNodesOf ns).bind (fun on => .ok (on.map (fun n => .getImmutable ⟨id⟩ tok n v)))
  | .getMutable id tok ns v k sig seq =>
    (optNodesOf ns).bind (fun on => .ok (on.map (fun n => .getMutable ⟨id⟩ tok n v k seq sig)))
  | .noMoreRecentValue id tok ns seq =>
    (optNodesOf ns).bind (fun on => .ok (on.map (fun n => .noMoreRecentValue ⟨id⟩ tok n seq)))

/-- transaction id: 2 or 4 bytes, big-endian -/
def tidOf (bs : Bytes) : Option UInt32 :=
  if bs.length == 2 ∨ bs.length == 4 then some (UInt32.ofNat (beToNat bs)) else none

/-- the variant part of the message (`y` / `q` / `a` / `r` / `e`) -/
def variantOf (d : List (BVal × BVal)) : Outcome (Option MessageType) :=
  match field d n_y with
  | some (some (.bytes y)) =>
    if y == n_q then
      (match field d n_q, field d n_a with
       | some (some (.bytes q)), some (some (.dict a)) =>
         .ok (((rawRequest q a).bind requestOfRaw).map .request)
       | _, _ => .ok none)
    else if y == n_r then
      (match field d n_r with
       | some (some (.dict r)) =>
         (match rawResponse r with
          | some raw => (responseOfRaw raw).bind (fun o => .ok (o.map .response))
          | none => .ok none)
       | _ => .ok none)
    else if y == n_e then
      (match field d n_e with
       | some (some (.list [.int code, .bytes desc])) =>
         if -2147483648 ≤ code ∧ code ≤ 2147483647 ∧ validUtf8 desc then .ok (some (.error ⟨code, desc⟩))
         else .ok none
       | _ => .ok none)
    else .ok none
  | _ => .ok none

/-- `Message` from a parsed dictionary -/
def ofBVal : BVal → Outcome (Option Message)
  | .dict d =>
    if !topKeysOk d then .ok none else
    match reqBytes d n_t, optBytesN d n_v 4, optBytesN d n_ip 6, optInt d n_ro (-2147483648) 2147483647 with
    | some t, some v, some ip, some ro =>
      (match tidOf t with
       | none => .ok none
       | some tid =>
         (variantOf d).bind (fun ov => match ov with
           | none => .ok none
           | some mt =>
             (match ip with
              | none => .ok (some ⟨tid, v, none, mt, (ro.getD 0) > 0⟩)
              | some ipb => (bytesToSockaddr ipb).bind (fun oa => match oa with
                | none => .ok none
                | some a => .ok (some ⟨tid, v, some a, mt, (ro.getD 0) > 0⟩)))))
    | _, _, _, _ => .ok none
  | _ => .ok none

/-! ### the top-level dictionary is read straight from the byte stream

  The fields `v: Option<[u8; 4]>` and `ip: Option<[u8; 6]>` are deserialised directly from the
  stream by `serde_bytes`' fixed-size array visitor.  Given a bencode *list*, that visitor reads
  exactly N integer elements and returns **without consuming the list's terminating `e`**, which the
  map reader then takes for the end of the top-level dictionary (everything after it is ignored as
  trailing bytes).  The model reproduces this: it is observable (accept / reject) behaviour of
  `Message::from_bytes`. -/

/-- exactly `n` list elements, each an integer 0..255; the terminator is left in the input -/
def parseU8Elems : Nat → Nat → Bytes → Option (List BVal × Bytes)
  | _, 0, bs => some ([], bs)
  | fuel, n + 1, bs =>
    match parseVal fuel bs with
    | some (.int i, r) =>
      if 0 ≤ i ∧ i ≤ 255 then (parseU8Elems fuel n r).map (fun (l, r') => (.int i :: l, r')) else none
    | _ => none

def arrayFieldLen (k : BVal) : Option Nat :=
  if keyIs k (n_v) then some 4 else if keyIs k (n_ip) then some 6 else none

/-- entries of the top-level dictionary (input positioned after the leading `d`) -/
def parseTopEntries : Nat → Bytes → List (BVal × BVal) → Option (List (BVal × BVal))
  | 0, _, _ => none
  | _ + 1, [], _ => none
  | fuel + 1, c :: rest, acc =>
    if c == 101 then some acc.reverse
    else match parseVal (2 * (c :: rest).length + 4) (c :: rest) with
      | none => none
      | some (k, r) =>
        match arrayFieldLen k, r with
        | some n, 108 :: r' =>
          (match parseU8Elems (2 * r'.length + 4) n r' with
           | some (l, r'') => parseTopEntries fuel r'' ((k, .list l) :: acc)
           | none => none)
        | _, _ =>
          (match parseVal (2 * r.length + 4) r with
           | some (v, r') => parseTopEntries fuel r' ((k, v) :: acc)
           | none => none)

/-- `Message::from_bytes`: `ok (some m)` decoded, `ok none` a decode error, `panic` a Rust panic -/
def fromBytes (bs : Bytes) : Outcome (Option Message) :=
  if bs.length < 15 then .ok none
  else match bs with
    | 100 :: rest =>
      (match parseTopEntries (rest.length + 2) rest [] with
       | some d => ofBVal (.dict d)
       | none => .ok none)
    | _ => .ok none

/-- `KrpcSocket::recv_from`: the datagram is read into a buffer of `MTU` bytes — a longer one is cut
    there, as `UdpSocket::recv_from` does — and the bytes read are decoded -/
def recvDatagram (bs : Bytes) : Outcome (Option Message) := fromBytes (bs.take Constants.MTU)

end Krpc
end Mainline
