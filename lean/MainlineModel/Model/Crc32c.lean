/-
  Crc32c.lean — CRC-32C (Castagnoli, `CRC_32_ISCSI` of the `crc` crate):
  poly 0x1EDC6F41 reflected = 0x82F63B78, init 0xFFFFFFFF, refin/refout, xorout 0xFFFFFFFF.
  Bitwise (table-free) formulation; tied to the crate by the `hash` correspondence stream.
-/
import MainlineModel.Model.Basic
namespace Mainline

def crcPolyR : UInt32 := 0x82F63B78

def crcBitStep (c : UInt32) : UInt32 :=
  if c &&& 1 == 1 then (c >>> 1) ^^^ crcPolyR else c >>> 1

def crcByteStep (c : UInt32) (b : UInt8) : UInt32 :=
  let c := c ^^^ b.toUInt32
  crcBitStep (crcBitStep (crcBitStep (crcBitStep (crcBitStep (crcBitStep (crcBitStep (crcBitStep c)))))))

/-- `digest.update` folded over the bytes, from a given running state. -/
def crcUpdate (c : UInt32) (bs : Bytes) : UInt32 := bs.foldl crcByteStep c

def crc32c (bs : Bytes) : UInt32 := crcUpdate 0xFFFFFFFF bs ^^^ 0xFFFFFFFF

end Mainline
