/-
  Id.lean — mirrors `src/common/id.rs`: 160-bit ids as 20 bytes, XOR metric, parsing, Display,
  BEP42 secure ids.  `ID_SIZE`, `IPV4_MASK` come from the generated constants.
-/
import MainlineModel.Model.Basic
import MainlineModel.Model.Crc32c
import MainlineModel.Gen.Constants
namespace Mainline

structure Id where
  bytes : Bytes
  deriving DecidableEq, Repr, Inhabited

inductive DecodeIdError where
  | invalidIdSize (n : Nat)
  | oddNumberOfCharacters
  | invalidHexCharacter
  deriving DecidableEq, Repr

namespace Id

/-- `Id::from_bytes` -/
def fromBytes (bs : Bytes) : Except DecodeIdError Id :=
  if bs.length ≠ Constants.ID_SIZE then .error (.invalidIdSize bs.length) else .ok ⟨bs⟩

/-- `u8::leading_zeros` -/
def clz8 (b : UInt8) : Nat :=
  if b.toNat ≥ 128 then 0 else if b.toNat ≥ 64 then 1 else if b.toNat ≥ 32 then 2
  else if b.toNat ≥ 16 then 3 else if b.toNat ≥ 8 then 4 else if b.toNat ≥ 4 then 5
  else if b.toNat ≥ 2 then 6 else if b.toNat ≥ 1 then 7 else 8

/-- the loop of `Id::leading_zeros`, `i` = index of the head byte; the Rust code casts the
    result `as u8`, which is modelled by `% 256`. -/
def leadingZerosFrom : Nat → Bytes → Nat
  | _, [] => 160
  | i, b :: rest => if b ≠ 0 then (i * 8 + clz8 b) % 256 else leadingZerosFrom (i + 1) rest

def leadingZeros (a : Id) : Nat := leadingZerosFrom 0 a.bytes

/-- `Id::xor` -/
def xor (a b : Id) : Id := ⟨List.zipWith (· ^^^ ·) a.bytes b.bytes⟩

/-- `Id::distance`: `MAX_DISTANCE - leading_zeros` in `u8` arithmetic (truncated subtraction is
    exact because `leading_zeros ≤ 160`, see `Props/C19`). -/
def distance (a b : Id) : Nat := Constants.ID_SIZE * 8 - (a.xor b).leadingZeros

/-- derived `Ord` on `Id` -/
def cmp (a b : Id) : Ordering := bytesCmp a.bytes b.bytes

/-- `Display`, as ASCII bytes -/
def displayB (a : Id) : Bytes := bytesToHexB a.bytes

/-- `Display` -/
def display (a : Id) : String := bytesToHex a.bytes

/-- pairs of ASCII hex digits (the fixed `FromStr` loop over `chunks_exact(2)`) -/
def hexPairs : Bytes → Option Bytes
  | a :: b :: rest =>
    match hexVal a, hexVal b with
    | some x, some y => (hexPairs rest).map (UInt8.ofNat (x * 16 + y) :: ·)
    | _, _ => none
  | _ => some []

/-- `FromStr for Id`, on the UTF-8 bytes of the string -/
def fromStr (s : Bytes) : Except DecodeIdError Id :=
  if s.length % 2 ≠ 0 then .error .oddNumberOfCharacters
  else match hexPairs s with
    | none => .error .invalidHexCharacter
    | some bs => fromBytes bs

/-! ### BEP42 -/

def first21 (bs : Bytes) : Bytes :=
  [bs.getD 0 0, bs.getD 1 0, (bs.getD 2 0) &&& 0xf8]

/-- `id_prefix_ipv4` -/
def idPrefixIpv4 (ip : UInt32) (r : UInt8) : Bytes :=
  let masked : UInt32 := (ip &&& Constants.IPV4_MASK) ||| (r.toUInt32 <<< 29)
  (be32 (crc32c (be32 masked))).take 3

/-- `Ipv4Addr::is_private || is_link_local || is_loopback` -/
def ipExempt (ip : UInt32) : Bool :=
  let a := (ip >>> 24).toNat
  let b := ((ip >>> 16) &&& 0xff).toNat
  a == 10 || (a == 172 && 16 ≤ b && b ≤ 31) || (a == 192 && b == 168)
    || (a == 169 && b == 254) || a == 127

/-- `Id::is_valid_for_ip` -/
def isValidForIp (a : Id) (ip : UInt32) : Bool :=
  if ipExempt ip then true
  else first21 a.bytes == first21 (idPrefixIpv4 ip (a.bytes.getD (Constants.ID_SIZE - 1) 0))

/-- `from_ipv4_and_r` -/
def fromIpv4AndR (bytes : Bytes) (ip : UInt32) (r : UInt8) : Id :=
  let p := idPrefixIpv4 ip r
  let bytes := bytes.set 0 (p.getD 0 0)
  let bytes := bytes.set 1 (p.getD 1 0)
  let bytes := bytes.set 2 (((p.getD 2 0) &&& 0xf8) ||| ((bytes.getD 2 0) &&& 0x7))
  let bytes := bytes.set (Constants.ID_SIZE - 1) r
  ⟨bytes⟩

/-- `Id::from_ipv4` with the random source made explicit (21 bytes: r then the id body) -/
def fromIpv4 (rnd : Bytes) (ip : UInt32) : Id :=
  fromIpv4AndR (rnd.drop 1) ip (rnd.getD 0 0)

end Id
end Mainline
