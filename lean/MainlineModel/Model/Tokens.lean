/-
  Tokens.lean — mirrors `src/core/server/tokens.rs`: two 20-byte secrets rotated lazily, tokens are
  the big-endian CRC-32C of (IPv4 octets ‖ secret).  New secrets come from the explicit random
  stream (the H3 hook makes the code read the same stream).
-/
import MainlineModel.Model.Crc32c
import MainlineModel.Gen.Constants
namespace Mainline

structure Tokens where
  prevSecret : Bytes
  currSecret : Bytes
  lastUpdated : Nat   -- ns
  deriving Repr, Inhabited

namespace Tokens

/-- `Tokens::new`: `prev_secret` is drawn first, then `curr_secret` -/
def new (rng : UInt64) (now : Nat) : Tokens × UInt64 :=
  let (p, rng) := rngFill Constants.SECRET_SIZE rng
  let (c, rng) := rngFill Constants.SECRET_SIZE rng
  ({ prevSecret := p, currSecret := c, lastUpdated := now }, rng)

/-- `should_update`: `elapsed > TOKEN_ROTATE_INTERVAL` -/
def shouldUpdate (t : Tokens) (now : Nat) : Bool :=
  now - t.lastUpdated > Constants.TOKEN_ROTATE_SECS * 1000000000

/-- `rotate` -/
def rotate (t : Tokens) (rng : UInt64) (now : Nat) : Tokens × UInt64 :=
  let (c, rng) := rngFill Constants.SECRET_SIZE rng
  ({ prevSecret := t.currSecret, currSecret := c, lastUpdated := now }, rng)

/-- `internal_generate_token`: CRC-32C over the four IP octets followed by the secret -/
def tokenFor (ip : UInt32) (secret : Bytes) : Bytes := be32 (crc32c (be32 ip ++ secret))

def generate (t : Tokens) (ip : UInt32) : Bytes := tokenFor ip t.currSecret

/-- `validate`: equal to the token under the current or the previous secret -/
def validate (t : Tokens) (ip : UInt32) (token : Bytes) : Bool :=
  token == tokenFor ip t.currSecret || token == tokenFor ip t.prevSecret

end Tokens
end Mainline
