/-
  Basic.lean — byte strings, hex, the `Outcome` type (explicit Rust panics).

  Model files import nothing outside core/Std so that the driver links as a `lean_exe`.
-/
namespace Mainline

abbrev Byte := UInt8
abbrev Bytes := List UInt8

/-- Result of a model function mirroring Rust code that may panic.
    `panic site` names the Rust source location class that would have panicked. -/
inductive Outcome (α : Type) where
  | ok : α → Outcome α
  | panic : String → Outcome α
  deriving Repr, DecidableEq

namespace Outcome
def isPanic {α} : Outcome α → Bool
  | .panic _ => true
  | .ok _ => false

def map {α β} (f : α → β) : Outcome α → Outcome β
  | .ok a => .ok (f a)
  | .panic s => .panic s

def bind {α β} (o : Outcome α) (f : α → Outcome β) : Outcome β :=
  match o with
  | .ok a => f a
  | .panic s => .panic s
end Outcome

/-! ### Hex -/

/-- lower-case ASCII hex digit of a nibble, as a byte -/
def hexDigitB (n : Nat) : UInt8 :=
  if n < 10 then UInt8.ofNat (48 + n) else UInt8.ofNat (87 + n)

def byteToHexB (b : UInt8) : Bytes :=
  [hexDigitB (b.toNat / 16), hexDigitB (b.toNat % 16)]

/-- lower-case hex rendering as ASCII bytes (Rust `format!("{byte:02x}")` per byte) -/
def bytesToHexB (bs : Bytes) : Bytes := bs.flatMap byteToHexB

def bytesToHex (bs : Bytes) : String :=
  String.ofList ((bytesToHexB bs).map (fun b => Char.ofNat b.toNat))

/-- value of an ASCII hex digit given as a byte (both cases), `none` otherwise. -/
def hexVal (c : UInt8) : Option Nat :=
  if 48 ≤ c.toNat ∧ c.toNat ≤ 57 then some (c.toNat - 48)
  else if 97 ≤ c.toNat ∧ c.toNat ≤ 102 then some (c.toNat - 87)
  else if 65 ≤ c.toNat ∧ c.toNat ≤ 70 then some (c.toNat - 55)
  else none

def hexToBytesAux : List UInt8 → Option Bytes
  | [] => some []
  | [_] => none
  | a :: b :: rest =>
    match hexVal a, hexVal b, hexToBytesAux rest with
    | some x, some y, some r => some (UInt8.ofNat (x * 16 + y) :: r)
    | _, _, _ => none

/-- Strict hex decoder used by the driver's line protocol (not a model of repo code). -/
def hexToBytes (s : String) : Option Bytes :=
  hexToBytesAux s.toUTF8.toList

/-! ### Big-endian integers -/

def be32 (x : UInt32) : Bytes :=
  [(x >>> 24).toUInt8, (x >>> 16).toUInt8, (x >>> 8).toUInt8, x.toUInt8]

def be64 (x : UInt64) : Bytes :=
  [(x >>> 56).toUInt8, (x >>> 48).toUInt8, (x >>> 40).toUInt8, (x >>> 32).toUInt8,
   (x >>> 24).toUInt8, (x >>> 16).toUInt8, (x >>> 8).toUInt8, x.toUInt8]

def be16 (x : UInt16) : Bytes := [(x >>> 8).toUInt8, x.toUInt8]

/-- big-endian bytes to Nat -/
def beToNat (bs : Bytes) : Nat := bs.foldl (fun acc b => acc * 256 + b.toNat) 0

/-- decimal digits, most significant first; `fuel` bounds the number of digits -/
def natDigits : Nat → Nat → Bytes
  | 0, _ => []
  | fuel + 1, n => if n < 10 then [UInt8.ofNat (48 + n)] else natDigits fuel (n / 10) ++ [UInt8.ofNat (48 + n % 10)]

/-- ASCII decimal rendering of a natural number, as bytes (Rust `format!("{}", n)`); exact for
    `n < 10^40`, far beyond every length, `u64` and `i64` the code formats -/
def natToAscii (n : Nat) : Bytes := natDigits 40 n

/-- ASCII decimal rendering of an integer (Rust `format!("{}", i)` for `i64`) -/
def intToAscii (i : Int) : Bytes :=
  match i with
  | .ofNat n => natToAscii n
  | .negSucc n => 45 :: natToAscii (n + 1)

def strBytes (s : String) : Bytes := s.toUTF8.toList

/-! ### Lexicographic order on byte strings (Rust's derived `Ord` on `[u8; N]` / `&[u8]`) -/

def bytesCmp : Bytes → Bytes → Ordering
  | [], [] => .eq
  | [], _ :: _ => .lt
  | _ :: _, [] => .gt
  | a :: as, b :: bs =>
    if a < b then .lt else if b < a then .gt else bytesCmp as bs

def bytesLt (a b : Bytes) : Bool := bytesCmp a b == .lt

/-! ### Deterministic random stream (mirror of `verif::fill`: xorshift64, one step per byte) -/

def rngStep (s : UInt64) : UInt64 :=
  let s := s ^^^ (s <<< 13)
  let s := s ^^^ (s >>> 7)
  s ^^^ (s <<< 17)

def rngFill : Nat → UInt64 → Bytes × UInt64
  | 0, s => ([], s)
  | n + 1, s =>
    let s' := rngStep s
    let (rest, s'') := rngFill n s'
    ((s' >>> 24).toUInt8 :: rest, s'')

end Mainline
