/-
  Lru.lean — the `lru` crate's `LruCache` as used by the repo: an association list, most recently
  used first, with a capacity.  Tied to the crate by the `server` correspondence stream (stores
  with capacities 1..3 make every eviction observable).
-/
namespace Mainline

structure Lru (κ ν : Type) where
  cap : Nat
  items : List (κ × ν) := []
  deriving Repr

namespace Lru
variable {κ ν : Type} [DecidableEq κ]

def len (c : Lru κ ν) : Nat := c.items.length

def find? (c : Lru κ ν) (k : κ) : Option ν := (c.items.find? (fun p => p.1 == k)).map (·.2)

/-- `get` / `get_mut`: returns the value and promotes the entry to most-recently-used -/
def get (c : Lru κ ν) (k : κ) : Lru κ ν × Option ν :=
  match c.items.find? (fun p => p.1 == k) with
  | some p => ({ c with items := p :: c.items.filter (fun q => q.1 != k) }, some p.2)
  | none => (c, none)

/-- `put`: insert or update, promote; when full the least-recently-used entry is dropped -/
def put (c : Lru κ ν) (k : κ) (v : ν) : Lru κ ν :=
  if c.items.any (fun p => p.1 == k) then
    { c with items := (k, v) :: c.items.filter (fun q => q.1 != k) }
  else if c.items.length ≥ c.cap then
    { c with items := (k, v) :: c.items.dropLast }
  else { c with items := (k, v) :: c.items }

/-- `pop_lru` -/
def popLru (c : Lru κ ν) : Lru κ ν × Option (κ × ν) :=
  match c.items.getLast? with
  | some p => ({ c with items := c.items.dropLast }, some p)
  | none => (c, none)

/-- `iter()`: most recently used first -/
def iter (c : Lru κ ν) : List (κ × ν) := c.items

end Lru
end Mainline
