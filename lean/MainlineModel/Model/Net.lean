/-
  Net.lean — several nodes and the network between them.

  Two views:
  * `Net.apply`: the network as an adversary — any datagram may be handed to any node at any time
    (loss, duplication, reordering, delay, forgery are all just choices of ops).  Safety properties
    of single nodes lift to every node of every history (`Props/C01.lean`, `net_reachable_good`).
  * `Net.settle`: the honest, loss-free network — every datagram a node sends to the address of
    another node is delivered once, in order, after one latency step; used to *state* the
    completeness properties C01 and C13 (their proofs are partial, see the property files).
  The `mnet` correspondence stream runs real multi-node networks against exactly this composition
  (one `Actor` per node, datagrams routed by source/destination address).
-/
import MainlineModel.Model.Actor
namespace Mainline

structure Net where
  now : Nat
  nodes : List (Addr × Actor)

inductive NetOp where
  | deliver (to : Addr) (m : Message) (src : Addr)
  | idle (node : Addr)
  | api (node : Addr) (msg : ApiMsg)
  | advance (dt : Nat)

namespace Net

def env (n : Net) (verify : Verify) : Env :=
  { now := n.now, wall := 1700000000000000 + n.now / 1000, verify := verify }

def mapNode (n : Net) (a : Addr) (f : Actor → Actor) : Net :=
  { n with nodes := n.nodes.map fun p => if p.1 == a then (p.1, f p.2) else p }

/-- one op; each op that concerns a node is one iteration of that node's actor loop -/
def apply (verify : Verify) (n : Net) : NetOp → Net
  | .deliver to m src => n.mapNode to fun a => a.step (n.env verify) (some (m, src)) none
  | .idle node => n.mapNode node fun a => a.step (n.env verify) none none
  | .api node msg => n.mapNode node fun a => a.step (n.env verify) none (some msg)
  | .advance dt => { n with now := n.now + dt }

def run (verify : Verify) (n : Net) (ops : List NetOp) : Net := ops.foldl (apply verify) n

/-- take what every node has sent since the last collection: (source, destination, message) -/
def collect (n : Net) : Net × List (Addr × Addr × Message) :=
  ({ n with nodes := n.nodes.map fun p => (p.1, { p.2 with out := [] }) },
   n.nodes.flatMap fun p => p.2.out.map fun o => (p.1, o.1, o.2))

/-- one round of the honest network: deliver the datagrams of the previous round to the nodes
    they are addressed to (others vanish), give every node an idle iteration, let `dt` pass -/
def round (verify : Verify) (dt : Nat) (acc : Net × List (Addr × Addr × Message)) : Net × List (Addr × Addr × Message) :=
  let n1 := acc.2.foldl (fun n w => apply verify n (.deliver w.2.1 w.2.2 w.1)) acc.1
  let n2 := n1.nodes.foldl (fun n p => apply verify n (.idle p.1)) n1
  let (n3, wire) := n2.collect
  ({ n3 with now := n3.now + dt }, wire)

/-- `k` rounds of the honest network -/
def settle (verify : Verify) (dt : Nat) : Nat → Net × List (Addr × Addr × Message) → Net × List (Addr × Addr × Message)
  | 0, acc => acc
  | k + 1, acc => settle verify dt k (round verify dt acc)

def node? (n : Net) (a : Addr) : Option Actor := (n.nodes.find? (·.1 == a)).map (·.2)

end Net
end Mainline
