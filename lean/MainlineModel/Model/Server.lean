/-
  Server.lean — mirrors `src/core/server.rs`, `server/peers.rs`, `server/signed_peers.rs`,
  `common/mutable.rs`, `common/immutable.rs`, `common/signed_announce.rs`.

  Parameters (never axioms): `verify` = Ed25519 verification (including the validity of the public
  key encoding), `allow` = the configured request filter.  `now` is the monotonic clock in ns,
  `wall` the system time in µs.  Random bytes come from the explicit stream `rng`.
-/
import MainlineModel.Model.Lru
import MainlineModel.Model.Tokens
import MainlineModel.Model.Sha1
import MainlineModel.Model.Messages
import MainlineModel.Model.RoutingTable
namespace Mainline

/-- `hash_immutable`: SHA-1 of the bencoded byte string `len ":" v` -/
def hashImmutable (v : Bytes) : Bytes := sha1 (natToAscii v.length ++ [58] ++ v)

/-- `MutableItem::target_from_key` -/
def targetFromKey (k : Bytes) (salt : Option Bytes) : Bytes := sha1 (k ++ salt.getD [])

/-- `mutable::encode_signable` -/
def encodeSignable (seq : Int) (v : Bytes) (salt : Option Bytes) : Bytes :=
  (match salt with
   | some s => strBytes "4:salt" ++ natToAscii s.length ++ [58] ++ s
   | none => []) ++
  strBytes "3:seqi" ++ intToAscii seq ++ strBytes "e1:v" ++ natToAscii v.length ++ [58] ++ v

/-- `signed_announce::encode_signable` -/
def encodeSignableAnnounce (infoHash : Id) (t : Nat) : Bytes := infoHash.bytes ++ be64 (UInt64.ofNat t)

structure StoredItem where
  key : Bytes
  seq : Int
  value : Bytes
  sig : Bytes
  salt : Option Bytes
  deriving DecidableEq, Repr, Inhabited

structure Server where
  tokens : Tokens
  peers : Lru Id (Lru Id Addr)
  signedPeers : Lru Id (Lru Bytes SignedPeer)
  maxPeers : Nat
  immutable : Lru Id Bytes
  mutable : Lru Id StoredItem
  rng : UInt64
  deriving Repr

abbrev Verify := Bytes → Bytes → Bytes → Bool        -- key, message, signature
abbrev Allow := Request → Addr → Bool

namespace Server

def nz (c dflt : Nat) : Nat := if c == 0 then dflt else c

/-- `Server::new` (capacity 0 falls back to the default, as `NonZeroUsize::new(..).unwrap_or`) -/
def new (maxInfoHashes maxPeers maxImm maxMut : Nat) (rng : UInt64) (now : Nat) : Server :=
  let (t, rng) := Tokens.new rng now
  { tokens := t
    peers := { cap := nz maxInfoHashes Constants.MAX_INFO_HASHES }
    signedPeers := { cap := nz maxInfoHashes Constants.MAX_INFO_HASHES }
    maxPeers := nz maxPeers Constants.MAX_PEERS
    immutable := { cap := nz maxImm Constants.MAX_VALUES }
    mutable := { cap := nz maxMut Constants.MAX_VALUES }
    rng := rng }

/-! ### peer sampling -/

/-- round-half-even of `a / b` -/
def roundHalfEven (a b : Nat) : Nat :=
  let q := a / b
  let r := a % b
  if 2 * r < b then q else if 2 * r > b then q + 1 else if q % 2 == 0 then q else q + 1

def findExp (s i : Nat) : Nat → Nat → Nat
  | 0, e => e
  | fuel + 1, e => if s * 2 ^ e ≥ i * 2 ^ 23 then e else findExp s i fuel (e + 1)

/-- `((slots as f32 / items as f32) * CHANCE_SCALE) as u32`, with `CHANCE_SCALE = 2^32`:
    single-precision division (round to nearest even, 24-bit significand), exact scaling by a
    power of two, saturating cast.  Exact for `0 < slots ≤ items < 2^24`. -/
def chanceU32 (slots items : Nat) : Nat :=
  if slots == 0 ∨ items == 0 then 0 else
  let e := findExp slots items 64 0
  let m := roundHalfEven (slots * 2 ^ e) items
  let v := if e ≤ 32 then m * 2 ^ (32 - e) else m / 2 ^ (e - 32)
  min v (2 ^ 32 - 1)

def leU32 (bs : Bytes) : Nat :=
  (bs.getD 0 0).toNat + 256 * ((bs.getD 1 0).toNat + 256 * ((bs.getD 2 0).toNat + 256 * (bs.getD 3 0).toNat))

/-- the sampling loop of `get_random_peers` -/
def sampleLoop {ν : Type} (targetSize total : Nat) (chunk : Bytes) :
    List ν → Nat → List ν → List ν
  | [], _, acc => acc.reverse
  | x :: rest, index, acc =>
    let chance := chanceU32 (targetSize - acc.length) (total - index)
    let r := leU32 (chunk.drop index)
    if r < chance then
      (if acc.length + 1 == targetSize then (x :: acc).reverse
       else sampleLoop targetSize total chunk rest (index + 1) (x :: acc))
    else sampleLoop targetSize total chunk rest (index + 1) acc

/-- `get_random_peers` on the inner LRU (already looked up): all when fewer than the target size,
    otherwise a random subset driven by `4 * len` random bytes -/
def randomSubset {ν : Type} (targetSize : Nat) (vals : List ν) (rng : UInt64) : List ν × UInt64 :=
  if vals.length < targetSize then (vals, rng)
  else
    let (chunk, rng) := rngFill (vals.length * 4) rng
    (sampleLoop targetSize vals.length chunk vals 0 [], rng)

/-! ### stores -/

def addPeer (s : Server) (ih : Id) (peerId : Id) (addr : Addr) : Server :=
  match s.peers.get ih with
  | (outer, some inner) =>
    -- `get_mut` promoted the info hash; the updated inner cache replaces the head entry
    { s with peers := { outer with items := (ih, inner.put peerId addr) :: outer.items.drop 1 } }
  | (_, none) =>
    { s with peers := s.peers.put ih (({ cap := s.maxPeers } : Lru Id Addr).put peerId addr) }

def addSignedPeer (s : Server) (ih : Id) (p : SignedPeer) : Server :=
  match s.signedPeers.get ih with
  | (outer, some inner) =>
    { s with signedPeers := { outer with items := (ih, inner.put p.k p) :: outer.items.drop 1 } }
  | (_, none) =>
    { s with signedPeers := s.signedPeers.put ih (({ cap := s.maxPeers } : Lru Bytes SignedPeer).put p.k p) }

/-! ### request handling -/

def tokenOk (s : Server) (src : Addr) (token : Bytes) : Bool := s.tokens.validate src.ip token

def getMutableResponse (rt : RoutingTable) (tok : Bytes) (target : Id) (seq : Option Int) :
    Option StoredItem → Response
  | some item =>
    (match seq with
     | some rs =>
       if item.seq ≤ rs then .noMoreRecentValue rt.id tok (some (rt.closest target)) item.seq
       else .getMutable rt.id tok (some (rt.closest target)) item.value item.key item.seq item.sig
     | none => .getMutable rt.id tok (some (rt.closest target)) item.value item.key item.seq item.sig)
  | none => .noValues rt.id tok (some (rt.closest target))

/-- `handle_get_mutable`: the lookup promotes the target's recency -/
def handleGetMutable (s : Server) (rt : RoutingTable) (src : Addr) (target : Id) (seq : Option Int) :
    Server × Response :=
  ({ s with mutable := (s.mutable.get target).1 },
    getMutableResponse rt (s.tokens.generate src.ip) target seq (s.mutable.get target).2)

def saltTooBig : Option Bytes → Bool
  | some sl => decide (sl.length > Constants.MAX_SALT_LEN)
  | none => false

def seqTooOld (prev : Option StoredItem) (seq : Int) : Bool :=
  match prev with
  | some p => decide (seq < p.seq)
  | none => false

def casBad (prev : Option StoredItem) (cas : Option Int) : Bool :=
  match prev, cas with
  | some p, some c => p.seq != c
  | _, _ => false

/-- the endpoint recorded by `announce_peer` -/
def announcedPeer (src : Addr) (port : UInt16) (implied : Option Bool) : Addr :=
  if implied == some true then src else ⟨src.ip, port⟩

def absDiff (a b : Nat) : Nat := if a ≥ b then a - b else b - a

/-- the part of a mutable put that consults the store (after the stateless checks passed):
    `LruCache::get` promotes the target, then cas / seq / signature, then `put` -/
def putMutableStore (s : Server) (verify : Verify) (rt : RoutingTable) (target : Id) (v k : Bytes)
    (seq : Int) (sig : Bytes) (salt : Option Bytes) (cas : Option Int) : Server × Reply :=
  if casBad (s.mutable.get target).2 cas then
    ({ s with mutable := (s.mutable.get target).1 }, .error 301)
  else if seqTooOld (s.mutable.get target).2 seq then
    ({ s with mutable := (s.mutable.get target).1 }, .error 302)
  else if !verify k (encodeSignable seq v salt) sig then
    ({ s with mutable := (s.mutable.get target).1 }, .error 206)
  else
    ({ s with mutable := (s.mutable.get target).1.put target ⟨k, seq, v, sig, salt⟩ },
      .response (.ping rt.id))

def handlePut (s : Server) (verify : Verify) (rt : RoutingTable) (src : Addr) (wall : Nat)
    (requesterId : Id) (token : Bytes) : PutSpec → Server × Reply
  | .announcePeer ih port implied =>
    if !s.tokenOk src token then (s, .error 203)
    else (s.addPeer ih requesterId (announcedPeer src port implied), .response (.ping rt.id))
  | .announceSignedPeer ih t k sig =>
    if !s.tokenOk src token then (s, .error 203)
    else if !verify k (encodeSignableAnnounce ih t) sig then (s, .error 203)
    else if absDiff wall t > Constants.MAX_TIMESTAMP_TOLERANCE_US then (s, .error 203)
    else (s.addSignedPeer ih ⟨k, t, sig⟩, .response (.ping rt.id))
  | .putImmutable target v =>
    if !s.tokenOk src token then (s, .error 203)
    else if v.length > Constants.MAX_VALUE_LEN then (s, .error 205)
    else if hashImmutable v != target.bytes then (s, .error 203)
    else ({ s with immutable := s.immutable.put target v }, .response (.ping rt.id))
  | .putMutable target v k seq sig salt cas =>
    if !s.tokenOk src token then (s, .error 203)
    else if v.length > Constants.MAX_VALUE_LEN then (s, .error 205)
    else if saltTooBig salt then (s, .error 207)
    else if target.bytes != targetFromKey k salt then (s, .error 203)
    else s.putMutableStore verify rt target v k seq sig salt cas

/-- `Server::handle_request` -/
def handleRequest (s : Server) (verify : Verify) (allow : Allow) (rt srt : RoutingTable)
    (src : Addr) (now wall : Nat) (req : Request) : Server × Option Reply :=
  if !allow req src then (s, none)
  else
    -- lazily rotate secrets before handling a request
    let s := if s.tokens.shouldUpdate now then
        let (t, rng) := s.tokens.rotate s.rng now
        { s with tokens := t, rng := rng }
      else s
    match req.rtype with
    | .ping => (s, some (.response (.ping rt.id)))
    | .findNode target =>
      let nodes := srt.closest target
      let nodes := if nodes.length < Constants.K then
          nodes ++ (rt.closest target).take (Constants.K - nodes.length) else nodes
      (s, some (.response (.findNode rt.id nodes)))
    | .getPeers ih =>
      let tok := s.tokens.generate src.ip
      (match s.peers.get ih with
       | (outer, some inner) =>
         let (vals, rng) := randomSubset Constants.PEERS_SAMPLE (inner.iter.map (·.2)) s.rng
         ({ s with peers := outer, rng := rng },
          some (.response (.getPeers rt.id tok vals (some (rt.closest ih)))))
       | (_, none) => (s, some (.response (.noValues rt.id tok (some (rt.closest ih))))))
    | .getSignedPeers ih =>
      let tok := s.tokens.generate src.ip
      (match s.signedPeers.get ih with
       | (outer, some inner) =>
         let (vals, rng) := randomSubset Constants.SIGNED_PEERS_SAMPLE (inner.iter.map (·.2)) s.rng
         ({ s with signedPeers := outer, rng := rng },
          some (.response (.getSignedPeers srt.id tok vals (some (srt.closest ih)))))
       | (_, none) => (s, some (.response (.noValues srt.id tok (some (srt.closest ih))))))
    | .getValue target seq _ =>
      (match seq with
       | some _ => let (s, r) := s.handleGetMutable rt src target seq; (s, some (.response r))
       | none =>
         match s.immutable.get target with
         | (im, some v) =>
           ({ s with immutable := im },
            some (.response (.getImmutable rt.id (s.tokens.generate src.ip) (some (rt.closest target)) v)))
         | (_, none) => let (s, r) := s.handleGetMutable rt src target seq; (s, some (.response r)))
    | .put token spec =>
      let (s, r) := s.handlePut verify rt src wall req.requesterId token spec
      (s, some r)

end Server
end Mainline
