/-
  F64.lean — the IEEE-754 binary64 conversions Rust's `as` casts perform, on top of Lean's native
  `Float` (whose `+ - * /` are the hardware operations, as in Rust).  Used only for the DHT size
  statistics; theorems treat these values as opaque.
-/
namespace Mainline.F64

/-- `n as f64` for an unsigned integer: round to nearest, ties to even -/
def ofNat (n : Nat) : Float :=
  if n == 0 then Float.ofBits 0 else
    let k := n.log2
    if k ≤ 52 then
      Float.ofBits (UInt64.ofNat (((k + 1023) <<< 52) ||| ((n <<< (52 - k)) - (1 <<< 52))))
    else
      let shift := k - 52
      let q := n >>> shift
      let r := n - (q <<< shift)
      let half := 1 <<< (shift - 1)
      let up := r > half || (r == half && q % 2 == 1)
      let q := if up then q + 1 else q
      let (q, k) := if q == (1 <<< 53) then (1 <<< 52, k + 1) else (q, k)
      if k + 1023 ≥ 2047 then Float.ofBits 0x7FF0000000000000
      else Float.ofBits (UInt64.ofNat (((k + 1023) <<< 52) ||| (q - (1 <<< 52))))

/-- `f as uN` (N = `bits`): truncate toward zero, saturate, NaN ↦ 0 -/
def toNat (f : Float) (bits : Nat) : Nat :=
  let b := f.toBits.toNat
  let sign := b >>> 63
  let exp := (b >>> 52) % 2048
  let mant := b % (1 <<< 52)
  let max := (1 <<< bits) - 1
  if exp == 2047 then (if mant != 0 then 0 else if sign == 1 then 0 else max)
  else if sign == 1 then 0
  else if exp == 0 then 0
  else
    let m := (1 <<< 52) + mant
    let v := if exp ≥ 1075 then m <<< (exp - 1075) else m >>> (1075 - exp)
    if v > max then max else v

/-- `Duration::as_secs_f64` of a duration given in ns -/
def asSecs (ns : Nat) : Float := ofNat (ns / 1000000000) + ofNat (ns % 1000000000) / ofNat 1000000000

/-- `Duration::from_secs_f64` (ns): exact value of the double times 10^9, rounded to nearest, ties to
    even; negative, NaN and infinite inputs (a panic in the code) give 0 -/
def fromSecs (f : Float) : Nat :=
  let b := f.toBits.toNat
  let sign := b >>> 63
  let exp := (b >>> 52) % 2048
  let mant := b % (1 <<< 52)
  if sign == 1 || exp == 2047 || exp == 0 then 0
  else
    let m := ((1 <<< 52) + mant) * 1000000000
    if exp ≥ 1075 then m <<< (exp - 1075)
    else
      let den := 1 <<< (1075 - exp)
      let q := m / den
      let r := m % den
      if 2 * r > den || (2 * r == den && q % 2 == 1) then q + 1 else q

/-- `u128::MAX as f64` = 2^128 -/
def two128 : Float := ofNat (2 ^ 128)

end Mainline.F64
