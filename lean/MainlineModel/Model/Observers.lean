/-
  Observers.lean — read-only API calls answered from the state at message pick-up
  (`ActorMessage::ToBootstrap`): no effect on the node, so they are functions of `Actor.observed`.
-/
import MainlineModel.Model.Actor
namespace Mainline
namespace Actor

/-- `Actor::to_bootstrap`: the addresses of the non-stale entries of both routing tables, as a set -/
def toBootstrap (a : Actor) (now : Nat) : List Addr :=
  (a.core.rt.toBootstrap now ++ a.core.srt.toBootstrap now).eraseDups

end Actor
end Mainline
