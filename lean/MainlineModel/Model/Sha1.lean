/-
  Sha1.lean — SHA-1 (FIPS 180-4) over byte lists, mirroring `sha1_smol::Sha1::digest().bytes()`.
  Tied to the crate by the `hash` correspondence stream.
-/
import MainlineModel.Model.Basic
namespace Mainline

def rotl32 (x : UInt32) (n : UInt32) : UInt32 := (x <<< n) ||| (x >>> (32 - n))

/-- message padding: 0x80, zeros, 64-bit big-endian bit length; result length multiple of 64 -/
def sha1Pad (msg : Bytes) : Bytes :=
  let l := msg.length
  let k := (119 - (l % 64)) % 64   -- number of zero bytes so that l + 1 + k ≡ 56 (mod 64)
  msg ++ [0x80] ++ List.replicate k 0 ++ be64 (UInt64.ofNat (l * 8))

def word32 (a b c d : UInt8) : UInt32 :=
  (a.toUInt32 <<< 24) ||| (b.toUInt32 <<< 16) ||| (c.toUInt32 <<< 8) ||| d.toUInt32

def bytesToWords : Bytes → List UInt32
  | a :: b :: c :: d :: rest => word32 a b c d :: bytesToWords rest
  | _ => []

/-- extend 16 words to 80 (schedule kept as an Array for O(1) indexing) -/
def sha1Schedule (w16 : List UInt32) : Array UInt32 :=
  (List.range 64).foldl (fun (w : Array UInt32) i =>
    let t := i + 16
    w.push (rotl32 (w[t-3]! ^^^ w[t-8]! ^^^ w[t-14]! ^^^ w[t-16]!) 1)) w16.toArray

structure Sha1State where
  h0 : UInt32
  h1 : UInt32
  h2 : UInt32
  h3 : UInt32
  h4 : UInt32

def sha1Init : Sha1State := ⟨0x67452301, 0xEFCDAB89, 0x98BADCFE, 0x10325476, 0xC3D2E1F0⟩

def sha1Round (t : Nat) (w : UInt32) (s : Sha1State) : Sha1State :=
  let (f, k) :=
    if t < 20 then ((s.h1 &&& s.h2) ||| ((~~~ s.h1) &&& s.h3), (0x5A827999 : UInt32))
    else if t < 40 then (s.h1 ^^^ s.h2 ^^^ s.h3, (0x6ED9EBA1 : UInt32))
    else if t < 60 then ((s.h1 &&& s.h2) ||| (s.h1 &&& s.h3) ||| (s.h2 &&& s.h3), (0x8F1BBCDC : UInt32))
    else (s.h1 ^^^ s.h2 ^^^ s.h3, (0xCA62C1D6 : UInt32))
  let temp := rotl32 s.h0 5 + f + s.h4 + k + w
  ⟨temp, s.h0, rotl32 s.h1 30, s.h2, s.h3⟩

def sha1Block (s : Sha1State) (block : List UInt32) : Sha1State :=
  let w := sha1Schedule block
  let r := (List.range 80).foldl (fun st t => sha1Round t w[t]! st) s
  ⟨s.h0 + r.h0, s.h1 + r.h1, s.h2 + r.h2, s.h3 + r.h3, s.h4 + r.h4⟩

def chunks16 : Nat → List UInt32 → List (List UInt32)
  | 0, _ => []
  | fuel + 1, ws => if ws.length < 16 then [] else ws.take 16 :: chunks16 fuel (ws.drop 16)

def sha1 (msg : Bytes) : Bytes :=
  let ws := bytesToWords (sha1Pad msg)
  let s := (chunks16 (ws.length / 16 + 1) ws).foldl sha1Block sha1Init
  be32 s.h0 ++ be32 s.h1 ++ be32 s.h2 ++ be32 s.h3 ++ be32 s.h4

end Mainline
