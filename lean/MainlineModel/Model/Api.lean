/-
  Api.lean — mirrors the pure part of the API facades `src/dht.rs` / `src/dht/async_dht.rs`:
  the fold of `get_mutable_most_recent` over the items a lookup yields (both flavours have the
  same body; both are exercised by the `api` stream).
-/
import MainlineModel.Model.Basic
namespace Mainline
namespace Api

/-- the part of a `MutableItem` the fold looks at -/
structure Item where
  seq : Int
  value : Bytes
  deriving DecidableEq, Repr, Inhabited

/-- `item.seq() > mr.seq || (item.seq() == mr.seq && item.value() > &mr.value)` -/
def newer (item mr : Item) : Bool :=
  decide (item.seq > mr.seq) || (decide (item.seq = mr.seq) && bytesCmp item.value mr.value == .gt)

/-- one iteration of the loop body -/
def mostRecentStep (acc : Option Item) (item : Item) : Option Item :=
  match acc with
  | some mr => if newer item mr then some item else some mr
  | none => some item

/-- `get_mutable_most_recent` over the items in arrival order -/
def mostRecent (items : List Item) : Option Item := items.foldl mostRecentStep none

end Api
end Mainline
