/-
  Socket.lean — mirrors the request/response correlation of `src/actor/socket.rs`:
  `InflightRequests` (add / get / remove / find_by_tid / cleanup), `compare_socket_addr`,
  `is_expected_response` and the accept/drop decision of `KrpcSocket::recv_from`.

  Not modelled: the adaptive round-trip estimator (`update_rtt_estimates`, f64 arithmetic).  The
  request timeout it yields is a field of the model state that the environment may change at
  any time; the correspondence check feeds the implementation's actual value.
  `Vec` capacity (it decides when `cleanup` runs) follows `RawVec::grow_amortized`.
-/
import MainlineModel.Model.Node
namespace Mainline

structure InflightReq where
  tid : Nat
  to : Addr
  sentAt : Nat
  deriving DecidableEq, Repr, Inhabited

structure Inflight where
  nextTid : Nat := 0
  requests : List InflightReq := []
  /-- `request_timeout()` in ns -/
  timeout : Nat := Constants.MIN_REQUEST_TIMEOUT_MS * 1000000
  /-- `requests.capacity()` -/
  cap : Nat := 0
  deriving DecidableEq, Repr, Inhabited

def two32 : Nat := 4294967296

/-- `u32::wrapping_sub` -/
def wsub (a b : Nat) : Nat := (a + two32 - b) % two32

namespace Inflight

/-- the comparator closure of `find_by_tid`, applied to the probed request -/
def tidProbe (base tid : Nat) (r : InflightReq) : Ordering := compare (wsub r.tid base) (wsub tid base)

/-- `find_by_tid`: binary search on transaction ids taken relative to the oldest request -/
def findByTid (s : Inflight) (tid : Nat) : Nat ⊕ Nat :=
  let base := match s.requests.head? with
    | some r => r.tid
    | none => tid
  binarySearchBy (tidProbe base tid) s.requests

def live (s : Inflight) (r : InflightReq) (now : Nat) : Bool := now - r.sentAt < s.timeout

/-- `get`: the request with that id, unless it expired -/
def get (s : Inflight) (tid now : Nat) : Option InflightReq :=
  match s.findByTid tid with
  | .inl i => match s.requests[i]? with
    | some r => if s.live r now then some r else none
    | none => none
  | .inr _ => none

/-- `KrpcSocket::inflight` -/
def isInflight (s : Inflight) (tid now : Nat) : Bool := (s.get tid now).isSome

/-- `Vec::push` growth (`RawVec::grow_amortized`, minimum non-zero capacity 4) -/
def grow (len cap : Nat) : Nat := if len < cap then cap else max (2 * cap) 4

/-- `add`: a new request with the next transaction id -/
def add (s : Inflight) (to : Addr) (now : Nat) : Inflight × Nat :=
  ({ s with nextTid := (s.nextTid + 1) % two32,
            requests := s.requests ++ [{ tid := s.nextTid, to := to, sentAt := now }],
            cap := grow s.requests.length s.cap }, s.nextTid)

/-- `remove` -/
def remove (s : Inflight) (tid : Nat) : Inflight × Option InflightReq :=
  match s.findByTid tid with
  | .inl i => ({ s with requests := s.requests.eraseIdx i }, s.requests[i]?)
  | .inr _ => (s, none)

/-- the comparator closure of `cleanup` -/
def expiryProbe (timeout now : Nat) (r : InflightReq) : Ordering := compare timeout (now - r.sentAt)

/-- the index `cleanup`'s binary search yields (`Ok(i)` and `Err(i)` alike) -/
def cleanupIdx (s : Inflight) (now : Nat) : Nat :=
  match binarySearchBy (expiryProbe s.timeout now) s.requests with
  | .inl i => i
  | .inr i => i

/-- `cleanup`: when the vector is full, drop the expired prefix -/
def cleanup (s : Inflight) (now : Nat) : Inflight :=
  if s.requests.length < s.cap then s else { s with requests := s.requests.drop (s.cleanupIdx now) }

end Inflight

/-- `compare_socket_addr`: equal, ignoring the ip when the request went to 0.0.0.0 -/
def compareAddr (a b : Addr) : Bool :=
  if a.port != b.port then false else if a.ip == 0 then true else a.ip == b.ip

/-- `find`: the request with that id, expired or not -/
def Inflight.find (s : Inflight) (tid : Nat) : Option InflightReq :=
  match s.findByTid tid with
  | .inl i => s.requests[i]?
  | .inr _ => none

/-- `is_expected_response`: only the addressed peer consumes the request; the message is handed
    up only if the request had not expired -/
def Inflight.isExpectedResponse (s : Inflight) (tid : Nat) (src : Addr) (now : Nat) : Inflight × Bool :=
  match s.find tid with
  | some r =>
    if !compareAddr r.to src then (s, false)
    else ((s.remove tid).1, (s.get tid now).isSome)
  | none => (s, false)

/-- what a received, well-formed datagram is -/
inductive Incoming where
  | request | response | error
  deriving DecidableEq, Repr

/-- the accept/drop decision of `recv_from` for a datagram that arrived and parsed -/
def Inflight.decide (s : Inflight) (kind : Incoming) (tid : Nat) (src : Addr) (now : Nat) : Inflight × Bool :=
  if src.port == 0 then (s, false) else
    match kind with
    | .request => (s, true)
    | _ => s.isExpectedResponse tid src now

/-- `recv_from` on a socket that does not block: `cleanup`, then the decision.  (An actor thread
    runs `cleanup` when it enters `recv_from` and decides when the datagram arrives — see
    `Actor.step`.) -/
def Inflight.recv (s : Inflight) (kind : Incoming) (tid : Nat) (src : Addr) (now : Nat) : Inflight × Bool :=
  (s.cleanup now).decide kind tid src now

end Mainline
