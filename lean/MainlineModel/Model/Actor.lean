/-
  Actor.lean — mirrors the node above the socket: `src/core/iterative_query.rs`, `src/core.rs`,
  `src/core/handle_request.rs`, `src/core/handle_response.rs`, `src/actor.rs` (`Actor` and the
  message loop of `run`).

  `HashMap`s are association lists; the order in which the code walks a `HashMap` of queries is
  not modelled (the correspondence stream never depends on it: transaction ids are not shown and
  outputs are sorted).  Signature verification is a parameter (`Verify`).
-/
import MainlineModel.Model.Server
import MainlineModel.Model.PutQuery
import MainlineModel.Model.F64
namespace Mainline

/-! ### assoc-list helpers (`HashMap`) -/

def alGet {α β} [BEq α] (l : List (α × β)) (k : α) : Option β := (l.find? (·.1 == k)).map (·.2)
def alRemove {α β} [BEq α] (l : List (α × β)) (k : α) : List (α × β) := l.filter (fun p => !(p.1 == k))
def alSet {α β} [BEq α] (l : List (α × β)) (k : α) (v : β) : List (α × β) :=
  if l.any (·.1 == k) then l.map (fun p => if p.1 == k then (k, v) else p) else l ++ [(k, v)]

/-! ### lookups -/

inductive GetKind where
  | findNode | getPeers | getSignedPeers
  | getValue (seq : Option Int) (salt : Option Bytes)
  deriving DecidableEq, Repr, Inhabited

def GetKind.request (k : GetKind) (target : Id) : RequestType :=
  match k with
  | .findNode => .findNode target
  | .getPeers => .getPeers target
  | .getSignedPeers => .getSignedPeers target
  | .getValue seq salt => .getValue target seq salt

/-- `GetRequestSpecific::from(&PutRequestSpecific)` -/
def GetKind.ofPut : PutSpec → GetKind
  | .putImmutable _ _ => .getValue none none
  | .putMutable _ _ _ _ _ salt _ => .getValue none salt
  | .announcePeer _ _ _ => .getPeers
  | .announceSignedPeer _ _ _ _ => .getSignedPeers

def GetKind.isFindNode : GetKind → Bool
  | .findNode => true
  | _ => false
def GetKind.isSigned : GetKind → Bool
  | .getSignedPeers => true
  | _ => false

structure MItem where
  target : Id
  key : Bytes
  value : Bytes
  seq : Int
  sig : Bytes
  salt : Option Bytes
  deriving DecidableEq, Repr, Inhabited

/-- `core::Response` -/
inductive Value where
  | peers (l : List Addr)
  | signedPeers (l : List SignedPeer)
  | immutable (v : Bytes)
  | mutable (i : MItem)
  deriving DecidableEq, Repr, Inhabited

structure IterQuery where
  requesterId : Id
  target : Id
  kind : GetKind
  closest : ClosestNodes
  responders : ClosestNodes
  inflight : List Nat := []
  visited : List Addr := []
  responses : List Value := []
  votes : List (Addr × Nat) := []
  deriving Repr, Inhabited

namespace IterQuery

def new (requesterId target : Id) (kind : GetKind) : IterQuery :=
  { requesterId, target, kind, closest := { target }, responders := { target } }

def request (q : IterQuery) : Request := { requesterId := q.requesterId, rtype := q.kind.request q.target }

def isInflight (q : IterQuery) (tid : Nat) : Bool := q.inflight.contains tid

/-- `closest_candidates`: the unvisited among the 20 closest candidates -/
def closestCandidates (q : IterQuery) : List Addr :=
  ((q.closest.nodes.take Constants.K).filter fun n => !q.visited.contains n.addr).map (·.addr)

/-- `best_address`: the address with the most votes (first one on ties, in insertion order) -/
def bestAddress (q : IterQuery) : Option Addr :=
  (q.votes.foldl (fun (acc : Nat × Option Addr) v => if v.2 > acc.1 then (v.2, some v.1) else acc) (0, none)).2

def addVote (q : IterQuery) (a : Addr) : IterQuery :=
  { q with votes := match alGet q.votes a with
      | some n => alSet q.votes a (n + 1)
      | none => q.votes ++ [(a, 1)] }

/-- the salt of the request (`GetValueRequestArguments::salt`), `none` for other lookups -/
def salt (q : IterQuery) : Option Bytes :=
  match q.kind with
  | .getValue _ salt => salt
  | _ => none

/-- `is_done`: none of its requests is still in flight in the socket -/
def isDone (q : IterQuery) (sock : Inflight) (now : Nat) : Bool :=
  !(q.inflight.any fun tid => sock.isInflight tid now)

end IterQuery

/-! ### DHT size statistics (`RoutingTable`'s counters; the sums are IEEE doubles as in the code) -/

structure Stats where
  estCount : Nat := 0
  estSum : Float := 0
  respCount : Nat := 0
  respSum : Float := 0
  subnetsSum : Nat := 0
  /-- a `usize` counter went below zero (panic with overflow checks, wrap without) -/
  underflow : Bool := false

namespace Stats

def dec (a b : Nat) : Nat × Bool := if a ≥ b then (a - b, false) else (0, true)

def incrementResponders (s : Stats) (est respEst : Float) (subnets : Nat) : Stats :=
  { s with estCount := s.estCount + 1, estSum := s.estSum + est, respCount := s.respCount + 1,
           respSum := s.respSum + respEst, subnetsSum := s.subnetsSum + subnets }

def incrementDhtSize (s : Stats) (est : Float) : Stats :=
  { s with estCount := s.estCount + 1, estSum := s.estSum + est }

def decrementDhtSize (s : Stats) (est : Float) : Stats :=
  let (c, u) := dec s.estCount 1
  { s with estCount := c, estSum := s.estSum - est, underflow := s.underflow || u }

def decrementResponders (s : Stats) (est respEst : Float) (subnets : Nat) : Stats :=
  let (c, u1) := dec s.estCount 1
  let (r, u2) := dec s.respCount 1
  let (n, u3) := dec s.subnetsSum subnets
  { s with estCount := c, estSum := s.estSum - est, respCount := r, respSum := s.respSum - respEst,
           subnetsSum := n, underflow := s.underflow || u1 || u2 || u3 }

/-- `responders_based_dht_size_estimate` -/
def respondersEstimate (s : Stats) : Nat := F64.toNat s.respSum 64 / max s.respCount 1
/-- `average_subnets` -/
def averageSubnets (s : Stats) : Nat := s.subnetsSum / max s.respCount 1
/-- `dht_size_estimate().0` -/
def normalEstimate (s : Stats) : Nat := F64.toNat s.estSum 64 / max s.estCount 1

/-- `expected_dk` of `take_until_secure` -/
def expectedDk (previousEstimate : Nat) : Nat :=
  F64.toNat ((20.0 : Float) * F64.two128 / (F64.ofNat previousEstimate + 1.0)) 128

end Stats

/-- `ClosestNodes::dht_size_estimate` -/
def ClosestNodes.dhtSizeEstimate (c : ClosestNodes) : Float :=
  let ds := (c.nodes.take Constants.K).map (ClosestNodes.distance128 c.target)
  let acc := ds.foldl (fun (acc : Float × Nat) d =>
    (acc.1 + F64.ofNat (acc.2 + 1) * F64.ofNat d, acc.2 + 1)) ((0.0 : Float), 0)
  if acc.2 == 0 || acc.1 == 0.0 then 0.0
  else F64.ofNat (acc.2 * (acc.2 + 1) * (2 * acc.2 + 1) / 6) * F64.two128 / acc.1

/-- `take_until_secure(previous_dht_size_estimate, average_subnets)` with a table's statistics -/
def ClosestNodes.takeSecure (c : ClosestNodes) (s : Stats) : List Node :=
  c.takeUntilSecure (Stats.expectedDk s.respondersEstimate) s.averageSubnets

/-- `InflightRequests::{estimated_rtt, deviation_rtt}` in ns -/
structure Rtt where
  est : Nat := Constants.MIN_REQUEST_TIMEOUT_MS * 1000000
  dev : Nat := 0
  deriving Repr

/-- `update_rtt_estimates` -/
def Rtt.update (r : Rtt) (sample : Nat) : Rtt :=
  if sample < Constants.MIN_REQUEST_TIMEOUT_MS * 1000000 then r else
    let s := F64.asSecs sample
    let e := F64.asSecs r.est
    let d := F64.asSecs r.dev
    let ne := ((1.0 : Float) - 0.125) * e + 0.125 * s
    let nd := ((1.0 : Float) - 0.25) * d + 0.25 * Float.abs (s - ne)
    { est := F64.fromSecs ne, dev := F64.fromSecs nd }

/-- `request_timeout` -/
def Rtt.timeout (r : Rtt) : Nat := r.est + F64.fromSecs ((4.0 : Float) * F64.asSecs r.dev)

structure CachedQuery where
  nodes : List Node
  est : Float
  respEst : Float
  subnets : Nat
  kind : GetKind

structure PutEntry where
  q : PutQuery
  spec : PutSpec
  deriving Repr

/-! ### Core -/

structure Core where
  bootstrap : List Addr
  rt : RoutingTable
  srt : RoutingTable
  stats : Stats := {}
  sstats : Stats := {}
  cache : Lru Id CachedQuery := { cap := Constants.MAX_CACHED_ITERATIVE_QUERIES }
  iter : List (Id × IterQuery) := []
  puts : List (Id × PutEntry) := []
  lastRefresh : Nat
  lastPing : Nat
  server : Server
  publicAddress : Option Addr := none
  firewalled : Bool := true
  serverMode : Bool
  /-- `ServerSettings::filter` (the default filter allows everything) -/
  allow : Allow := fun _ _ => true

/-- what the node does to its environment -/
inductive Sender where
  | closestNodes (c : Nat) | peers (c : Nat) | signedPeers (c : Nat) | mutable (c : Nat) | immutable (c : Nat)
  deriving DecidableEq, Repr

structure InfoView where
  id : Id
  publicAddress : Option Addr
  firewalled : Bool
  serverMode : Bool
  rtSize : Nat
  srtSize : Nat
  deriving Repr

inductive Event where
  | value (c : Nat) (v : Value)
  | nodes (c : Nat) (l : List Node)
  | closed (c : Nat)
  | putResult (c : Nat) (r : Except PutErr Id)
  | info (c : Nat) (i : InfoView)
  deriving Repr

structure Actor where
  sock : Inflight := {}
  rtt : Rtt := {}
  sockServerMode : Bool
  core : Core
  putSenders : List (Id × List Nat) := []
  getSenders : List (Id × List Sender) := []
  /-- datagrams sent, oldest first -/
  out : List (Addr × Message) := []
  events : List Event := []

structure Env where
  now : Nat
  /-- wall clock in µs (`system_time`) -/
  wall : Nat
  verify : Verify

inductive ApiMsg where
  | info (c : Nat)
  | put (c : Nat) (spec : PutSpec) (extra : List Node)
  | get (kind : GetKind) (target : Id) (sender : Sender)
  | noop   -- `Check`, `ToBootstrap`, the verification snapshot: no effect on the state
  deriving Repr

def supportsSignedPeers (version : Option Bytes) : Bool :=
  match version with
  | some v => v.take 2 == Constants.VERSION.take 2 && bytesCmp (v.drop 2) (Constants.VERSION.drop 2) != .lt
  | none => false

namespace Actor

def id (a : Actor) : Id := a.core.rt.id

/-! #### socket -/

/-- `KrpcSocket::request` -/
def request (a : Actor) (to : Addr) (req : Request) (now : Nat) : Actor × Nat :=
  let (sock, tid) := a.sock.add to now
  let m : Message :=
    { tid := UInt32.ofNat tid
      version := some Constants.VERSION
      requesterIp := none
      mtype := .request req
      readOnly := !a.sockServerMode }
  ({ a with sock := sock, out := a.out ++ [(to, m)] }, tid)

/-- `KrpcSocket::response` / `error` -/
def reply (a : Actor) (to : Addr) (tid : UInt32) (m : MessageType) : Actor :=
  let msg : Message :=
    { tid := tid
      version := some Constants.VERSION
      requesterIp := some to
      mtype := m
      readOnly := !a.sockServerMode }
  { a with out := a.out ++ [(to, msg)] }

def ping (a : Actor) (to : Addr) (now : Nat) : Actor :=
  (a.request to { requesterId := a.id, rtype := .ping } now).1

/-! #### iterative queries -/

/-- `IterativeQuery::visit` -/
def visit (a : Actor) (q : IterQuery) (to : Addr) (now : Nat) : Actor × IterQuery :=
  let (a, tid) := a.request to q.request now
  (a, { q with inflight := q.inflight ++ [tid], visited := if q.visited.contains to then q.visited else q.visited ++ [to] })

def visitAll (a : Actor) (q : IterQuery) (tos : List Addr) (now : Nat) : Actor × IterQuery :=
  tos.foldl (fun (acc : Actor × IterQuery) to => visit acc.1 acc.2 to now) (a, q)

/-- `get_cached_closest_nodes` (promotes the cache entry) -/
def getCachedClosestNodes (c : Core) (target : Id) (now : Nat) : Core × Option (List Node) :=
  match c.cache.get target with
  | (cache, some e) =>
    ({ c with cache := cache },
     if !e.nodes.isEmpty && e.nodes.any (fun n => n.validToken now) then some e.nodes else none)
  | (_, none) => (c, none)

def relevantStats (c : Core) (k : GetKind) : Stats := if k.isSigned then c.sstats else c.stats

/-- `get_closest_nodes_from_routing_tables` -/
def closestFromTables (c : Core) (k : GetKind) (target : Id) : List Node :=
  let sec (rt : RoutingTable) (s : Stats) := rt.closestSecure target (Stats.expectedDk s.respondersEstimate) s.averageSubnets
  match k with
  | .findNode => sec c.rt c.stats ++ sec c.srt c.sstats
  | .getSignedPeers => sec c.srt c.sstats
  | _ => sec c.rt c.stats

/-- `create_iterative_query`: `none` when a lookup for the target is already active -/
def createIterativeQuery (c : Core) (k : GetKind) (target : Id) (extra : List Addr) (now : Nat) :
    Core × Option (IterQuery × List Addr) :=
  if (alGet c.iter target).isSome then (c, none) else
    let q := IterQuery.new c.rt.id target k
    let q := (closestFromTables c k target).foldl (fun q n => { q with closest := q.closest.add n }) q
    let (c, cached) := getCachedClosestNodes c target now
    let q := match cached with
      | some ns => ns.foldl (fun q n => { q with closest := q.closest.add n }) q
      | none => q
    let toVisit := q.closestCandidates
    let toVisit := if q.closest.nodes.isEmpty || q.closest.nodes.length < c.bootstrap.length
      then toVisit ++ c.bootstrap else toVisit
    (c, some (q, toVisit ++ extra))

/-- `check_outgoing_put_request` -/
def checkOutgoingPut (c : Core) (target : Id) : Option Value :=
  match alGet c.puts target with
  | some e => (match e.spec with
    | .putMutable t v k seq sig salt _ => some (.mutable { target := t, key := k, value := v, seq, sig, salt })
    | .announceSignedPeer _ t k sig => some (.signedPeers [{ k, t, sig }])
    | _ => none)
  | none => none

def sendTo (s : Sender) (v : Value) : Option Event :=
  match s, v with
  | .peers c, .peers _ => some (.value c v)
  | .signedPeers c, .signedPeers _ => some (.value c v)
  | .mutable c, .mutable _ => some (.value c v)
  | .immutable c, .immutable _ => some (.value c v)
  | _, _ => none

/-- the value of the node's own in-flight put for the target, if it has one -/
def outgoingValues (c : Core) (target : Id) : List Value :=
  match checkOutgoingPut c target with
  | some v => [v]
  | none => []

/-- create the lookup, send its first requests and register it -/
def startLookup (a : Actor) (k : GetKind) (target : Id) (extra : List Addr) (now : Nat) : Actor :=
  match createIterativeQuery a.core k target extra now with
  | (core, some (q, toVisit)) =>
    { (visitAll { a with core := core } q toVisit now).1 with
      core := { core with iter := alSet core.iter target (visitAll { a with core := core } q toVisit now).2 } }
  | (core, none) => { a with core := core }

/-- `Actor::get` -/
def get (a : Actor) (k : GetKind) (target : Id) (extra : List Addr) (now : Nat) : Actor × List Value :=
  match alGet a.core.iter target with
  | some q => (a, outgoingValues a.core target ++ q.responses)
  | none => (a.startLookup k target extra now, outgoingValues a.core target)

/-- `populate` -/
def populate (a : Actor) (now : Nat) : Actor :=
  if a.core.bootstrap.isEmpty then a else (a.get .findNode a.id [] now).1

/-! #### puts -/

/-- `check_concurrency_errors` -/
def checkConcurrency (c : Core) (spec : PutSpec) : Core × Option PutErr :=
  match spec with
  | .putMutable target _ _ seq sig _ cas =>
    (match alGet c.puts target with
     | some e => (match e.spec with
       | .putMutable _ _ _ iseq isig _ _ =>
         if sig == isig then (c, none)
         else if seq < iseq then (c, some .notMostRecent)
         else (match cas with
           | some cas => if cas == iseq then ({ c with puts := alRemove c.puts target }, none)
                         else (c, some .casFailed)
           | none => (c, some .conflictRisk))
       | _ => (c, none))
     | none => (c, none))
  | _ => (c, none)

/-- the datagrams of `PutQuery::start`: one per token-bearing node, each with a fresh random
    requester id -/
def sendPuts (a : Actor) (spec : PutSpec) (sent : List ((Addr × Bytes) × Nat)) : Actor :=
  sent.foldl (fun a (pt : (Addr × Bytes) × Nat) =>
    let p := pt.1
    let (rnd, rng) := rngFill 20 a.core.server.rng
    let a := { a with core := { a.core with server := { a.core.server with rng := rng } } }
    let req : Request := { requesterId := ⟨rnd⟩, rtype := .put p.2 spec }
    let m : Message :=
      { tid := UInt32.ofNat pt.2
        version := some Constants.VERSION
        requesterIp := none
        mtype := .request req
        readOnly := !a.sockServerMode }
    { a with out := a.out ++ [(p.1, m)] }) a

/-- `PutQuery::start` on the actor's socket -/
def startPut (a : Actor) (e : PutEntry) (closest : List Node) (now : Nat) : Actor × PutEntry × Except PutErr Unit :=
  let (q, sock, r, sent) := e.q.start a.sock closest now
  let a := sendPuts { a with sock := sock } e.spec (sent.zip (q.inflight.drop e.q.inflight.length))
  (a, { e with q := q }, r)

def newPutEntry (spec : PutSpec) (extra : List Node) : PutEntry :=
  { q := { isMutable := match spec with
                        | .putMutable .. => true
                        | _ => false,
           extra := extra },
    spec := spec }

/-- `put_queries.insert(target, query)` -/
def registerPut (a : Actor) (target : Id) (entry : PutEntry) : Actor :=
  { a with core := { a.core with puts := alSet a.core.puts target entry } }

/-- the cached branch of `Actor::put`: store at once on the cached closest nodes -/
def putFromCache (a : Actor) (spec : PutSpec) (extra : List Node) (closest : List Node) (now : Nat) :
    Actor × Except PutErr Unit :=
  match (startPut a (newPutEntry spec extra) closest now).2.2 with
  | .error e => ((startPut a (newPutEntry spec extra) closest now).1, .error e)
  | .ok () =>
    (registerPut (startPut a (newPutEntry spec extra) closest now).1 spec.target
      (startPut a (newPutEntry spec extra) closest now).2.1, .ok ())

/-- `Actor::put` after the concurrency check: from the cache if it is fresh, else after a lookup -/
def putAfterCheck (a : Actor) (spec : PutSpec) (extra : List Node) (now : Nat) : Actor × Except PutErr Unit :=
  match (getCachedClosestNodes a.core spec.target now).2 with
  | some closest =>
    putFromCache { a with core := (getCachedClosestNodes a.core spec.target now).1 } spec extra closest now
  | none =>
    (registerPut
      (Actor.get { a with core := (getCachedClosestNodes a.core spec.target now).1 } (GetKind.ofPut spec) spec.target [] now).1
      spec.target (newPutEntry spec extra), .ok ())

/-- `Actor::put` -/
def put (a : Actor) (spec : PutSpec) (extra : List Node) (now : Nat) : Actor × Except PutErr Unit :=
  match (checkConcurrency a.core spec).2 with
  | some e => ({ a with core := (checkConcurrency a.core spec).1 }, .error e)
  | none => putAfterCheck { a with core := (checkConcurrency a.core spec).1 } spec extra now

/-! #### incoming requests -/

/-- the first node of a network adds every find_node requester; a node with a bootstrap list only
    those that support signed peers, and only to that table -/
def addRequester (c : Core) (node : Node) (sup : Bool) (now : Nat) : Core :=
  if c.bootstrap.isEmpty then
    if sup then { c with rt := (c.rt.add node now).1, srt := (c.srt.add node now).1 }
    else { c with rt := (c.rt.add node now).1 }
  else if sup then { c with srt := (c.srt.add node now).1 } else c

/-- `maybe_add_node_from_request` -/
def maybeAddNodeFromRequest (c : Core) (src : Addr) (version : Option Bytes) (ro : Bool) (req : Request)
    (now : Nat) : Core :=
  if c.serverMode && !ro then
    match req.rtype with
    | .findNode target =>
      addRequester c { id := target, addr := src, lastSeen := now } (supportsSignedPeers version) now
    | _ => c
  else c

def isPingReq (req : Request) : Bool :=
  match req.rtype with
  | .ping => true
  | _ => false

/-- restart the routing tables under a new BEP42 id for `ip` (21 random bytes are drawn) -/
def rekey (c : Core) (ip : UInt32) (now : Nat) : Core :=
  { c with server := { c.server with rng := (rngFill 21 c.server.rng).2 },
           rt := c.rt.resetId (Id.fromIpv4 (rngFill 21 c.server.rng).1 ip) now,
           srt := c.srt.resetId (Id.fromIpv4 (rngFill 21 c.server.rng).1 ip) now }

/-- `does_verify_our_new_public_address_with_self_ping` -/
def verifySelfPing (c : Core) (src : Addr) (req : Request) (now : Nat) : Core × Bool :=
  match c.publicAddress with
  | some our =>
    if src == our && isPingReq req then
      if !c.rt.id.isValidForIp our.ip then (rekey { c with firewalled := false } our.ip now, true)
      else ({ c with firewalled := false }, false)
    else (c, false)
  | none => (c, false)

/-- the server part of `Core::handle_request`: only a node in server mode answers -/
def serveRequest (c : Core) (env : Env) (src : Addr) (req : Request) (repopulate : Bool) :
    Core × Option Reply × Bool :=
  if c.serverMode then
    ({ c with server := (c.server.handleRequest env.verify c.allow c.rt c.srt src env.now env.wall req).1 },
     (c.server.handleRequest env.verify c.allow c.rt c.srt src env.now env.wall req).2, repopulate)
  else (c, none, repopulate)

/-- `Core::handle_request` -/
def handleRequest (c : Core) (env : Env) (src : Addr) (ro : Bool) (version : Option Bytes) (req : Request) :
    Core × Option Reply × Bool :=
  -- a request vetoed by the request filter is dropped before it can have any effect
  if !c.allow req src then (c, none, false) else
  serveRequest (verifySelfPing (maybeAddNodeFromRequest c src version ro req env.now) src req env.now).1 env src req
    (verifySelfPing (maybeAddNodeFromRequest c src version ro req env.now) src req env.now).2

/-! #### incoming responses -/

def Response.authorId : Response → Id
  | .ping i | .findNode i _ | .getPeers i _ _ _ | .getSignedPeers i _ _ _ | .getImmutable i _ _ _
  | .getMutable i _ _ _ _ _ _ | .noValues i _ _ | .noMoreRecentValue i _ _ _ => i

def Response.closerNodes : Response → Option (List Node)
  | .ping _ => none
  | .findNode _ ns => some ns
  | .getPeers _ _ _ ns | .getSignedPeers _ _ _ ns | .getImmutable _ _ ns _ | .getMutable _ _ ns _ _ _ _
  | .noValues _ _ ns | .noMoreRecentValue _ _ ns _ => ns

def Response.token : Response → Option (Id × Bytes)
  | .ping _ | .findNode _ _ => none
  | .getPeers i t _ _ | .getSignedPeers i t _ _ | .getImmutable i t _ _ | .getMutable i t _ _ _ _ _
  | .noValues i t _ | .noMoreRecentValue i t _ _ => some (i, t)

/-- `MutableItem::from_dht_message` -/
def mutableFromMessage (verify : Verify) (target : Id) (k v : Bytes) (seq : Int) (sig : Bytes)
    (salt : Option Bytes) : Option MItem :=
  if k.length != 32 then none
  else if targetFromKey k salt != target.bytes then none
  else if sig.length != 64 then none
  else if !verify k (encodeSignable seq v salt) sig then none
  else some { target, key := k, value := v, seq, sig, salt }

/-- `SignedAnnounce::from_dht_response` for every record; `none` if one is invalid -/
def verifySignedPeers (verify : Verify) (target : Id) (peers : List SignedPeer) : Option (List SignedPeer) :=
  if peers.all (fun p => p.k.length == 32 && p.sig.length == 64 &&
      verify p.k (encodeSignableAnnounce target p.t) p.sig) then some peers else none

/-- the per-variant part of `handle_response` for a lookup: the value yielded (if any) and whether
    the responder may be added to the routing table -/
def queryValue (verify : Verify) (q : IterQuery) (m : MessageType) : Option Value × Bool :=
  match m with
  | .response (.getPeers _ _ values _) => (some (.peers values), true)
  | .response (.getSignedPeers _ _ peers _) =>
    (match verifySignedPeers verify q.target peers with
     | some ps => (some (.signedPeers ps), true)
     | none => (none, false))
  | .response (.getImmutable _ _ _ v) =>
    if hashImmutable v == q.target.bytes then (some (.immutable v), true) else (none, true)
  | .response (.getMutable _ _ _ v k seq sig) =>
    (match mutableFromMessage verify q.target k v seq sig q.salt with
     | some item => (some (.mutable item), true)
     | none => (none, true))
  | _ => (none, true)

def addCandidates (q : IterQuery) (ns : List Node) (now : Nat) : IterQuery :=
  ns.foldl (fun q n => { q with closest := q.closest.add { n with lastSeen := now } }) q

/-- the closer nodes of a response become candidates -/
def absorbNodes (q : IterQuery) (now : Nat) (m : Message) : IterQuery :=
  match m.mtype with
  | .response r => (match Response.closerNodes r with
    | some ns => addCandidates q ns now
    | none => q)
  | _ => q

/-- a responder that gave a token becomes a storage candidate -/
def absorbToken (q : IterQuery) (now : Nat) (src : Addr) (m : Message) : IterQuery :=
  match m.mtype with
  | .response r => (match Response.token r with
    | some (i, tok) =>
      { q with responders := q.responders.add { id := i, addr := src, token := some tok, lastSeen := now } }
    | none => q)
  | _ => q

/-- the address the responder saw us at is a vote -/
def absorbVote (q : IterQuery) (m : Message) : IterQuery :=
  match m.requesterIp with
  | some ip => q.addVote ip
  | none => q

/-- what a lookup absorbs from any message attributed to it -/
def absorb (q : IterQuery) (now : Nat) (src : Addr) (m : Message) : IterQuery :=
  absorbVote (absorbToken (absorbNodes q now m) now src m) m

/-- a lookup handles a message: the updated lookup, the value for its callers (if any), and
    whether the sender may enter the routing table -/
def lookupStep (q : IterQuery) (env : Env) (src : Addr) (m : Message) : IterQuery × Option Value × Bool :=
  match queryValue env.verify (absorb q env.now src m) m.mtype with
  | (some v, b) => ({ (absorb q env.now src m) with responses := (absorb q env.now src m).responses ++ [v] }, some v, b)
  | (none, b) => (absorb q env.now src m, none, b)

def authorId (m : Message) : Option Id :=
  match m.mtype with
  | .request r => some r.requesterId
  | .response r => some (Response.authorId r)
  | .error _ => none

/-- add the author of an expected response to the routing table(s) -/
def addResponder (c : Core) (now : Nat) (src : Addr) (m : Message) : Core :=
  match authorId m with
  | some i =>
    if supportsSignedPeers m.version then
      { c with rt := (c.rt.add { id := i, addr := src, lastSeen := now } now).1,
               srt := (c.srt.add { id := i, addr := src, lastSeen := now } now).1 }
    else { c with rt := (c.rt.add { id := i, addr := src, lastSeen := now } now).1 }
  | none => c

/-- the put branch of `handle_response` -/
def putStep (q : PutQuery) (m : MessageType) : PutQuery :=
  match m with
  | .response (.ping _) => q.success
  | .error err => q.error err.code
  | _ => q

/-- `Core::handle_response`: the new value for the callers of a lookup, if any -/
def handleResponse (c : Core) (env : Env) (src : Addr) (m : Message) : Core × Option (Id × Value) :=
  if m.readOnly then (c, none) else
  match c.puts.find? (fun p => p.2.q.isInflight m.tid.toNat) with
  | some (target, e) => ({ c with puts := alSet c.puts target { e with q := putStep e.q m.mtype } }, none)
  | none =>
    match c.iter.find? (fun p => p.2.isInflight m.tid.toNat) with
    | some (target, q) =>
      if (lookupStep q env src m).2.2 then
        (addResponder { c with iter := alSet c.iter target (lookupStep q env src m).1 } env.now src m,
         (lookupStep q env src m).2.1.map fun v => (target, v))
      else
        ({ c with iter := alSet c.iter target (lookupStep q env src m).1 },
         (lookupStep q env src m).2.1.map fun v => (target, v))
    | none =>
      (match m.mtype with
       | .response (.ping _) => (addResponder c env.now src m, none)
       | _ => (c, none))

/-! #### the tick -/

/-- `closest_nodes_from_done_iterative_query` -/
def closestOfDone (c : Core) (q : IterQuery) : List Node :=
  if q.kind.isFindNode then q.closest.nodes.take Constants.K
  else q.responders.takeSecure (relevantStats c q.kind)

def decrementCached (c : Core) (e : Option CachedQuery) : Core :=
  match e with
  | some e =>
    if e.kind.isFindNode then { c with stats := c.stats.decrementDhtSize e.est }
    else if e.kind.isSigned then { c with sstats := c.sstats.decrementResponders e.est e.respEst e.subnets }
    else { c with stats := c.stats.decrementResponders e.est e.respEst e.subnets }
  | none => c

/-- the eviction at the head of `cache_iterative_query`: when the cache is full, the least recently
    used entry leaves and its statistics are withdrawn -/
def evictIfFull (c : Core) : Core :=
  if c.cache.len ≥ Constants.MAX_CACHED_ITERATIVE_QUERIES then
    decrementCached { c with cache := c.cache.popLru.1 } (c.cache.popLru.2.map (·.2))
  else c

/-- what is remembered of a finished lookup -/
def mkEntry (q : IterQuery) (closestResponding : List Node) : CachedQuery :=
  { nodes := closestResponding, est := q.closest.dhtSizeEstimate, respEst := q.responders.dhtSizeEstimate,
    subnets := q.responders.subnetsCount, kind := q.kind }

/-- add an entry's samples to the statistics of its table -/
def countEntry (c : Core) (e : CachedQuery) : Core :=
  if e.kind.isFindNode then { c with stats := c.stats.incrementDhtSize e.est }
  else if e.kind.isSigned then { c with sstats := c.sstats.incrementResponders e.est e.respEst e.subnets }
  else { c with stats := c.stats.incrementResponders e.est e.respEst e.subnets }

/-- `cache_iterative_query` -/
def cacheQuery (c : Core) (q : IterQuery) (closestResponding : List Node) : Core :=
  if q.closest.nodes.isEmpty then evictIfFull c else
    countEntry
      (decrementCached { (evictIfFull c) with cache := (evictIfFull c).cache.put q.target (mkEntry q closestResponding) }
        ((evictIfFull c).cache.find? q.target))
      (mkEntry q closestResponding)

/-- `update_address_votes_from_iterative_query` -/
def updateAddressVotes (c : Core) (q : IterQuery) : Core × Option Addr :=
  match q.bestAddress with
  | some a => if c.publicAddress != some a then ({ c with publicAddress := some a, firewalled := true }, some a)
              else (c, none)
  | none => (c, none)

/-- one table's share of `check_nodes_to_ping_and_remove_stale_nodes`: stale nodes are removed, the
    others are pinged unless heard from in the last 10 seconds -/
def pruneAndPing (rt : RoutingTable) (now : Nat) : RoutingTable × List Addr :=
  ((rt.nodes.filter (fun n => n.isStale now)).foldl (fun t n => t.remove n.id) rt,
   (rt.nodes.filter fun n => !n.isStale now && n.shouldPing now).map (·.addr))

/-- `check_nodes_to_ping_and_remove_stale_nodes` -/
def pingRound (c : Core) (now : Nat) : Core × List Addr :=
  ({ c with rt := (pruneAndPing c.rt now).1, srt := (pruneAndPing c.srt now).1 },
   (pruneAndPing c.rt now).2 ++ (pruneAndPing c.srt now).2)

/-- bootstrap again whenever the routing table is empty -/
def bootstrapIfEmpty (a : Actor) (now : Nat) : Actor := if a.core.rt.isEmpty then a.populate now else a

/-- adaptive mode: a client that is not firewalled becomes a server -/
def adaptiveSwitch (a : Actor) : Actor :=
  if !a.core.serverMode && !a.core.firewalled then
    { a with sockServerMode := true, core := { a.core with serverMode := true } }
  else a

def refreshDue (a : Actor) (now : Nat) : Bool := now - a.core.lastRefresh > secsToNs Constants.REFRESH_TABLE_SECS

/-- every 15 minutes: adaptive switch, then a lookup of the own id -/
def refreshTable (a : Actor) (now : Nat) : Actor :=
  if a.refreshDue now then
    (adaptiveSwitch { a with core := { a.core with lastRefresh := now } }).populate now
  else a

/-- every 5 minutes: drop stale nodes, ping the others -/
def pingTable (a : Actor) (now : Nat) : Actor :=
  if now - a.core.lastPing > secsToNs Constants.PING_TABLE_SECS then
    (pingRound { a.core with lastPing := now } now).2.foldl (fun a addr => a.ping addr now)
      { a with core := (pingRound { a.core with lastPing := now } now).1 }
  else a

/-- `periodic_node_maintaenance` -/
def maintenance (a : Actor) (now : Nat) : Actor :=
  ((a.bootstrapIfEmpty now).refreshTable now).pingTable now

/-- `recv_from` returns: the accept/drop decision (`cleanup` ran when the thread entered
    `recv_from`, at the end of the previous step), with the round trip sample `remove` takes when
    the addressed peer answers (in time or late) -/
def recvPhase (a : Actor) (now : Nat) (dgram : Option (Message × Addr)) : Actor × Option (Message × Addr) :=
  match dgram with
  | none => (a, none)
  | some (m, src) =>
    let kind : Incoming := match m.mtype with
      | .request _ => .request
      | .response _ => .response
      | .error _ => .error
    let sample : Option Nat :=
      if src.port == 0 || kind == Incoming.request then none
      else match a.sock.find m.tid.toNat with
        | some r => if compareAddr r.to src then some (now - r.sentAt) else none
        | none => none
    let (sock, up) := a.sock.decide kind m.tid.toNat src now
    let rtt := match sample with
      | some s => a.rtt.update s
      | none => a.rtt
    ({ a with sock := { sock with timeout := rtt.timeout }, rtt := rtt }, if up then some (m, src) else none)

/-- send what `handle_request` answered, if anything -/
def sendReply (a : Actor) (src : Addr) (tid : UInt32) (r : Option Reply) : Actor :=
  match r with
  | some (.response r) => a.reply src tid (.response r)
  | some (.error code) => a.reply src tid (.error { code, description := [] })
  | none => a

/-- the request arm of `handle_incoming_message` -/
def handleIncomingRequest (a : Actor) (env : Env) (m : Message) (src : Addr) (req : Request) : Actor :=
  if (handleRequest a.core env src m.readOnly m.version req).2.2 then
    (sendReply { a with core := (handleRequest a.core env src m.readOnly m.version req).1 } src m.tid
      (handleRequest a.core env src m.readOnly m.version req).2.1).populate env.now
  else
    sendReply { a with core := (handleRequest a.core env src m.readOnly m.version req).1 } src m.tid
      (handleRequest a.core env src m.readOnly m.version req).2.1

/-- `handle_incoming_message` -/
def handleIncoming (a : Actor) (env : Env) (handed : Option (Message × Addr)) : Actor × Option (Id × Value) :=
  match handed with
  | none => (a, none)
  | some (m, src) =>
    (match m.mtype with
     | .request req => (a.handleIncomingRequest env m src req, none)
     | _ => ({ a with core := (handleResponse a.core env src m).1 }, (handleResponse a.core env src m).2))

/-- forward a new value to the callers waiting on that target -/
def forwardValue (a : Actor) (newValue : Option (Id × Value)) : Actor :=
  match newValue with
  | some (target, v) =>
    (match alGet a.getSenders target with
     | some senders => { a with events := a.events ++ senders.filterMap (fun s => sendTo s v) }
     | none => a)
  | none => a

/-- `check_done_put_queries` -/
def checkDonePuts (a : Actor) (now : Nat) : List (Id × Option PutErr) :=
  a.core.puts.filterMap fun p =>
    match p.2.q.check a.sock now with
    | .ok true => some (p.1, none)
    | .ok false => none
    | .error e => some (p.1, some e)

/-- `visit_closest` for one lookup -/
def visitClosest (a : Actor) (target : Id) (now : Nat) : Actor :=
  match alGet a.core.iter target with
  | some q =>
    let (a, q) := visitAll a q q.closestCandidates now
    { a with core := { a.core with iter := alSet a.core.iter target q } }
  | none => a

/-- `visit_closest` for every lookup -/
def visitClosestAll (a : Actor) (now : Nat) : Actor :=
  a.core.iter.foldl (fun (a : Actor) (p : Id × IterQuery) => a.visitClosest p.1 now) a

/-- `check_done_iterative_queries` -/
def doneLookups (a : Actor) (now : Nat) : List (Id × List Node) :=
  a.core.iter.filterMap fun p =>
    if p.2.isDone a.sock now then some (p.1, closestOfDone a.core p.2) else none

/-- `start_put_queries`, for one finished lookup: the put waiting on it (if any) sends its requests -/
def startPutOne (now : Nat) (acc : Actor × List (Id × Option PutErr)) (d : Id × List Node) :
    Actor × List (Id × Option PutErr) :=
  match alGet acc.1.core.puts d.1 with
  | some e =>
    match (startPut acc.1 e d.2 now).2.2 with
    | .error err =>
      ({ (startPut acc.1 e d.2 now).1 with
           core := { (startPut acc.1 e d.2 now).1.core with
                     puts := alSet (startPut acc.1 e d.2 now).1.core.puts d.1 (startPut acc.1 e d.2 now).2.1 } },
       acc.2 ++ [(d.1, some err)])
    | .ok () =>
      ({ (startPut acc.1 e d.2 now).1 with
           core := { (startPut acc.1 e d.2 now).1.core with
                     puts := alSet (startPut acc.1 e d.2 now).1.core.puts d.1 (startPut acc.1 e d.2 now).2.1 } },
       acc.2)
  | none => acc

/-- `start_put_queries` -/
def startPuts (a : Actor) (now : Nat) (doneIter : List (Id × List Node)) (donePuts : List (Id × Option PutErr)) :
    Actor × List (Id × Option PutErr) :=
  doneIter.foldl (startPutOne now) (a, donePuts)

/-- `cleanup_done_queries`, for one finished lookup: unregister it, cache it, count its votes -/
def cleanupOneLookup (acc : Core × Option Addr) (d : Id × List Node) : Core × Option Addr :=
  match alGet acc.1.iter d.1 with
  | some q =>
    match (updateAddressVotes (cacheQuery { acc.1 with iter := alRemove acc.1.iter d.1 } q d.2) q).2 with
    | some x => ((updateAddressVotes (cacheQuery { acc.1 with iter := alRemove acc.1.iter d.1 } q d.2) q).1, some x)
    | none => ((updateAddressVotes (cacheQuery { acc.1 with iter := alRemove acc.1.iter d.1 } q d.2) q).1, acc.2)
  | none => acc

def removePut (c : Core) (d : Id × Option PutErr) : Core := { c with puts := alRemove c.puts d.1 }

/-- `cleanup_done_queries`: the new core and the address to ping, if the votes changed it -/
def cleanupDone (c : Core) (doneIter : List (Id × List Node)) (donePuts : List (Id × Option PutErr)) :
    Core × Option Addr :=
  (donePuts.foldl removePut (doneIter.foldl cleanupOneLookup (c, none)).1,
   (doneIter.foldl cleanupOneLookup (c, none)).2)

/-- what a caller parked on a finished lookup receives -/
def closingEvent (nodes : List Node) : Sender → Event
  | .closestNodes c => .nodes c nodes
  | .peers c | .signedPeers c | .mutable c | .immutable c => .closed c

/-- answer and un-park the callers of one finished lookup -/
def releaseGetOne (a : Actor) (d : Id × List Node) : Actor :=
  match alGet a.getSenders d.1 with
  | some senders =>
    { a with getSenders := alRemove a.getSenders d.1, events := a.events ++ senders.map (closingEvent d.2) }
  | none => a

/-- answer the callers of finished lookups -/
def releaseGetCallers (a : Actor) (doneIter : List (Id × List Node)) : Actor := doneIter.foldl releaseGetOne a

def putOutcome (d : Id × Option PutErr) : Except PutErr Id :=
  match d.2 with
  | some e => .error e
  | none => .ok d.1

/-- answer and un-park the callers of one finished put -/
def releasePutOne (a : Actor) (d : Id × Option PutErr) : Actor :=
  match alGet a.putSenders d.1 with
  | some cs =>
    { a with putSenders := alRemove a.putSenders d.1,
             events := a.events ++ cs.map fun c => Event.putResult c (putOutcome d) }
  | none => a

/-- answer the callers of finished puts -/
def releasePutCallers (a : Actor) (donePuts : List (Id × Option PutErr)) : Actor := donePuts.foldl releasePutOne a

/-- receive, handle, forward: the first half of the tick -/
def preDone (a : Actor) (env : Env) (dgram : Option (Message × Addr)) : Actor :=
  forwardValue
    (handleIncoming (a.recvPhase env.now dgram).1 env (a.recvPhase env.now dgram).2).1
    (handleIncoming (a.recvPhase env.now dgram).1 env (a.recvPhase env.now dgram).2).2

def pingOpt (a : Actor) (to : Option Addr) (now : Nat) : Actor :=
  match to with
  | some addr => a.ping addr now
  | none => a

/-- the second half of the tick, after `visit_closest`: finished lookups start the puts waiting on
    them, finished work is unregistered (and cached), its callers are answered -/
def finishTick (a : Actor) (now : Nat) (donePuts0 : List (Id × Option PutErr)) : Actor :=
  releasePutCallers
    (releaseGetCallers
      (pingOpt
        { (startPuts a now (a.doneLookups now) donePuts0).1 with
          core := (cleanupDone (startPuts a now (a.doneLookups now) donePuts0).1.core (a.doneLookups now)
                    (startPuts a now (a.doneLookups now) donePuts0).2).1 }
        (cleanupDone (startPuts a now (a.doneLookups now) donePuts0).1.core (a.doneLookups now)
          (startPuts a now (a.doneLookups now) donePuts0).2).2 now)
      (a.doneLookups now))
    (startPuts a now (a.doneLookups now) donePuts0).2

/-- the part of `tick` after `recv_from` returned -/
def afterRecv (a : Actor) (env : Env) (dgram : Option (Message × Addr)) : Actor :=
  finishTick ((a.preDone env dgram).visitClosestAll env.now) env.now ((a.preDone env dgram).checkDonePuts env.now)

def senderCaller : Sender → Nat
  | .closestNodes c | .peers c | .signedPeers c | .mutable c | .immutable c => c

def infoView (a : Actor) : InfoView :=
  { id := a.id
    publicAddress := a.core.publicAddress
    firewalled := a.core.firewalled
    serverMode := a.core.serverMode
    rtSize := a.core.rt.size
    srtSize := a.core.srt.size }

def parkPutCaller (a : Actor) (target : Id) (c : Nat) : Actor :=
  { a with putSenders := alSet a.putSenders target ((alGet a.putSenders target).getD [] ++ [c]) }

def parkGetCaller (a : Actor) (target : Id) (s : Sender) : Actor :=
  { a with getSenders := alSet a.getSenders target ((alGet a.getSenders target).getD [] ++ [s]) }

/-- the `ActorMessage::Put` arm -/
def pickupPut (a : Actor) (env : Env) (c : Nat) (spec : PutSpec) (extra : List Node) : Actor :=
  match (a.put spec extra env.now).2 with
  | .ok () => parkPutCaller (a.put spec extra env.now).1 spec.target c
  | .error e => { (a.put spec extra env.now).1 with events := (a.put spec extra env.now).1.events ++ [.putResult c (.error e)] }

/-- the `ActorMessage::Get` arm -/
def pickupGet (a : Actor) (env : Env) (kind : GetKind) (target : Id) (sender : Sender) : Actor :=
  parkGetCaller
    { (a.get kind target [] env.now).1 with
      events := (a.get kind target [] env.now).1.events ++ (a.get kind target [] env.now).2.filterMap (fun v => sendTo sender v) }
    target sender

/-- the message pick-up of `run`'s loop (one message per iteration) -/
def pickup (a : Actor) (env : Env) (msg : Option ApiMsg) : Actor :=
  match msg with
  | none | some .noop => a
  | some (.info c) => { a with events := a.events ++ [.info c a.infoView] }
  | some (.put c spec extra) => a.pickupPut env c spec extra
  | some (.get kind target sender) => a.pickupGet env kind target sender

/-- one iteration of the actor loop as the scheduler sees it: the rest of the current tick, the
    message pick-up, and the maintenance at the head of the next tick -/
def step (a : Actor) (env : Env) (dgram : Option (Message × Addr)) (msg : Option ApiMsg) : Actor :=
  let a := ((a.afterRecv env dgram).pickup env msg).maintenance env.now
  -- entering `recv_from` of the next tick
  { a with sock := a.sock.cleanup env.now }

/-- the state a message handler of `run`'s loop sees (after the pick-up, before the maintenance of
    the next tick): this is what `Info` and the verification snapshot report -/
def observed (a : Actor) (env : Env) (dgram : Option (Message × Addr)) (msg : Option ApiMsg) : Actor :=
  (a.afterRecv env dgram).pickup env msg

end Actor

structure NodeConfig where
  serverMode : Bool
  bootstrap : List Addr
  publicIp : Option UInt32
  caps : Nat × Nat × Nat × Nat := (0, 0, 0, 0)
  /-- the socket's transaction id counter starts here (0 in production; the harness moves it to
      exercise the wrap-around) -/
  firstTid : Nat := 0
  /-- a request filter that vetoes every request from this IP (`None`: the default filter) -/
  denyIp : Option UInt32 := none

/-- `Actor::new` followed by the first maintenance; `seed` is the thread's random stream -/
def Actor.create (cfg : NodeConfig) (seed : UInt64) (now : Nat) : Actor :=
  let (id, rng) := match cfg.publicIp with
    | some ip => let (rnd, r) := rngFill 21 seed; (Id.fromIpv4 rnd ip, r)
    | none => let (b, r) := rngFill 20 seed; ((⟨b⟩ : Id), r)
  let server := Server.new cfg.caps.1 cfg.caps.2.1 cfg.caps.2.2.1 cfg.caps.2.2.2 rng now
  let core : Core := { bootstrap := cfg.bootstrap, rt := { id }, srt := { id }, lastRefresh := now,
                       lastPing := now, server, serverMode := cfg.serverMode,
                       allow := match cfg.denyIp with
                         | some ip => fun _ src => src.ip != ip
                         | none => fun _ _ => true }
  let a : Actor := { sockServerMode := cfg.serverMode, core, sock := { nextTid := cfg.firstTid % two32 } }
  let a := a.maintenance now
  { a with sock := a.sock.cleanup now }

end Mainline
