-- Root of the `MainlineModel` library: the executable model (core + Std only, no Mathlib).
import MainlineModel.Gen.Constants
import MainlineModel.Model.Basic
import MainlineModel.Model.Crc32c
import MainlineModel.Model.Sha1
import MainlineModel.Model.Id
import MainlineModel.Model.BinarySearch
import MainlineModel.Model.Node
import MainlineModel.Model.RoutingTable
import MainlineModel.Model.Lru
import MainlineModel.Model.Tokens
import MainlineModel.Model.Messages
import MainlineModel.Model.Server
import MainlineModel.Model.Api
import MainlineModel.Model.Bencode
import MainlineModel.Model.Krpc
import MainlineModel.Model.Socket
import MainlineModel.Model.PutQuery
