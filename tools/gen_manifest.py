#!/usr/bin/env python3
"""Regenerate MANIFEST.json from tools/props.json + tools/manifest_meta.json (kept in sync by hand-run)."""
import json, os
ROOT = os.path.join(os.path.dirname(os.path.abspath(__file__)), "..")
props = json.load(open(os.path.join(ROOT, "tools", "props.json")))
meta = json.load(open(os.path.join(ROOT, "tools", "manifest_meta.json")))
all_ids = [json.loads(l)["id"] for l in open(os.path.join(ROOT, "properties.jsonl"))]
checks = []
for pid in all_ids:
    if pid not in props:
        continue
    m = meta["checks"][pid]
    checks.append({
        "property_id": pid,
        "quick_cmd": f"./check {pid} quick",
        "thorough_cmd": f"./check {pid} thorough",
        "evidence_file": f"evidence/{pid}.json",
        "replay_cmd_template": f"./check {pid} --replay {{path}}",
        "engine": "lean4-proof+correspondence",
        "level_claimed": {"category": "proof", "text": m["text"], "design_ref": m.get("design_ref", "DESIGN.md §5")},
        "level_note": m["note"],
        "technique": m.get("technique", "Lean 4 theorems on a hand-written executable model; model tied to the code by regenerated constants (T1) and differential correspondence streams (T2)"),
    })
na = [{"property_id": pid, "reason": meta["not_applicable"].get(pid, "not claimed yet: the model layer and correspondence stream for this property are still being built (see DESIGN.md §9 order of work)")}
      for pid in all_ids if pid not in props]
manifest = {
    "version": 1,
    "setup_cmd": "./check --setup",
    "hooks": {
        "guard": "mainline_verif",
        "enable": "RUSTFLAGS=\"--cfg mainline_verif\" (set in harness/.cargo/config.toml; the harness crate depends on /repo by path)",
        "baseline_off_cmd": "cd /repo && cargo nextest run --workspace --no-fail-fast --test-threads 8 --offline || cargo test --workspace --no-fail-fast --offline",
        "source_commits": meta["hook_commits"],
        "add_only": False,
    },
    "engines": [{
        "name": "lean4-proof+correspondence",
        "path": "check",
        "serves_properties": [c["property_id"] for c in checks],
        "kind_free_text": "Lean 4.33 theorems about an executable model (lean/MainlineModel), T1 translators (tools/), T2 differential harness (harness/, Rust, calls the real code in-process) against the compiled model driver (lean/Driver.lean)",
    }],
    "checks": checks,
    "not_applicable": na,
    "notes": meta["notes"],
}
with open(os.path.join(ROOT, "MANIFEST.json"), "w") as f:
    json.dump(manifest, f, indent=1)
    f.write("\n")
print(f"MANIFEST.json: {len(checks)} checks, {len(na)} not claimed")
