#!/bin/bash
# usage: tools/try_mutant.sh <patch.diff> <tier> <property>...   — apply a seeded change to /repo, run the
# checks, always restore /repo.  Prints one line per property.
patch="$1"; tier="$2"; shift 2
if [ -n "$(git -C /repo status --porcelain)" ]; then echo "/repo is dirty, refusing"; exit 2; fi
save=$(mktemp -d /verif/.build/evidence-save.XXXXXX)
cp -a /verif/evidence/. "$save"/
git -C /repo apply "$(realpath "$patch")" || { echo "patch does not apply"; rm -rf "$save"; exit 2; }
# always restore /repo and the evidence of the unchanged tree (evidence describes clean runs only)
trap 'git -C /repo checkout -- . ; cp -a "$save"/. /verif/evidence/ ; rm -rf "$save"' EXIT
for p in "$@"; do
  out=$(cd /verif && timeout 3000 ./check "$p" "$tier" 2>&1)
  rc=$?
  v=$(echo "$out" | grep -E "^VIOLATION|^KNOWN-FINDING" | head -3 | tr '\n' ';')
  echo "$p rc=$rc $v $(echo "$out" | tail -1)"
done
