#!/bin/bash
# usage: tools/try_mutant.sh <patch.diff> <tier> <property>...   — apply a seeded change to /repo, run the
# checks, always restore /repo.  Prints one line per property.
patch="$1"; tier="$2"; shift 2
if [ -n "$(git -C /repo status --porcelain)" ]; then echo "/repo is dirty, refusing"; exit 2; fi
git -C /repo apply "$(realpath "$patch")" || { echo "patch does not apply"; exit 2; }
trap 'git -C /repo checkout -- . ; rm -f /verif/replays/*.seeded-run' EXIT
for p in "$@"; do
  out=$(cd /verif && timeout 3000 ./check "$p" "$tier" 2>&1)
  rc=$?
  v=$(echo "$out" | grep -E "^VIOLATION|^KNOWN-FINDING" | head -3 | tr '\n' ';')
  echo "$p rc=$rc $v $(echo "$out" | tail -1)"
done
