#!/bin/bash
# usage: tools/verify_seed.sh <worktree> — confirm a sub-agent's seeded change: the demonstration fails with
# the change and passes without it, and the existing lib tests pass with it.  Demonstrations are *.rs files in
# <worktree>/deliver/ meant for tests/ (integration tests).  Prints one summary line.
wt=$1
cd $wt || exit 2
export CARGO_NET_OFFLINE=true
git checkout -q -- src 2>/dev/null; git apply deliver/patch.diff || { echo "SEED $wt: patch does not apply"; exit 2; }
mkdir -p tests; names=""
for f in deliver/*.rs; do [ -f "$f" ] || continue; cp $f tests/; names="$names $(basename $f .rs)"; done
with=""; without=""
# a demonstration that says it needs the verification hooks (virtual clock, crate-private types) is built with them
demoflags=""; if grep -qs "cfg mainline_verif" deliver/demo.md deliver/*.rs; then demoflags="--cfg mainline_verif"; fi
for n in $names; do RUSTFLAGS="$demoflags" timeout 900 cargo test --offline --test $n > /tmp/vs_$$.log 2>&1; with="$with $n:rc=$?"; done
timeout 1500 cargo test --offline --lib > /tmp/vs_suite_$$.log 2>&1; suite=$?
failed=$(grep -E "^test .* FAILED" /tmp/vs_suite_$$.log | tr '\n' ' ')
git apply -R deliver/patch.diff
for n in $names; do RUSTFLAGS="$demoflags" timeout 900 cargo test --offline --test $n > /tmp/vs_$$.log 2>&1; without="$without $n:rc=$?"; done
git apply deliver/patch.diff
for n in $names; do rm -f tests/$n.rs; done
rm -f /tmp/vs_$$.log /tmp/vs_suite_$$.log
echo "SEED $wt (demo flags: ${demoflags:-none}): with-change[$with ] without-change[$without ] lib-suite rc=$suite failed=[$failed]"
