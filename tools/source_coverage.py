#!/usr/bin/env python3
"""source_coverage.py — how much of /repo's source do the correspondence streams execute?

  tools/source_coverage.py <out.json> <stream> [<stream> ...]

Builds the harness a second time with `-C instrument-coverage` (nightly toolchain, offline, into
.build/target-cov), runs the named streams at the quick tier with the instrumented binary, merges the
profiles and writes, per file of /repo/src, the number of lines with code and the number executed, plus
the functions of the non-test source that no stream entered.  This measures the reach of the T2 tie: a
line no stream executes is a line on which model and implementation were never compared.

It is supporting evidence only (it says nothing about the theorems); the thorough tier of `./check`
copies the per-file numbers of the property's streams into the evidence file.
"""
import json, os, re, shutil, subprocess, sys

ROOT = os.path.join(os.path.dirname(os.path.abspath(__file__)), "..")
ROOT = os.path.abspath(ROOT)
BUILD = os.path.join(ROOT, ".build")
HARNESS = os.path.join(ROOT, "harness")
REPO = os.environ.get("VERIF_REPO", "/repo")
TARGET = os.path.join(BUILD, "target-cov")
MVH = os.path.join(TARGET, "release", "mvh")


def llvm_bin():
    try:
        sysroot = subprocess.run(["rustc", "+nightly", "--print", "sysroot"], capture_output=True, text=True, check=True).stdout.strip()
    except (OSError, subprocess.CalledProcessError):
        return None
    for root, _dirs, files in os.walk(os.path.join(sysroot, "lib", "rustlib")):
        if "llvm-cov" in files and "llvm-profdata" in files:
            return root
    return None


def idents(mangled):
    """rough demangling: the identifiers of a legacy (_ZN…) or v0 (_R…) symbol, joined by ::"""
    out, i, s = [], 0, mangled
    while i < len(s):
        m = re.match(r"(\d+)_?", s[i:])
        if m and not (i > 0 and s[i - 1].isalpha() and s[i - 1].islower() and False):
            n = int(m.group(1))
            j = i + len(m.group(0))
            cand = s[j:j + n]
            if n > 0 and len(cand) == n and re.fullmatch(r"[A-Za-z_][A-Za-z0-9_$.]*", cand):
                out.append(cand)
                i = j + n
                continue
        i += 1
    out = [x for x in out if not re.fullmatch(r"h[0-9a-f]{16}", x)]
    return "::".join(out)


def main():
    if len(sys.argv) < 3:
        print(__doc__)
        return 2
    out_json, streams = sys.argv[1], sys.argv[2:]
    bindir = llvm_bin()
    if bindir is None:
        json.dump({"available": False, "reason": "no nightly toolchain with llvm-tools"}, open(out_json, "w"))
        return 0
    env = dict(os.environ)
    env.update({"CARGO_NET_OFFLINE": "true", "RUSTFLAGS": "--cfg mainline_verif -C instrument-coverage", "CARGO_TERM_COLOR": "never",
                "LLVM_PROFILE_FILE": os.path.join(BUILD, "cov-build", "build-%p.profraw")})
    shutil.copyfile(os.path.join(REPO, "Cargo.lock"), os.path.join(HARNESS, "Cargo.lock"))
    p = subprocess.run(["cargo", "+nightly", "build", "--release", "--offline", "--target-dir", TARGET], cwd=HARNESS, env=env,
                       stdout=subprocess.PIPE, stderr=subprocess.STDOUT, text=True)
    if p.returncode != 0:
        json.dump({"available": False, "reason": "instrumented build failed: " + p.stdout[-400:]}, open(out_json, "w"))
        return 0
    cov = os.path.join(BUILD, "cov")
    shutil.rmtree(cov, ignore_errors=True)
    os.makedirs(cov)
    for s in streams:
        d = os.path.join(cov, "out-" + s)
        os.makedirs(d)
        e = dict(os.environ)
        e["LLVM_PROFILE_FILE"] = os.path.join(cov, f"{s}-%p.profraw")
        subprocess.run([MVH, s, d, "1", "quick"], env=e, stdout=subprocess.DEVNULL, stderr=subprocess.DEVNULL, timeout=3600)
    raws = [os.path.join(cov, f) for f in os.listdir(cov) if f.endswith(".profraw")]
    prof = os.path.join(cov, "all.profdata")
    subprocess.run([os.path.join(bindir, "llvm-profdata"), "merge", "-sparse"] + raws + ["-o", prof], check=True)
    exp = subprocess.run([os.path.join(bindir, "llvm-cov"), "export", MVH, f"-instr-profile={prof}", "-format=text"],
                         stdout=subprocess.PIPE, stderr=subprocess.DEVNULL, text=True, check=True).stdout
    data = json.loads(exp)["data"][0]
    src = os.path.join(REPO, "src") + os.sep
    files = {}
    for f in data["files"]:
        name = f["filename"]
        if name.startswith(src):
            ln = f["summary"]["lines"]
            files[name[len(src):]] = {"lines": ln["count"], "executed": ln["covered"]}
    unreached = set()
    reached = set()
    for fn in data.get("functions", []):
        if not any(n.startswith(src) for n in fn.get("filenames", [])):
            continue
        rel = [n[len(src):] for n in fn["filenames"] if n.startswith(src)][0]
        if rel == "verif.rs":
            continue
        name = idents(fn["name"])
        if "::test::" in name or "::tests::" in name or name.endswith("::test") or "testnet" in rel:
            continue
        key = f"{rel}: {name}"
        (reached if fn["count"] > 0 else unreached).add(key)
    unreached -= reached  # generic instantiations: entered in at least one instance
    tot = sum(v["lines"] for k, v in files.items() if k != "verif.rs")
    ex = sum(v["executed"] for k, v in files.items() if k != "verif.rs")
    json.dump({"available": True, "streams": streams, "files": dict(sorted(files.items())),
               "lines_with_code": tot, "lines_executed": ex,
               "functions_never_entered": sorted(unreached)}, open(out_json, "w"), indent=1)
    print(f"source coverage of streams {streams}: {ex}/{tot} lines of /repo/src executed; {len(unreached)} functions never entered")
    return 0


if __name__ == "__main__":
    sys.exit(main())
