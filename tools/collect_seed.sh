#!/bin/bash
# usage: tools/collect_seed.sh <worktree> <seeded-id e.g. C04-f> <props...>
# copy a sub-agent's deliverables to seeded/<id>/, run the named quick checks against the change (applied to /repo
# and undone), print one line per check.  The worktree is left in place (remove it once verified).
set -u
cd /verif
wt=$1; id=$2; shift 2
mkdir -p seeded/$id && cp $wt/deliver/* seeded/$id/ 2>/dev/null
echo "== $id: files in patch: $(grep -c '^diff --git' seeded/$id/patch.diff)"
tools/try_mutant.sh seeded/$id/patch.diff quick "$@" 2>&1 | tail -$# | cut -c1-400
