#!/bin/bash
# usage: tools/collect_seed.sh <wt-suffix e.g. C04c> <seeded-id e.g. C04-c> <props...>
set -u
cd /verif
wt=/tmp/wt-$1; id=$2; shift 2
mkdir -p seeded/$id && cp $wt/SEEDED/* seeded/$id/ 2>/dev/null
cp $wt/tests/*demo* seeded/$id/ 2>/dev/null
echo "files in patch: $(grep -c '^diff --git' seeded/$id/patch.diff)"
tools/try_mutant.sh seeded/$id/patch.diff quick "$@" 2>&1 | tail -$# | cut -c1-330
git -C /repo worktree remove --force $wt
