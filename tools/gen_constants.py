#!/usr/bin/env python3
"""T1 translator: regenerate lean/MainlineModel/Gen/Constants.lean from /repo's working tree.

Fails closed: a constant that is not found exactly once is an error.  The model only uses these
names; the property theorems mention the literals of the property text, so a moved constant breaks
a proof obligation (`Constants.K = 20 := by decide`) at build time.
"""
import re, sys, os

REPO = os.environ.get("VERIF_REPO", "/repo")
OUT = os.path.join(os.path.dirname(os.path.abspath(__file__)), "..", "lean", "MainlineModel", "Gen", "Constants.lean")

def src(path):
    with open(os.path.join(REPO, path)) as f:
        s = f.read()
    # drop everything from the unit-test module on
    i = s.find("#[cfg(test)]\nmod test")
    return s if i < 0 else s[:i]

def arith(expr):
    expr = expr.strip().replace("_", "")
    if not re.fullmatch(r"[0-9a-fx+*\-/ ()<]+", expr):
        raise SystemExit(f"gen_constants: unsupported expression {expr!r}")
    return int(eval(expr, {"__builtins__": {}}))

def one(path, pattern, flags=0):
    s = src(path)
    m = re.findall(pattern, s, flags)
    if len(m) != 1:
        raise SystemExit(f"gen_constants: pattern {pattern!r} matched {len(m)} times in {path} (expected 1)")
    return m[0]

consts = []   # (lean name, lean type, lean value, origin)
def nat(name, path, pattern, conv=arith):
    v = conv(one(path, pattern))
    consts.append((name, "Nat", str(v), f"{path}"))
    return v

nat("ID_SIZE", "src/common/id.rs", r"pub const ID_SIZE: usize = ([^;]+);")
v = arith(one("src/common/id.rs", r"const IPV4_MASK: u32 = ([^;]+);"))
consts.append(("IPV4_MASK", "UInt32", str(v), "src/common/id.rs"))
nat("K", "src/common/routing_table.rs", r"pub const MAX_BUCKET_SIZE_K: usize = ([^;]+);")
nat("STALE_TIME_SECS", "src/common/node.rs", r"pub const STALE_TIME: Duration = Duration::from_secs\(([^)]+)\);")
nat("MIN_PING_BACKOFF_SECS", "src/common/node.rs", r"const MIN_PING_BACKOFF_INTERVAL: Duration = Duration::from_secs\(([^)]+)\);")
nat("TOKEN_ROTATE_SECS", "src/common/node.rs", r"pub const TOKEN_ROTATE_INTERVAL: Duration = Duration::from_secs\(([^)]+)\);")
nat("REFRESH_TABLE_SECS", "src/core.rs", r"pub const REFRESH_TABLE_INTERVAL: Duration = Duration::from_secs\(([^)]+)\);")
nat("PING_TABLE_SECS", "src/core.rs", r"pub const PING_TABLE_INTERVAL: Duration = Duration::from_secs\(([^)]+)\);")
nat("MAX_CACHED_ITERATIVE_QUERIES", "src/core.rs", r"pub const MAX_CACHED_ITERATIVE_QUERIES: usize = ([^;]+);")
nat("MAX_TIMESTAMP_TOLERANCE_US", "src/common/signed_announce.rs", r"const MAX_TIMESTAMP_TOLERANCE: u64 = ([^;]+);")
nat("MAX_INFO_HASHES", "src/core/server.rs", r"pub const MAX_INFO_HASHES: usize = ([^;]+);")
nat("MAX_PEERS", "src/core/server.rs", r"pub const MAX_PEERS: usize = ([^;]+);")
nat("MAX_VALUES", "src/core/server.rs", r"pub const MAX_VALUES: usize = ([^;]+);")
nat("SECRET_SIZE", "src/core/server/tokens.rs", r"const SECRET_SIZE: usize = ([^;]+);")
nat("TOKEN_SIZE", "src/core/server/tokens.rs", r"const TOKEN_SIZE: usize = ([^;]+);")
nat("MTU", "src/actor/socket.rs", r"const MTU: usize = ([^;]+);")
nat("MIN_REQUEST_TIMEOUT_MS", "src/actor/socket.rs", r"pub const MIN_REQUEST_TIMEOUT: Duration = Duration::from_millis\(([^)]+)\);")
# literal limits inside server.rs (value / salt sizes), sample sizes of the peer stores
lims = re.findall(r"if v\.len\(\) > (\d+)", src("src/core/server.rs"))
if len(lims) != 2 or lims[0] != lims[1]:
    raise SystemExit(f"gen_constants: expected two identical `v.len() > N` limits in server.rs, got {lims}")
consts.append(("MAX_VALUE_LEN", "Nat", lims[0], "src/core/server.rs"))
nat("MAX_SALT_LEN", "src/core/server.rs", r"if salt\.len\(\) > (\d+)")
nat("PEERS_SAMPLE", "src/core/server/peers.rs", r"let target_size = (\d+);")
nat("SIGNED_PEERS_SAMPLE", "src/core/server/signed_peers.rs", r"let target_size = (\d+);")
ver = one("src/core.rs", r"pub const VERSION: \[u8; 4\] = \[([^\]]+)\];")
ver = [int(x) for x in ver.split(",")]
consts.append(("VERSION", "List UInt8", "[" + ", ".join(map(str, ver)) + "]", "src/core.rs"))
# error codes used by the server, in source order
codes = re.findall(r"code: (\d+),", src("src/core/server.rs"))
consts.append(("SERVER_ERROR_CODES", "List Nat", "[" + ", ".join(codes) + "]", "src/core/server.rs"))
# order of the untagged response variants (first match wins when decoding)
internal = src("src/common/messages/internal.rs")
m = re.search(r"pub enum DHTResponseSpecific \{(.*?)\n\}", internal, re.S)
if not m:
    raise SystemExit("gen_constants: DHTResponseSpecific not found")
variants = re.findall(r"^    (\w+) \{", m.group(1), re.M)
consts.append(("RESPONSE_VARIANT_ORDER", "List String", "[" + ", ".join(f'"{v}"' for v in variants) + "]", "src/common/messages/internal.rs"))
# serde rename key names
renames = sorted(set(re.findall(r'rename = "([^"]+)"', internal)))
consts.append(("WIRE_RENAMES", "List String", "[" + ", ".join(f'"{v}"' for v in renames) + "]", "src/common/messages/internal.rs"))
# u8 cap in PutQuery::start (take(u8::MAX)) and tally widths
pq = src("src/core/put_query.rs")
m = re.findall(r"stored_at: (u\w+),", pq)
if len(m) != 1:
    raise SystemExit("gen_constants: stored_at field type not found")
width = {"u8": 8, "u16": 16, "u32": 32, "u64": 64, "usize": 64}[m[0]]
consts.append(("PUT_TALLY_BITS", "Nat", str(width), "src/core/put_query.rs"))
tk = one("src/core/put_query.rs", r"\.take\(([^)]+)\)")
tkv = {"u8::MAX as usize": 255, "u16::MAX as usize": 65535}.get(tk.strip())
if tkv is None:
    tkv = arith(tk)
consts.append(("PUT_TAKE_CLOSEST", "Nat", str(tkv), "src/core/put_query.rs"))

# ---- wire names: every serde field name / rename / tag / variant name of messages/internal.rs,
# as byte lists (the model's encoder and decoder use only these)
wire = set(re.findall(r'rename = "([^"]+)"', internal)) | set(re.findall(r'tag = "([^"]+)"', internal))
for m in re.finditer(r"pub struct \w+ \{(.*?)\n\}", internal, re.S):
    body = m.group(1)
    for fm in re.finditer(r"((?:\s*#\[[^\]]*\]\s*)*)\s*pub (\w+):", body):
        attrs, fname = fm.group(1), fm.group(2)
        if "rename" not in attrs:
            wire.add(fname)
wl = ["/-  GENERATED by tools/gen_constants.py from src/common/messages/internal.rs — do not edit.  -/",
      "namespace Mainline.WireNames", ""]
for w in sorted(wire):
    wl.append(f"/-- \"{w}\" -/")
    wl.append(f"def n_{w} : List UInt8 := [{', '.join(str(b) for b in w.encode())}]")
wl.append("")
wl.append("end Mainline.WireNames")
wtext = "\n".join(wl) + "\n"
WOUT = os.path.join(os.path.dirname(OUT), "WireNames.lean")
if (open(WOUT).read() if os.path.exists(WOUT) else None) != wtext:
    with open(WOUT, "w") as f:
        f.write(wtext)
    print("gen_constants: WireNames.lean regenerated (changed)")

lines = ["/-  GENERATED by tools/gen_constants.py from /repo's working tree — do not edit.  -/",
         "namespace Mainline.Constants", ""]
for name, ty, val, origin in consts:
    lines.append(f"/-- from `{origin}` -/")
    if ty in ("Nat", "UInt32"):
        lines.append(f"@[reducible] def {name} : {ty} := {val}")
    else:
        lines.append(f"def {name} : {ty} := {val}")
    lines.append("")
lines.append("end Mainline.Constants")
text = "\n".join(lines) + "\n"
os.makedirs(os.path.dirname(OUT), exist_ok=True)
old = open(OUT).read() if os.path.exists(OUT) else None
if old != text:
    with open(OUT, "w") as f:
        f.write(text)
    print("gen_constants: Constants.lean regenerated (changed)")
else:
    print("gen_constants: Constants.lean up to date")
