#!/usr/bin/env python3
"""usage: tools/diff_stream.py <dir>  — run the model driver on <dir>/ops.txt and print the first disagreements and the violations"""
import json, subprocess, sys
d = sys.argv[1]
with open(f"{d}/ops.txt") as fin, open(f"{d}/model.out", "w") as fout:
    subprocess.run(["/verif/lean/.lake/build/bin/mvdriver"], stdin=fin, stdout=fout, check=False)
ops = open(f"{d}/ops.txt").read().split("\n"); imp = open(f"{d}/impl.out").read().split("\n"); mod = open(f"{d}/model.out").read().split("\n")
print("lines", len(ops), len(imp), len(mod))
n = 0; case = None
for i, (a, b) in enumerate(zip(imp, mod)):
    if ops[i].startswith("case"): case = (i, ops[i])
    if a != b:
        print(case); print(i, ops[i][:200]); print(" impl ", a[:500]); print(" model", b[:500]); n += 1
        if n >= 3: break
vs = json.load(open(f"{d}/stats.json"))["violations"]
print("violations", len(vs))
for v in vs[:8]: print(v["property"], v["key"], v["what"][:300])
