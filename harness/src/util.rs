//! Shared helpers: PRNG, hex, case/ops writers, statistics, independent reference hashes.
use std::collections::BTreeMap;
use std::fmt::Write as _;
use std::fs;
use std::io::Write;
use std::net::{Ipv4Addr, SocketAddrV4};
use std::path::{Path, PathBuf};

// ------------------------------------------------------------------ PRNG (splitmix64)
#[derive(Clone)]
pub struct Rng(pub u64);
impl Rng {
    pub fn new(seed: u64) -> Self {
        Rng(seed.wrapping_mul(0x9E3779B97F4A7C15) ^ 0xD1B54A32D192ED03)
    }
    pub fn next(&mut self) -> u64 {
        self.0 = self.0.wrapping_add(0x9E3779B97F4A7C15);
        let mut z = self.0;
        z = (z ^ (z >> 30)).wrapping_mul(0xBF58476D1CE4E5B9);
        z = (z ^ (z >> 27)).wrapping_mul(0x94D049BB133111EB);
        z ^ (z >> 31)
    }
    pub fn below(&mut self, n: u64) -> u64 {
        if n == 0 {
            0
        } else {
            self.next() % n
        }
    }
    pub fn range(&mut self, lo: u64, hi_incl: u64) -> u64 {
        lo + self.below(hi_incl - lo + 1)
    }
    pub fn chance(&mut self, num: u64, den: u64) -> bool {
        self.below(den) < num
    }
    pub fn bytes(&mut self, n: usize) -> Vec<u8> {
        (0..n).map(|_| self.next() as u8).collect()
    }
    pub fn pick<'a, T>(&mut self, xs: &'a [T]) -> &'a T {
        &xs[self.below(xs.len() as u64) as usize]
    }
    pub fn shuffle<T>(&mut self, xs: &mut [T]) {
        for i in (1..xs.len()).rev() {
            let j = self.below(i as u64 + 1) as usize;
            xs.swap(i, j);
        }
    }
    pub fn id20(&mut self) -> [u8; 20] {
        let mut b = [0u8; 20];
        for x in b.iter_mut() {
            *x = self.next() as u8;
        }
        b
    }
}

// ------------------------------------------------------------------ hex
pub fn hex(bytes: &[u8]) -> String {
    let mut s = String::with_capacity(bytes.len() * 2);
    for b in bytes {
        let _ = write!(s, "{b:02x}");
    }
    s
}
/// Hex, or "-" for the empty string (so that a token never vanishes from a line).
pub fn hexz(bytes: &[u8]) -> String {
    if bytes.is_empty() {
        "-".to_string()
    } else {
        hex(bytes)
    }
}
pub fn unhex(s: &str) -> Vec<u8> {
    if s == "-" {
        return vec![];
    }
    (0..s.len() / 2)
        .map(|i| u8::from_str_radix(&s[2 * i..2 * i + 2], 16).expect("hex"))
        .collect()
}
pub fn addr_s(a: &SocketAddrV4) -> String {
    format!("{}:{}", u32::from(*a.ip()), a.port())
}
pub fn parse_addr(s: &str) -> SocketAddrV4 {
    let (ip, port) = s.split_once(':').expect("addr");
    SocketAddrV4::new(
        Ipv4Addr::from(ip.parse::<u32>().expect("ip")),
        port.parse().expect("port"),
    )
}

// ------------------------------------------------------------------ output of one stream
/// Collects the op lines, the implementation's output lines, statistics and oracle violations.
pub struct Out {
    pub dir: PathBuf,
    ops: Vec<String>,
    outs: Vec<String>,
    pub hist: BTreeMap<String, u64>,
    pub violations: Vec<Violation>,
    pub samples: Vec<String>,
    case_start: usize,
    pub cases: u64,
    pub distinct: std::collections::HashSet<u64>,
    /// ops of this stream do not depend on earlier ops: a violation replays as the single op
    pub stateless: bool,
    current_op: Option<String>,
    /// the property a panic inside an op of this stream is charged to (besides C05)
    pub home: &'static str,
}
pub struct Violation {
    pub property: String,
    pub what: String,
    pub key: String,
    pub replay: Vec<String>,
}
impl Out {
    pub fn new(dir: &Path) -> Self {
        fs::create_dir_all(dir).expect("mkdir");
        Out {
            dir: dir.to_path_buf(),
            ops: vec![],
            outs: vec![],
            hist: BTreeMap::new(),
            violations: vec![],
            samples: vec![],
            case_start: 0,
            cases: 0,
            distinct: Default::default(),
            stateless: false,
            current_op: None,
            home: "C05",
        }
    }
    /// Start a new case (a self-contained op sequence; the model state is reset by the driver).
    pub fn case(&mut self, name: &str) {
        self.end_case();
        self.case_start = self.ops.len();
        self.cases += 1;
        self.ops.push(format!("case {} {}", self.cases, name));
        self.outs.push(format!("case {}", self.cases));
    }
    /// Start a case and reset the stream's state with the case arguments.
    pub fn begin<S: Stream + ?Sized>(&mut self, s: &mut S, args: &str) {
        if std::env::var("MVH_TRACE").is_ok() {
            eprintln!("mvh: case {} after {} ops: {args}", self.cases, self.ops.len());
        }
        self.case(args);
        let toks: Vec<&str> = args.split(' ').filter(|t| !t.is_empty()).collect();
        s.reset(&toks, self);
    }
    /// Execute one op line on the implementation through the stream's interpreter and record it.
    pub fn run<S: Stream + ?Sized>(&mut self, s: &mut S, op: String) -> String {
        self.current_op = Some(op.clone());
        // a panic of the implementation inside one op is a finding, not the end of the run
        let r = match std::panic::catch_unwind(std::panic::AssertUnwindSafe(|| s.exec(&op, &mut *self))) {
            Ok(r) => r,
            Err(_) => {
                let msg = LAST_PANIC.lock().map(|l| l.replace('\n', " ")).unwrap_or_default();
                let home = self.home;
                self.violation("C05", "panic-in-op", format!("op `{}` panicked: {msg}", op.chars().take(200).collect::<String>()));
                if home != "C05" {
                    self.violation(home, "panic-in-op", format!("op `{}` panicked: {msg}", op.chars().take(200).collect::<String>()));
                }
                "panic".to_string()
            }
        };
        self.current_op = None;
        self.op(op, r.clone());
        r
    }
    /// One op line and the implementation's canonical answer to it.
    pub fn op(&mut self, op: String, out: String) {
        debug_assert!(!op.contains('\n') && !out.contains('\n'));
        self.ops.push(op);
        self.outs.push(out);
    }
    fn end_case(&mut self) {}
    pub fn count(&mut self, key: &str) {
        *self.hist.entry(key.to_string()).or_insert(0) += 1;
    }
    pub fn count_n(&mut self, key: &str, n: u64) {
        *self.hist.entry(key.to_string()).or_insert(0) += n;
    }
    /// Record that this case was non-trivial and distinct (hash of its content).
    pub fn mark_distinct(&mut self, h: u64) {
        self.distinct.insert(h);
    }
    pub fn case_lines(&self) -> Vec<String> {
        self.ops[self.case_start..].to_vec()
    }
    /// The implementation itself violates the property's oracle on the current case.
    /// `key` identifies the finding (for known_findings.json matching).
    pub fn violation(&mut self, property: &str, key: &str, what: String) {
        let same = self.violations.iter().filter(|v| v.property == property && v.key == key).count();
        if same < 3 && self.violations.len() < 200 {
            let mut replay = self.case_lines();
            if let Some(op) = &self.current_op {
                if self.stateless {
                    replay.truncate(1);
                }
                replay.push(op.clone());
            }
            self.violations.push(Violation {
                property: property.to_string(),
                what,
                key: key.to_string(),
                replay,
            });
        }
        self.count(&format!("VIOLATION:{property}:{key}"));
    }
    pub fn sample(&mut self, s: String) {
        if self.samples.len() < 6 {
            self.samples.push(s);
        }
    }
    pub fn finish(self, stream: &str) {
        let mut f = fs::File::create(self.dir.join("ops.txt")).expect("ops");
        for l in &self.ops {
            writeln!(f, "{l}").expect("w");
        }
        let mut f = fs::File::create(self.dir.join("impl.out")).expect("out");
        for l in &self.outs {
            writeln!(f, "{l}").expect("w");
        }
        // stats.json (hand-written JSON; strings are escaped minimally)
        let esc = |s: &str| {
            let mut o = String::with_capacity(s.len());
            for c in s.chars() {
                match c {
                    '\\' => o.push_str("\\\\"),
                    '"' => o.push_str("\\\""),
                    '\n' => o.push_str("\\n"),
                    '\t' => o.push(' '),
                    c if (c as u32) < 0x20 || c == '\u{7f}' => {
                        let _ = write!(o, "\\u{:04x}", c as u32);
                    }
                    c => o.push(c),
                }
            }
            o
        };
        let mut j = String::new();
        let _ = write!(j, "{{\"stream\":\"{}\",\"cases\":{},\"ops\":{},\"distinct_nontrivial\":{},\"histogram\":{{", esc(stream), self.cases, self.ops.len(), self.distinct.len());
        let mut first = true;
        for (k, v) in &self.hist {
            if !first {
                j.push(',');
            }
            first = false;
            let _ = write!(j, "\"{}\":{}", esc(k), v);
        }
        j.push_str("},\"samples\":[");
        for (i, s) in self.samples.iter().enumerate() {
            if i > 0 {
                j.push(',');
            }
            let _ = write!(j, "\"{}\"", esc(s));
        }
        j.push_str("],\"violations\":[");
        for (i, v) in self.violations.iter().enumerate() {
            if i > 0 {
                j.push(',');
            }
            let _ = write!(
                j,
                "{{\"property\":\"{}\",\"key\":\"{}\",\"what\":\"{}\",\"replay\":[",
                esc(&v.property),
                esc(&v.key),
                esc(&v.what)
            );
            for (k, l) in v.replay.iter().enumerate() {
                if k > 0 {
                    j.push(',');
                }
                let _ = write!(j, "\"{}\"", esc(l));
            }
            j.push_str("]}");
        }
        j.push_str("]}");
        fs::write(self.dir.join("stats.json"), j).expect("stats");
    }
}

pub fn fnv(data: &[u8]) -> u64 {
    let mut h: u64 = 0xcbf29ce484222325;
    for b in data {
        h ^= *b as u64;
        h = h.wrapping_mul(0x100000001b3);
    }
    h
}

// ------------------------------------------------------------------ independent references
/// MSB-first (non-reflected) bit-serial CRC-32C, polynomial 0x1EDC6F41; independent of the
/// `crc` crate and of the model's reflected formulation.
pub fn crc32c_ref(data: &[u8]) -> u32 {
    fn rev8(b: u8) -> u8 {
        b.reverse_bits()
    }
    let mut reg: u32 = 0xFFFF_FFFF;
    for &byte in data {
        let b = rev8(byte); // refin
        for i in (0..8).rev() {
            let bit = ((b >> i) & 1) as u32;
            let top = (reg >> 31) & 1;
            reg <<= 1;
            if top ^ bit == 1 {
                reg ^= 0x1EDC6F41;
            }
        }
    }
    (reg.reverse_bits()) ^ 0xFFFF_FFFF // refout + xorout
}

/// Independent SHA-1.
pub fn sha1_ref(data: &[u8]) -> [u8; 20] {
    let mut h: [u32; 5] = [0x67452301, 0xEFCDAB89, 0x98BADCFE, 0x10325476, 0xC3D2E1F0];
    let mut msg = data.to_vec();
    let bitlen = (data.len() as u64) * 8;
    msg.push(0x80);
    while msg.len() % 64 != 56 {
        msg.push(0);
    }
    msg.extend_from_slice(&bitlen.to_be_bytes());
    for chunk in msg.chunks(64) {
        let mut w = [0u32; 80];
        for i in 0..16 {
            w[i] = u32::from_be_bytes([chunk[4 * i], chunk[4 * i + 1], chunk[4 * i + 2], chunk[4 * i + 3]]);
        }
        for i in 16..80 {
            w[i] = (w[i - 3] ^ w[i - 8] ^ w[i - 14] ^ w[i - 16]).rotate_left(1);
        }
        let (mut a, mut b, mut c, mut d, mut e) = (h[0], h[1], h[2], h[3], h[4]);
        for (i, wi) in w.iter().enumerate() {
            let (f, k) = match i {
                0..=19 => ((b & c) | (!b & d), 0x5A827999u32),
                20..=39 => (b ^ c ^ d, 0x6ED9EBA1),
                40..=59 => ((b & c) | (b & d) | (c & d), 0x8F1BBCDC),
                _ => (b ^ c ^ d, 0xCA62C1D6),
            };
            let t = a
                .rotate_left(5)
                .wrapping_add(f)
                .wrapping_add(e)
                .wrapping_add(k)
                .wrapping_add(*wi);
            e = d;
            d = c;
            c = b.rotate_left(30);
            b = a;
            a = t;
        }
        h[0] = h[0].wrapping_add(a);
        h[1] = h[1].wrapping_add(b);
        h[2] = h[2].wrapping_add(c);
        h[3] = h[3].wrapping_add(d);
        h[4] = h[4].wrapping_add(e);
    }
    let mut out = [0u8; 20];
    for i in 0..5 {
        out[4 * i..4 * i + 4].copy_from_slice(&h[i].to_be_bytes());
    }
    out
}

/// Run a closure under catch_unwind with the panic message suppressed; returns Err(msg) on panic.
pub fn guarded<T>(f: impl FnOnce() -> T + std::panic::UnwindSafe) -> Result<T, String> {
    match std::panic::catch_unwind(f) {
        Ok(v) => Ok(v),
        Err(e) => Err(if let Some(s) = e.downcast_ref::<&str>() {
            s.to_string()
        } else if let Some(s) = e.downcast_ref::<String>() {
            s.clone()
        } else {
            "panic".to_string()
        }),
    }
}

// ------------------------------------------------------------------ stream interpreter
/// A stream is an interpreter of op lines against the real implementation (so that generated
/// cases, corpus files and replays all run through the same code) plus a generator.
pub trait Stream {
    /// `case <n> <args>` line: reset all state.
    fn reset(&mut self, args: &[&str], out: &mut Out);
    /// Execute one op line, return the canonical answer. Property oracles are evaluated here.
    fn exec(&mut self, op: &str, out: &mut Out) -> String;
}

/// Replay an ops file (corpus entry, minimisation candidate or VIOLATION replay).
pub fn replay_file<S: Stream>(s: &mut S, out: &mut Out, path: &str) {
    let text = fs::read_to_string(path).expect("replay file");
    for line in text.lines() {
        let line = line.trim_end();
        if line.is_empty() || line.starts_with('#') {
            continue;
        }
        let toks: Vec<&str> = line.split(' ').collect();
        if toks[0] == "case" {
            let name = if toks.len() > 2 { toks[2..].join(" ") } else { String::new() };
            out.case(&name);
            let args: Vec<&str> = toks.iter().skip(2).cloned().collect();
            s.reset(&args, out);
        } else {
            out.run(s, line.to_string());
        }
    }
}

// ------------------------------------------------------------------ minimal executor
/// Poll a future to completion with a no-op waker (the harness drives the other side itself).
pub fn block_on<F: std::future::Future>(fut: F) -> F::Output {
    use std::task::{Context, Poll, RawWaker, RawWakerVTable, Waker};
    fn noop(_: *const ()) {}
    fn clone(_: *const ()) -> RawWaker {
        RawWaker::new(std::ptr::null(), &VTABLE)
    }
    static VTABLE: RawWakerVTable = RawWakerVTable::new(clone, noop, noop, noop);
    let waker = unsafe { Waker::from_raw(RawWaker::new(std::ptr::null(), &VTABLE)) };
    let mut cx = Context::from_waker(&waker);
    let mut fut = std::pin::pin!(fut);
    loop {
        if let Poll::Ready(v) = fut.as_mut().poll(&mut cx) {
            return v;
        }
        std::thread::yield_now();
    }
}

/// message of the last panic caught in a thread other than the harness's main thread (the actor)
pub static LAST_PANIC: std::sync::Mutex<String> = std::sync::Mutex::new(String::new());
