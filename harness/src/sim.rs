//! Deterministic whole-node simulator: real `actor::run` threads in lockstep over the in-memory UDP
//! and the virtual clock (hooks H1–H5).  The harness owns the schedule: which node runs its next
//! loop iteration, which datagram it receives, and when time passes.
use crate::util::*;
use dht::verif::export::*;
use dht::verif::{self, Msg, Snapshot, StepOutcome};
use std::collections::{HashMap, HashSet};
use std::future::Future;
use std::net::{Ipv4Addr, SocketAddrV4};
use std::pin::Pin;
use std::task::{Context, Poll, RawWaker, RawWakerVTable, Waker};
use std::time::Duration;

pub const MS: u64 = 1_000_000;
pub const SEC: u64 = 1_000_000_000;

#[derive(Clone, Debug)]
pub struct Flight {
    pub from: SocketAddrV4,
    pub to: SocketAddrV4,
    pub bytes: Vec<u8>,
    pub sent_at: u64,
    pub deliver_at: u64,
    pub seq: u64,
}

#[derive(Clone, Copy, Debug, PartialEq)]
pub enum Fate {
    Deliver,
    Drop,
    Duplicate,
    Delay(u64),
}

pub struct SimNode {
    pub addr: SocketAddrV4,
    pub dht: Dht,
    pub alive: bool,
    pub panicked: bool,
    pub stuck: bool,
    /// inbound datagrams are dropped unless this node has sent to the source address before
    pub natted: bool,
    pub contacted: HashSet<SocketAddrV4>,
    pub server_mode_cfg: bool,
}

#[derive(Clone, Debug)]
pub struct TraceEvent {
    pub time: u64,
    pub from: SocketAddrV4,
    pub to: SocketAddrV4,
    pub bytes: Vec<u8>,
    /// Sent / Delivered / Dropped
    pub kind: u8,
}

pub struct Sim {
    pub nodes: Vec<SimNode>,
    pub by_addr: HashMap<SocketAddrV4, usize>,
    pub flight: Vec<Flight>,
    pub latency: u64,
    pub rng: Rng,
    pub trace: Vec<TraceEvent>,
    pub record_trace: bool,
    /// raw endpoints owned by the harness: datagrams sent to them are collected here
    pub raw_inbox: HashMap<SocketAddrV4, Vec<(SocketAddrV4, Vec<u8>, u64)>>,
    pub policy: Option<Box<dyn FnMut(&Flight) -> Fate>>,
    seq: u64,
    pub steps: u64,
}

fn noop_waker() -> Waker {
    fn noop(_: *const ()) {}
    fn clone(_: *const ()) -> RawWaker {
        RawWaker::new(std::ptr::null(), &VTABLE)
    }
    static VTABLE: RawWakerVTable = RawWakerVTable::new(clone, noop, noop, noop);
    unsafe { Waker::from_raw(RawWaker::new(std::ptr::null(), &VTABLE)) }
}

/// A future polled by the scheduler between steps.
pub struct Pending<T> {
    fut: Option<Pin<Box<dyn Future<Output = T>>>>,
    pub result: Option<T>,
    pub started_at: u64,
    pub finished_at: Option<u64>,
}
impl<T> Pending<T> {
    pub fn new(fut: impl Future<Output = T> + 'static) -> Self {
        Pending { fut: Some(Box::pin(fut)), result: None, started_at: verif::now_ns(), finished_at: None }
    }
    pub fn poll(&mut self) -> bool {
        if let Some(f) = self.fut.as_mut() {
            let w = noop_waker();
            let mut cx = Context::from_waker(&w);
            if let Poll::Ready(v) = f.as_mut().poll(&mut cx) {
                self.result = Some(v);
                self.finished_at = Some(verif::now_ns());
                self.fut = None;
            }
        }
        self.result.is_some()
    }
    pub fn done(&self) -> bool {
        self.result.is_some()
    }
}

impl Sim {
    pub fn new(seed: u64, t0: u64) -> Self {
        verif::reset_net();
        verif::set_now_ns(t0);
        Sim {
            nodes: vec![],
            by_addr: HashMap::new(),
            flight: vec![],
            latency: 5 * MS,
            rng: Rng::new(seed),
            trace: vec![],
            record_trace: true,
            raw_inbox: HashMap::new(),
            policy: None,
            seq: 0,
            steps: 0,
        }
    }

    pub fn now(&self) -> u64 {
        verif::now_ns()
    }

    /// Start a real node (its actor thread parks in the simulated `recv_from`).
    pub fn add_node(&mut self, ip: Ipv4Addr, port: u16, server_mode: bool, bootstrap: &[SocketAddrV4], public_ip: Option<Ipv4Addr>, settings: Option<ServerSettings>) -> usize {
        let seed = self.rng.next() | 1;
        verif::prepare_bind(ip, seed, false);
        let cfg = Config {
            bootstrap: bootstrap.iter().map(|a| a.to_string()).collect(),
            port: Some(port),
            server_settings: settings.unwrap_or_default(),
            server_mode,
            public_ip,
        };
        let dht = Dht::new(cfg).expect("sim node");
        let addr = SocketAddrV4::new(ip, port);
        assert_eq!(verif::wait_parked(addr), StepOutcome::Parked);
        self.route_outbox(); // datagrams of the first (bootstrap) tick
        let idx = self.nodes.len();
        self.nodes.push(SimNode { addr, dht, alive: true, panicked: false, stuck: false, natted: false, contacted: HashSet::new(), server_mode_cfg: server_mode });
        self.by_addr.insert(addr, idx);
        // the node's very first tick already ran inside `wait_parked`; attribute its sends
        let sent: Vec<SocketAddrV4> = self.flight.iter().filter(|f| f.from == addr).map(|f| f.to).collect();
        self.nodes[idx].contacted.extend(sent);
        idx
    }

    pub fn add_raw(&mut self, addr: SocketAddrV4) {
        self.raw_inbox.insert(addr, vec![]);
    }

    /// Inject a datagram from a harness-owned endpoint.
    pub fn inject(&mut self, from: SocketAddrV4, to: SocketAddrV4, bytes: Vec<u8>, delay: u64) {
        let now = self.now();
        self.seq += 1;
        if self.record_trace {
            self.trace.push(TraceEvent { time: now, from, to, bytes: bytes.clone(), kind: 0 });
        }
        self.flight.push(Flight { from, to, bytes, sent_at: now, deliver_at: now + delay, seq: self.seq });
    }

    fn route_outbox(&mut self) {
        let now = self.now();
        for (from, to, bytes) in verif::drain_outbox() {
            if self.record_trace {
                self.trace.push(TraceEvent { time: now, from, to, bytes: bytes.clone(), kind: 0 });
            }
            if let Some(i) = self.by_addr.get(&from) {
                self.nodes[*i].contacted.insert(to);
            }
            if let Some(inbox) = self.raw_inbox.get_mut(&to) {
                inbox.push((from, bytes, now));
                continue;
            }
            self.seq += 1;
            let f = Flight { from, to, bytes, sent_at: now, deliver_at: now + self.latency, seq: self.seq };
            let fate = match self.policy.as_mut() {
                Some(p) => p(&f),
                None => Fate::Deliver,
            };
            match fate {
                Fate::Deliver => self.flight.push(f),
                Fate::Drop => {
                    if self.record_trace {
                        self.trace.push(TraceEvent { time: now, from: f.from, to: f.to, bytes: f.bytes, kind: 2 });
                    }
                }
                Fate::Duplicate => {
                    let mut g = f.clone();
                    self.seq += 1;
                    g.seq = self.seq;
                    g.deliver_at += MS;
                    self.flight.push(f);
                    self.flight.push(g);
                }
                Fate::Delay(d) => {
                    let mut g = f;
                    g.deliver_at += d;
                    self.flight.push(g);
                }
            }
        }
    }

    /// One loop iteration of node `i` (API message pick-up, then `tick` up to the next `recv_from`).
    pub fn step(&mut self, i: usize, datagram: Option<(Vec<u8>, SocketAddrV4)>) {
        if !self.nodes[i].alive {
            return;
        }
        self.steps += 1;
        if let Some((b, from)) = &datagram {
            if self.record_trace {
                self.trace.push(TraceEvent { time: self.now(), from: *from, to: self.nodes[i].addr, bytes: b.clone(), kind: 1 });
            }
        }
        match verif::step(self.nodes[i].addr, datagram) {
            StepOutcome::Parked => {}
            StepOutcome::Panicked => {
                self.nodes[i].alive = false;
                self.nodes[i].panicked = true;
            }
            StepOutcome::Dead => self.nodes[i].alive = false,
            StepOutcome::Stuck => {
                self.nodes[i].alive = false;
                self.nodes[i].stuck = true;
            }
        }
        self.route_outbox();
    }

    /// Deliver everything that is due, give every live node one idle iteration, advance the clock.
    pub fn round(&mut self, dt: u64) {
        let now = self.now();
        let mut due: Vec<Flight> = vec![];
        let mut rest: Vec<Flight> = vec![];
        for f in self.flight.drain(..) {
            if f.deliver_at <= now {
                due.push(f)
            } else {
                rest.push(f)
            }
        }
        self.flight = rest;
        due.sort_by_key(|f| (f.deliver_at, f.seq));
        for f in due {
            match self.by_addr.get(&f.to).copied() {
                Some(i) if self.nodes[i].alive => {
                    if self.nodes[i].natted && !self.nodes[i].contacted.contains(&f.from) {
                        if self.record_trace {
                            self.trace.push(TraceEvent { time: now, from: f.from, to: f.to, bytes: f.bytes, kind: 2 });
                        }
                        continue;
                    }
                    self.step(i, Some((f.bytes, f.from)));
                }
                _ => {
                    if self.record_trace {
                        self.trace.push(TraceEvent { time: now, from: f.from, to: f.to, bytes: f.bytes, kind: 2 });
                    }
                }
            }
        }
        for i in 0..self.nodes.len() {
            self.step(i, None);
        }
        verif::advance(Duration::from_nanos(dt));
    }

    /// Run rounds of `dt` for `total` ns.
    pub fn run(&mut self, total: u64, dt: u64) {
        let end = self.now() + total;
        while self.now() < end {
            self.round(dt);
        }
    }

    /// Run until `cond` holds or `limit` ns passed; returns whether it held.
    pub fn run_until(&mut self, limit: u64, dt: u64, mut cond: impl FnMut(&mut Sim) -> bool) -> bool {
        let end = self.now() + limit;
        loop {
            if cond(self) {
                return true;
            }
            if self.now() >= end {
                return false;
            }
            self.round(dt);
        }
    }

    pub fn crash(&mut self, i: usize) {
        self.nodes[i].alive = false;
    }

    pub fn snapshot(&mut self, i: usize) -> Option<Snapshot> {
        if !self.nodes[i].alive {
            return None;
        }
        let rx = verif::snapshot_via(&self.nodes[i].dht);
        self.step(i, None);
        rx.try_recv().ok()
    }

    pub fn info(&mut self, i: usize) -> Option<Info> {
        if !self.nodes[i].alive {
            return None;
        }
        let d = self.nodes[i].dht.clone().as_async();
        let mut p = Pending::new(async move { d.info().await });
        self.step(i, None);
        p.poll();
        p.result
    }

    pub fn any_panicked(&self) -> Option<usize> {
        self.nodes.iter().position(|n| n.panicked)
    }

    pub fn decode(bytes: &[u8]) -> Option<Msg> {
        Msg::from_bytes(bytes).ok()
    }
}

impl Drop for Sim {
    fn drop(&mut self) {
        // let every actor thread observe the dropped handle and exit
        let addrs: Vec<(SocketAddrV4, bool)> = self.nodes.iter().map(|n| (n.addr, n.alive || !n.panicked)).collect();
        let nodes = std::mem::take(&mut self.nodes);
        drop(nodes);
        for (a, _) in addrs {
            for _ in 0..3 {
                if verif::step(a, None) != StepOutcome::Parked {
                    break;
                }
            }
        }
        verif::drain_outbox();
    }
}

pub fn msg_summary(bytes: &[u8]) -> String {
    match Msg::from_bytes(bytes) {
        Ok(m) => crate::streams::codec::render_msg(&m),
        Err(e) => format!("undecodable({e})"),
    }
}
