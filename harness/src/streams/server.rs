//! `server` stream (C03, C04, C15, C11 reply clause, C20 capacities): `Server::handle_request`
//! driven directly, with the virtual clock and the seeded random stream.
//!
//! The oracle is a reference server written from the property text: tokens are opaque values
//! bound to (ip, rotation epoch); a write is accepted iff token valid and payload valid; BEP44
//! seq / cas rules; LRU stores with the configured capacities.  It never looks at the Lean model.
use crate::streams::closest::{mk_node, nodes_s};
use crate::util::*;
use dht::verif::export::*;
use dht::SigningKey;
use ed25519_dalek::{Signature, Signer, Verifier, VerifyingKey};
use std::collections::HashMap;
use std::net::{Ipv4Addr, SocketAddrV4};
use std::time::Duration;

const ROTATE_NS: u64 = 300 * 1_000_000_000;

#[derive(Debug, Clone)]
enum HFilter {
    All,
    DenyIp(Ipv4Addr),
    DenyPut,
}
impl RequestFilter for HFilter {
    fn allow_request(&self, request: &dht::RequestSpecific, from: SocketAddrV4) -> bool {
        match self {
            HFilter::All => true,
            HFilter::DenyIp(ip) => from.ip() != ip,
            HFilter::DenyPut => !matches!(request.request_type, RequestTypeSpecific::Put(_)),
        }
    }
}

// ---------------------------------------------------------------- reference LRU
#[derive(Clone)]
struct RefLru<K: PartialEq + Clone, V: Clone> {
    cap: usize,
    items: Vec<(K, V)>, // most recently used first
}
impl<K: PartialEq + Clone, V: Clone> RefLru<K, V> {
    fn new(cap: usize) -> Self {
        RefLru { cap, items: vec![] }
    }
    fn get(&mut self, k: &K) -> Option<V> {
        let p = self.items.iter().position(|(kk, _)| kk == k)?;
        let it = self.items.remove(p);
        self.items.insert(0, it.clone());
        Some(it.1)
    }
    fn get_mut(&mut self, k: &K) -> Option<&mut V> {
        let p = self.items.iter().position(|(kk, _)| kk == k)?;
        let it = self.items.remove(p);
        self.items.insert(0, it);
        Some(&mut self.items[0].1)
    }
    fn put(&mut self, k: K, v: V) {
        if let Some(p) = self.items.iter().position(|(kk, _)| *kk == k) {
            self.items.remove(p);
        } else if self.items.len() >= self.cap {
            self.items.pop();
        }
        self.items.insert(0, (k, v));
    }
    fn len(&self) -> usize {
        self.items.len()
    }
}

#[derive(Clone, PartialEq, Debug)]
struct RefItem {
    k: [u8; 32],
    seq: i64,
    v: Vec<u8>,
    sig: [u8; 64],
}

struct RefServer {
    epoch: u64,
    last_rot: u64,
    issued: HashMap<(Ipv4Addr, Vec<u8>), u64>,
    imm: RefLru<[u8; 20], Vec<u8>>,
    mutable: RefLru<[u8; 20], RefItem>,
    peers: RefLru<[u8; 20], RefLru<[u8; 20], SocketAddrV4>>,
    signed: RefLru<[u8; 20], RefLru<[u8; 32], ([u8; 32], u64, [u8; 64])>>,
    max_peers: usize,
}

fn verify(k: &[u8; 32], msg: &[u8], sig: &[u8; 64]) -> bool {
    let Ok(vk) = VerifyingKey::try_from(&k[..]) else { return false };
    let Ok(s) = Signature::from_slice(sig) else { return false };
    vk.verify(msg, &s).is_ok()
}
pub fn signable_mutable(seq: i64, v: &[u8], salt: Option<&[u8]>) -> Vec<u8> {
    let mut s = vec![];
    if let Some(salt) = salt {
        s.extend(format!("4:salt{}:", salt.len()).into_bytes());
        s.extend(salt);
    }
    s.extend(format!("3:seqi{}e1:v{}:", seq, v.len()).into_bytes());
    s.extend(v);
    s
}
pub fn signable_announce(ih: &[u8; 20], t: u64) -> Vec<u8> {
    let mut s = ih.to_vec();
    s.extend(t.to_be_bytes());
    s
}

fn arr<const N: usize>(v: &[u8]) -> [u8; N] {
    let mut a = [0u8; N];
    a.copy_from_slice(v);
    a
}

pub struct ServerStream {
    server: Server,
    rt: RoutingTable,
    srt: RoutingTable,
    own: [u8; 20],
    t0: u64,
    filter: HFilter,
    reference: RefServer,
    tokens: Option<Tokens>,
    /// (ip, token) pairs `tok gen` has issued in this case
    issued_direct: HashMap<(std::net::Ipv4Addr, Vec<u8>), u64>,
    /// number of `tok rotate` ops in this case
    direct_epoch: u64,
}

impl ServerStream {
    pub fn new() -> Self {
        let id0 = Id::from_bytes([0u8; 20]).expect("id");
        ServerStream {
            server: Server::new(ServerSettings::default()),
            rt: RoutingTable::new(id0),
            srt: RoutingTable::new(id0),
            own: [0; 20],
            t0: 0,
            filter: HFilter::All,
            reference: RefServer { epoch: 0, last_rot: 0, issued: HashMap::new(), imm: RefLru::new(1), mutable: RefLru::new(1), peers: RefLru::new(1), signed: RefLru::new(1), max_peers: 1 },
            tokens: None,
            issued_direct: Default::default(),
            direct_epoch: 0,
        }
    }

    /// expected verdict of a put from the property text: Ok, or the set of admissible error codes
    fn expected_put(&mut self, from: SocketAddrV4, token: &[u8], put: &PutRequestSpecific, now: u64) -> Result<(), (Vec<i32>, bool)> {
        let mut bad: Vec<i32> = vec![];
        let tok_ok = self
            .reference
            .issued
            .get(&(*from.ip(), token.to_vec()))
            .map(|e| self.reference.epoch - e <= 1)
            .unwrap_or(false);
        if !tok_ok {
            bad.push(203);
        }
        match put {
            PutRequestSpecific::AnnouncePeer(_) => {}
            PutRequestSpecific::AnnounceSignedPeer(a) => {
                let wall = 1_700_000_000_000_000u64 + now / 1000;
                if !verify(&a.k, &signable_announce(a.info_hash.as_bytes(), a.t), &a.sig) || wall.abs_diff(a.t) > 45_000_000 {
                    bad.push(203);
                }
            }
            PutRequestSpecific::PutImmutable(a) => {
                if a.v.len() > 1000 {
                    bad.push(205);
                }
                let mut enc = format!("{}:", a.v.len()).into_bytes();
                enc.extend_from_slice(&a.v);
                if &sha1_ref(&enc) != a.target.as_bytes() {
                    bad.push(203);
                }
            }
            PutRequestSpecific::PutMutable(a) => {
                if a.v.len() > 1000 {
                    bad.push(205);
                }
                if a.salt.as_ref().map(|s| s.len() > 64).unwrap_or(false) {
                    bad.push(207);
                }
                let mut enc = a.k.to_vec();
                if let Some(s) = &a.salt {
                    enc.extend_from_slice(s);
                }
                if &sha1_ref(&enc) != a.target.as_bytes() {
                    // BEP44: the target of a mutable item MUST be SHA1(k || salt)
                    bad.push(203);
                    bad.push(206);
                }
                // only consult (and promote) the stored item when the stateless checks passed,
                // like a store that validates the request before it looks anything up
                if bad.is_empty() {
                    if let Some(prev) = self.reference.mutable.get(a.target.as_bytes()) {
                        if let Some(cas) = a.cas {
                            if prev.seq != cas {
                                bad.push(301);
                            }
                        }
                        if a.seq < prev.seq {
                            bad.push(302);
                        }
                    }
                }
                if !verify(&a.k, &signable_mutable(a.seq, &a.v, a.salt.as_deref()), &a.sig) {
                    bad.push(206);
                }
            }
        }
        if bad.is_empty() {
            Ok(())
        } else {
            let only_token = !tok_ok && bad.len() == 1;
            Err((bad, only_token))
        }
    }

    fn apply_put(&mut self, from: SocketAddrV4, rid: &Id, put: &PutRequestSpecific) {
        match put {
            PutRequestSpecific::AnnouncePeer(a) => {
                let peer = if a.implied_port == Some(true) { from } else { SocketAddrV4::new(*from.ip(), a.port) };
                let ih = *a.info_hash.as_bytes();
                let mp = self.reference.max_peers;
                if let Some(l) = self.reference.peers.get_mut(&ih) {
                    l.put(*rid.as_bytes(), peer);
                } else {
                    let mut l = RefLru::new(mp);
                    l.put(*rid.as_bytes(), peer);
                    self.reference.peers.put(ih, l);
                }
            }
            PutRequestSpecific::AnnounceSignedPeer(a) => {
                let ih = *a.info_hash.as_bytes();
                let mp = self.reference.max_peers;
                if let Some(l) = self.reference.signed.get_mut(&ih) {
                    l.put(a.k, (a.k, a.t, a.sig));
                } else {
                    let mut l = RefLru::new(mp);
                    l.put(a.k, (a.k, a.t, a.sig));
                    self.reference.signed.put(ih, l);
                }
            }
            PutRequestSpecific::PutImmutable(a) => self.reference.imm.put(*a.target.as_bytes(), a.v.to_vec()),
            PutRequestSpecific::PutMutable(a) => self.reference.mutable.put(*a.target.as_bytes(), RefItem { k: a.k, seq: a.seq, v: a.v.to_vec(), sig: a.sig }),
        }
    }

    fn show_reply(&self, r: &Option<MessageType>) -> String {
        match r {
            None => "none".into(),
            Some(MessageType::Error(e)) => format!("err {}", e.code),
            Some(MessageType::Request(_)) => "request?".into(),
            Some(MessageType::Response(r)) => {
                let on = |n: &Option<Box<[Node]>>| n.as_ref().map(|n| nodes_s(n)).unwrap_or("none".into());
                match r {
                    ResponseSpecific::Ping(a) => format!("ping {}", hex(a.responder_id.as_bytes())),
                    ResponseSpecific::FindNode(a) => format!("find_node {} nodes={}", hex(a.responder_id.as_bytes()), nodes_s(&a.nodes)),
                    ResponseSpecific::GetPeers(a) => format!("get_peers {} tok={} nodes={} values={}", hex(a.responder_id.as_bytes()), hexz(&a.token), on(&a.nodes), a.values.iter().map(addr_s).collect::<Vec<_>>().join(",")),
                    ResponseSpecific::GetSignedPeers(a) => format!("signed_peers {} tok={} nodes={} peers={}", hex(a.responder_id.as_bytes()), hexz(&a.token), on(&a.nodes), a.peers.iter().map(|(k, t, s)| format!("{}:{}:{}", hex(k), t, hex(s))).collect::<Vec<_>>().join(",")),
                    ResponseSpecific::GetImmutable(a) => format!("imm {} tok={} nodes={} v={}", hex(a.responder_id.as_bytes()), hexz(&a.token), on(&a.nodes), hexz(&a.v)),
                    ResponseSpecific::GetMutable(a) => format!("mut {} tok={} nodes={} v={} k={} seq={} sig={}", hex(a.responder_id.as_bytes()), hexz(&a.token), on(&a.nodes), hexz(&a.v), hex(&a.k), a.seq, hex(&a.sig)),
                    ResponseSpecific::NoValues(a) => format!("no_values {} tok={} nodes={}", hex(a.responder_id.as_bytes()), hexz(&a.token), on(&a.nodes)),
                    ResponseSpecific::NoMoreRecentValue(a) => format!("nmr {} tok={} nodes={} seq={}", hex(a.responder_id.as_bytes()), hexz(&a.token), on(&a.nodes), a.seq),
                }
            }
        }
    }

    fn parse_request(t: &[&str]) -> Option<(SocketAddrV4, dht::RequestSpecific)> {
        // req <from> <kind> <rid> ...
        let from = parse_addr(t[1]);
        let rid = Id::from_bytes(unhex(t[3])).ok()?;
        let idf = |s: &str| Id::from_bytes(unhex(s)).ok();
        let oi = |s: &str| if s == "none" { None } else { Some(s.parse::<i64>().expect("i64")) };
        let rt = match (t[2], &t[4..]) {
            ("ping", []) => RequestTypeSpecific::Ping,
            ("find_node", [tg]) => RequestTypeSpecific::FindNode(FindNodeRequestArguments { target: idf(tg)? }),
            ("get_peers", [ih]) => RequestTypeSpecific::GetPeers(GetPeersRequestArguments { info_hash: idf(ih)? }),
            ("get_signed_peers", [ih]) => RequestTypeSpecific::GetSignedPeers(GetPeersRequestArguments { info_hash: idf(ih)? }),
            ("get", [tg, seq]) => RequestTypeSpecific::GetValue(GetValueRequestArguments { target: idf(tg)?, seq: oi(seq), salt: None }),
            ("announce", [tok, ih, port, imp]) => RequestTypeSpecific::Put(PutRequest {
                token: unhex(tok).into(),
                put_request_type: PutRequestSpecific::AnnouncePeer(AnnouncePeerRequestArguments {
                    info_hash: idf(ih)?,
                    port: port.parse().ok()?,
                    implied_port: match *imp {
                        "none" => None,
                        "0" => Some(false),
                        _ => Some(true),
                    },
                }),
            }),
            ("announce_signed", [tok, ih, ts, k, sig]) => RequestTypeSpecific::Put(PutRequest {
                token: unhex(tok).into(),
                put_request_type: PutRequestSpecific::AnnounceSignedPeer(AnnounceSignedPeerRequestArguments { info_hash: idf(ih)?, t: ts.parse().ok()?, k: arr(&unhex(k)), sig: arr(&unhex(sig)) }),
            }),
            ("put_imm", [tok, tg, v]) => RequestTypeSpecific::Put(PutRequest {
                token: unhex(tok).into(),
                put_request_type: PutRequestSpecific::PutImmutable(PutImmutableRequestArguments { target: idf(tg)?, v: unhex(v).into() }),
            }),
            ("put_mut", [tok, tg, v, k, seq, sig, salt, cas]) => RequestTypeSpecific::Put(PutRequest {
                token: unhex(tok).into(),
                put_request_type: PutRequestSpecific::PutMutable(PutMutableRequestArguments {
                    target: idf(tg)?,
                    v: unhex(v).into(),
                    k: arr(&unhex(k)),
                    seq: seq.parse().ok()?,
                    sig: arr(&unhex(sig)),
                    salt: if *salt == "none" { None } else { Some(unhex(salt).into()) },
                    cas: oi(cas),
                }),
            }),
            _ => return None,
        };
        Some((from, dht::RequestSpecific { requester_id: rid, request_type: rt }))
    }

    fn oracle_get(&mut self, out: &mut Out, from: SocketAddrV4, req: &dht::RequestSpecific, reply: &Option<MessageType>) {
        // record the token of every get-type reply: issued to from.ip in the current epoch
        let Some(MessageType::Response(r)) = reply else {
            if !matches!(req.request_type, RequestTypeSpecific::Put(_)) {
                out.violation("C03", "get-no-reply", "a get-type request was not answered".into());
            }
            return;
        };
        let own = Id::from_bytes(self.own).expect("id");
        let (tok, nodes): (Option<&[u8]>, Option<&Option<Box<[Node]>>>) = match r {
            ResponseSpecific::GetPeers(a) => (Some(&a.token), Some(&a.nodes)),
            ResponseSpecific::GetSignedPeers(a) => (Some(&a.token), Some(&a.nodes)),
            ResponseSpecific::GetImmutable(a) => (Some(&a.token), Some(&a.nodes)),
            ResponseSpecific::GetMutable(a) => (Some(&a.token), Some(&a.nodes)),
            ResponseSpecific::NoValues(a) => (Some(&a.token), Some(&a.nodes)),
            ResponseSpecific::NoMoreRecentValue(a) => (Some(&a.token), Some(&a.nodes)),
            _ => (None, None),
        };
        if let Some(tok) = tok {
            let e = self.reference.epoch;
            self.reference.issued.insert((*from.ip(), tok.to_vec()), e);
            // a token issued to this ip must not be one already issued to another ip in a live epoch
            for ((ip, t), ep) in self.reference.issued.iter() {
                if t.as_slice() == tok && ip != from.ip() && e - ep <= 1 {
                    out.violation("C15", "token-shared-across-ips", format!("token {} issued to both {} and {}", hex(tok), ip, from.ip()));
                }
            }
        }
        // C11 clause: the nodes of the reply are closest() of the table the code consults
        let target_of = |r: &RequestTypeSpecific| match r {
            RequestTypeSpecific::FindNode(a) => Some(a.target),
            RequestTypeSpecific::GetPeers(a) | RequestTypeSpecific::GetSignedPeers(a) => Some(a.info_hash),
            RequestTypeSpecific::GetValue(a) => Some(a.target),
            _ => None,
        };
        if let (Some(Some(ns)), Some(t)) = (nodes, target_of(&req.request_type)) {
            let table = if matches!(req.request_type, RequestTypeSpecific::GetSignedPeers(_)) { &self.srt } else { &self.rt };
            let exp = table.closest(t);
            if ns.iter().map(|n| (*n.id(), n.address())).collect::<Vec<_>>() != exp.iter().map(|n| (*n.id(), n.address())).collect::<Vec<_>>() {
                out.violation("C11", "reply-nodes", "nodes of a get reply are not closest() of the routing table".into());
            }
        }
        let _ = own;
        match (&req.request_type, r) {
            (RequestTypeSpecific::Ping, ResponseSpecific::Ping(_)) => {}
            (RequestTypeSpecific::FindNode(a), ResponseSpecific::FindNode(f)) => {
                let mut exp: Vec<Node> = self.srt.closest(a.target).to_vec();
                if exp.len() < 20 {
                    let more: Vec<Node> = self.rt.closest(a.target).iter().take(20 - exp.len()).cloned().collect();
                    exp.extend(more);
                }
                if f.nodes.len() > 20 || f.nodes.iter().map(|n| *n.id()).collect::<Vec<_>>() != exp.iter().map(|n| *n.id()).collect::<Vec<_>>() {
                    out.violation("C11", "find_node-reply", "find_node reply is not signed.closest ++ main.closest cut to 20".into());
                }
            }
            (RequestTypeSpecific::GetPeers(a), rr) => {
                let stored: Option<Vec<SocketAddrV4>> = self.reference.peers.get(a.info_hash.as_bytes()).map(|l| l.items.iter().map(|(_, p)| *p).collect());
                match (stored, rr) {
                    (Some(st), ResponseSpecific::GetPeers(g)) => {
                        let subset = g.values.iter().all(|v| st.contains(v));
                        if !subset || g.values.len() > 20 || (st.len() < 20 && g.values.len() != st.len()) || g.values.is_empty() {
                            out.violation("C03", "get_peers-values", format!("get_peers returned {} values, stored {} (subset={})", g.values.len(), st.len(), subset));
                        }
                    }
                    (None, ResponseSpecific::NoValues(_)) => {}
                    (st, _) => out.violation("C03", "get_peers-kind", format!("get_peers reply kind does not match the store (stored: {:?})", st.map(|s| s.len()))),
                }
            }
            (RequestTypeSpecific::GetSignedPeers(a), rr) => {
                let stored: Option<Vec<([u8; 32], u64, [u8; 64])>> = self.reference.signed.get(a.info_hash.as_bytes()).map(|l| l.items.iter().map(|(_, p)| *p).collect());
                match (stored, rr) {
                    (Some(st), ResponseSpecific::GetSignedPeers(g)) => {
                        let subset = g.peers.iter().all(|v| st.contains(v));
                        if !subset || g.peers.len() > 10 || (st.len() < 10 && g.peers.len() != st.len()) || g.peers.is_empty() {
                            out.violation("C03", "get_signed_peers-values", format!("get_signed_peers returned {} peers, stored {}", g.peers.len(), st.len()));
                        }
                    }
                    (None, ResponseSpecific::NoValues(_)) => {}
                    (st, _) => out.violation("C03", "get_signed_peers-kind", format!("get_signed_peers reply kind does not match the store (stored: {:?})", st.map(|s| s.len()))),
                }
            }
            (RequestTypeSpecific::GetValue(a), rr) => {
                let tb = *a.target.as_bytes();
                // BEP44 get: immutable value when no seq is given and one is stored, else mutable
                let imm = if a.seq.is_none() { self.reference.imm.get(&tb) } else { None };
                if let Some(v) = imm {
                    match rr {
                        ResponseSpecific::GetImmutable(g) if g.v.to_vec() == v => {}
                        _ => out.violation("C03", "get-immutable", "get did not return the stored immutable value".into()),
                    }
                } else {
                    match (self.reference.mutable.get(&tb), rr) {
                        (None, ResponseSpecific::NoValues(_)) => {}
                        (Some(it), ResponseSpecific::NoMoreRecentValue(n)) if a.seq.map(|s| it.seq <= s).unwrap_or(false) && n.seq == it.seq => {}
                        (Some(it), ResponseSpecific::GetMutable(g)) if !a.seq.map(|s| it.seq <= s).unwrap_or(false) && g.v.to_vec() == it.v && g.k == it.k && g.seq == it.seq && g.sig == it.sig => {}
                        (st, _) => out.violation("C04", "get-mutable", format!("get(seq={:?}) does not return the last accepted item (reference holds seq {:?})", a.seq, st.map(|i| i.seq))),
                    }
                }
            }
            _ => out.violation("C03", "reply-kind", "reply kind does not match the request kind".into()),
        }
    }
}

impl Stream for ServerStream {
    fn reset(&mut self, args: &[&str], _out: &mut Out) {
        match args.first().copied() {
            Some("server") => {
                // server <own> <max_info_hashes> <max_peers> <max_imm> <max_mut> <seed> <filter> <t0 ns>
                dht::verif::set_now_ns(args[8].parse().expect("t0"));
                self.own = arr(&unhex(args[1]));
                let p = |i: usize| args[i].parse::<usize>().expect("cap");
                self.filter = match args[7] {
                    "all" => HFilter::All,
                    "denyput" => HFilter::DenyPut,
                    s => HFilter::DenyIp(Ipv4Addr::from(s.strip_prefix("denyip:").expect("filter").parse::<u32>().expect("ip"))),
                };
                dht::verif::seed_thread(args[6].parse().expect("seed"));
                self.server = Server::new(ServerSettings {
                    max_info_hashes: p(2),
                    max_peers_per_info_hash: p(3),
                    max_immutable_values: p(4),
                    max_mutable_values: p(5),
                    filter: Box::new(self.filter.clone()),
                });
                let own = Id::from_bytes(self.own).expect("id");
                self.rt = RoutingTable::new(own);
                self.srt = RoutingTable::new(own);
                self.t0 = dht::verif::now_ns();
                let nz = |c: usize, d: usize| if c == 0 { d } else { c };
                self.reference = RefServer {
                    epoch: 0,
                    last_rot: self.t0,
                    issued: HashMap::new(),
                    imm: RefLru::new(nz(p(4), 1000)),
                    mutable: RefLru::new(nz(p(5), 1000)),
                    peers: RefLru::new(nz(p(2), 2000)),
                    signed: RefLru::new(nz(p(2), 2000)),
                    max_peers: nz(p(3), 500),
                };
                self.tokens = None;
            }
            Some("tokens") => {
                dht::verif::set_now_ns(args[2].parse().expect("t0"));
                dht::verif::seed_thread(args[1].parse().expect("seed"));
                self.tokens = Some(Tokens::new());
                self.issued_direct.clear();
                self.direct_epoch = 0;
                self.t0 = dht::verif::now_ns();
            }
            _ => {}
        }
    }

    fn exec(&mut self, op: &str, out: &mut Out) -> String {
        let t: Vec<&str> = op.split(' ').collect();
        match t.as_slice() {
            ["adv", ns] => {
                dht::verif::advance(Duration::from_nanos(ns.parse().expect("ns")));
                (dht::verif::now_ns() - self.t0).to_string()
            }
            ["rtadd", which, idh, addr] => {
                let n = mk_node(idh, addr);
                let r = if *which == "main" { self.rt.add(n) } else { self.srt.add(n) };
                r.to_string()
            }
            ["rtdel", which, idh] => {
                let id = Id::from_bytes(arr::<20>(&unhex(idh))).expect("id");
                if *which == "main" { self.rt.remove(&id) } else { self.srt.remove(&id) };
                "ok".into()
            }
            ["know", k, msg, sig] => {
                if !verify(&arr(&unhex(k)), &unhex(msg), &arr(&unhex(sig))) {
                    panic!("harness bug: `know` line with a signature that does not verify");
                }
                "ok".into()
            }
            ["sizes"] => {
                let s = self.server.verif_sizes();
                let r = &self.reference;
                let rs = (r.peers.len(), r.peers.items.iter().map(|(_, l)| l.len()).max().unwrap_or(0), r.signed.len(), r.signed.items.iter().map(|(_, l)| l.len()).max().unwrap_or(0), r.imm.len(), r.mutable.len());
                if s != rs {
                    out.violation("C20", "store-sizes", format!("store sizes {:?} differ from the reference LRU {:?}", s, rs));
                }
                if s.0 > r.peers.cap || s.1 > r.max_peers || s.2 > r.signed.cap || s.3 > r.max_peers || s.4 > r.imm.cap || s.5 > r.mutable.cap {
                    out.violation("C20", "store-capacity", format!("store sizes {:?} exceed the configured capacities", s));
                }
                format!("{} {} {} {} {} {}", s.0, s.1, s.2, s.3, s.4, s.5)
            }
            // ---- Tokens driven directly
            ["tok", "should"] => self.tokens.as_ref().map(|t| t.should_update().to_string()).unwrap_or("bad-op".into()),
            ["tok", "rotate"] => {
                if let Some(t) = self.tokens.as_mut() {
                    t.rotate();
                    self.direct_epoch += 1;
                }
                "ok".into()
            }
            ["tok", "gen", addr] => match self.tokens.as_mut() {
                Some(t) => {
                    let a = parse_addr(addr);
                    let tok = t.generate_token(a);
                    // (the latest issue counts: the same token may be issued again in a later epoch)
                    self.issued_direct.insert((*a.ip(), tok.to_vec()), self.direct_epoch);
                    hex(&tok)
                }
                None => "bad-op".into(),
            },
            ["tok", "val", addr, token] => match self.tokens.as_mut() {
                Some(t) => {
                    let a = parse_addr(addr);
                    let tok = unhex(token);
                    let ok = t.validate(a, &tok);
                    match self.issued_direct.get(&(*a.ip(), tok.clone())) {
                        None if ok => out.violation("C15", "never-issued-token-accepted", format!("token {} was never issued to {} but validates for it", hex(&tok), a.ip())),
                        // a token stays valid while its secret is the current or the previous one
                        Some(e) if !ok && self.direct_epoch - *e <= 1 => out.violation("C15", "fresh-token-rejected", format!("token {} was issued to {} {} rotation(s) ago and is rejected", hex(&tok), a.ip(), self.direct_epoch - *e)),
                        Some(e) if ok && self.direct_epoch - *e >= 2 => out.violation("C15", "expired-token-accepted", format!("token {} was issued to {} {} rotations ago and still validates", hex(&tok), a.ip(), self.direct_epoch - *e)),
                        _ => {}
                    }
                    ok.to_string()
                }
                None => "bad-op".into(),
            },
            ["req", ..] => {
                let Some((from, req)) = Self::parse_request(&t) else { return "bad-op".into() };
                let now = dht::verif::now_ns();
                // a request reaches a server over the wire: what `handle_request` sees is the decoding of
                // the datagram.  The reference below judges the request that was SENT.
                let wire_req = {
                    let m = dht::verif::Msg::new(7, None, None, MessageType::Request(req.clone()), false);
                    match m.to_bytes().ok().and_then(|b| dht::verif::Msg::from_bytes(&b).ok()).map(|m2| m2.message_type().clone()) {
                        Some(MessageType::Request(r)) => {
                            if crate::streams::codec::render_request(&r) != crate::streams::codec::render_request(&req) {
                                out.count("wire:request-changed-in-transport");
                            }
                            r
                        }
                        _ => {
                            out.count("wire:request-not-transportable");
                            req.clone()
                        }
                    }
                };
                let allowed = self.filter.allow_request(&wire_req, from);
                let reply = guarded(std::panic::AssertUnwindSafe(|| self.server.handle_request(&self.rt, &self.srt, from, wire_req.clone())));
                let reply = match reply {
                    Ok(r) => r,
                    Err(m) => {
                        out.violation("C05", "server-panic", format!("Server::handle_request panicked: {m}"));
                        return "panic".into();
                    }
                };
                out.count(&format!("req:{}", t[2]));
                // ---------------- oracle
                if !allowed {
                    if reply.is_some() {
                        out.violation("C03", "filtered-answered", "a request vetoed by the request filter was answered".into());
                    }
                    out.count("reply:filtered");
                    return self.show_reply(&reply);
                }
                if now - self.reference.last_rot > ROTATE_NS {
                    self.reference.epoch += 1;
                    self.reference.last_rot = now;
                }
                if let RequestTypeSpecific::Put(p) = &req.request_type {
                    let exp = self.expected_put(from, &p.token, &p.put_request_type, now);
                    let kind = match &p.put_request_type {
                        PutRequestSpecific::AnnouncePeer(_) => "announce_peer",
                        PutRequestSpecific::AnnounceSignedPeer(_) => "announce_signed_peer",
                        PutRequestSpecific::PutImmutable(_) => "put_immutable",
                        PutRequestSpecific::PutMutable(_) => "put_mutable",
                    };
                    let mutable = matches!(p.put_request_type, PutRequestSpecific::PutMutable(_));
                    match (&exp, &reply) {
                        (Ok(()), Some(MessageType::Response(ResponseSpecific::Ping(_)))) => {
                            self.apply_put(from, &req.requester_id, &p.put_request_type);
                            out.count("reply:put-ok");
                        }
                        (Ok(()), other) => {
                            out.violation(if mutable { "C04" } else { "C03" }, &format!("{kind}-valid-rejected"), format!("a valid, authorised {kind} was answered {}", self.show_reply(other)));
                        }
                        (Err((codes, _)), Some(MessageType::Error(e))) => {
                            out.count(&format!("reply:err{}", e.code));
                            if !codes.contains(&e.code) {
                                let prop = if codes.contains(&301) || codes.contains(&302) { "C04" } else { "C03" };
                                out.violation(prop, &format!("{kind}-wrong-code"), format!("{kind} violating {:?} was answered with code {}", codes, e.code));
                            }
                        }
                        (Err((codes, only_token)), other) => {
                            let prop = if *only_token { "C15" } else if codes.contains(&301) || codes.contains(&302) { "C04" } else { "C03" };
                            let key = if prop == "C15" { format!("{kind}-bad-token-accepted") } else { format!("{kind}-invalid-accepted") };
                            out.violation(prop, &key, format!("{kind} that must be rejected with one of {:?} was answered {}", codes, self.show_reply(other)));
                            // keep the reference in step with what the server did, to avoid cascades
                            if matches!(other, Some(MessageType::Response(ResponseSpecific::Ping(_)))) {
                                self.apply_put(from, &req.requester_id, &p.put_request_type);
                            }
                        }
                    }
                } else {
                    self.oracle_get(out, from, &req, &reply);
                }
                self.show_reply(&reply)
            }
            _ => "bad-op".into(),
        }
    }
}

// ------------------------------------------------------------------------------------ generator
struct Gen {
    rng: Rng,
    keys: Vec<SigningKey>,
    ips: Vec<SocketAddrV4>,
    /// tokens observed per source ip (most recent last), with the virtual time they were issued at
    tokens: HashMap<Ipv4Addr, Vec<(Vec<u8>, u64)>>,
    foreign_tokens: Vec<Vec<u8>>,
    targets: Vec<[u8; 20]>,
    known: std::collections::HashSet<String>,
}

impl Gen {
    fn token_for(&mut self, from: &SocketAddrV4, now: u64) -> Vec<u8> {
        let own = self.tokens.get(from.ip()).cloned().unwrap_or_default();
        match self.rng.below(20) {
            0 => vec![],
            1 => self.rng.bytes(4),
            7 | 8 => {
                // a guess: the token a predictable secret (all zero, all ones, none) would give this ip
                let mut data = from.ip().octets().to_vec();
                match self.rng.below(3) {
                    0 => data.extend_from_slice(&[0u8; 20]),
                    1 => data.extend_from_slice(&[0xffu8; 20]),
                    _ => {}
                }
                crc32c_ref(&data).to_be_bytes().to_vec()
            }
            2 => self.foreign_tokens.last().cloned().unwrap_or(vec![1, 2, 3, 4]),
            3 => {
                // a token issued to another ip
                let others: Vec<_> = self.tokens.iter().filter(|(ip, v)| *ip != from.ip() && !v.is_empty()).map(|(_, v)| v.last().cloned().unwrap().0).collect();
                if others.is_empty() { self.rng.bytes(4) } else { self.rng.pick(&others).clone() }
            }
            4 => {
                // bit-flipped own token
                let mut t = own.last().map(|x| x.0.clone()).unwrap_or(vec![0; 4]);
                if !t.is_empty() {
                    let i = self.rng.below(t.len() as u64) as usize;
                    t[i] ^= 1 << self.rng.below(8);
                }
                t
            }
            5 | 6 => {
                // an old token of this ip (any age)
                if own.is_empty() { vec![9; 4] } else { self.rng.pick(&own).0.clone() }
            }
            _ => {
                let _ = now;
                own.last().map(|x| x.0.clone()).unwrap_or(vec![7; 4])
            }
        }
    }
}

fn record_tokens(g: &mut Gen, from: &SocketAddrV4, reply: &str, now: u64) {
    if let Some(i) = reply.find("tok=") {
        let tok = reply[i + 4..].split(' ').next().unwrap_or("-");
        g.tokens.entry(*from.ip()).or_default().push((unhex(tok), now));
    }
}

pub fn run(out: &mut Out, seed: u64, thorough: bool, replay: Option<&str>) {
    let mut s = ServerStream::new();
    if let Some(p) = replay {
        return replay_file(&mut s, out, p);
    }
    let mut rng = Rng::new(seed ^ 0x5e7fe7);
    // ---------------- Tokens driven directly (C15): rotation boundaries, adjacent IPs
    for c in 0..(if thorough { 40 } else { 6 }) {
        let sd = rng.next() | 1;
        out.begin(&mut s, &format!("tokens {sd} {}", 1_000_000_000_000_000u64 + c as u64 * 10_000_000_000_000));
        let ips = [0x2d000001u32, 0x2d000000, 0x2d000101, 0x2d000002, 0xad000001, 0x0a000001];
        let mut toks: Vec<(u32, String)> = vec![];
        for step in 0..60 {
            match rng.below(10) {
                0..=3 => {
                    let ip = *rng.pick(&ips);
                    let port = 1 + rng.below(3) as u16;
                    let t = out.run(&mut s, format!("tok gen {}:{}", ip, port));
                    toks.push((ip, t));
                }
                4..=6 if !toks.is_empty() => {
                    let (ip, t) = rng.pick(&toks).clone();
                    let pip = if rng.chance(2, 3) { ip } else { *rng.pick(&ips) };
                    out.run(&mut s, format!("tok val {}:{} {}", pip, 7, t));
                }
                7 => {
                    let ns = *rng.pick(&[1u64, 299_999_999_999, 300_000_000_000, 300_000_000_001, 600_000_000_000]);
                    out.run(&mut s, format!("adv {ns}"));
                    out.run(&mut s, "tok should".into());
                }
                8 => {
                    out.run(&mut s, "tok rotate".into());
                }
                9 if step % 2 == 0 => {
                    // a guessed token: predictable secret, for one of the ips
                    let ip = *rng.pick(&ips);
                    let mut data = ip.to_be_bytes().to_vec();
                    if rng.chance(2, 3) {
                        data.extend_from_slice(&[if rng.chance(1, 2) { 0u8 } else { 0xff }; 20]);
                    }
                    let t = hex(&crc32c_ref(&data).to_be_bytes());
                    out.run(&mut s, format!("tok val {}:{} {}", ip, 7, t));
                }
                _ => {
                    let ip = *rng.pick(&ips);
                    out.run(&mut s, format!("tok val {}:{} {}", ip, 9, hex(&rng.bytes(4))));
                }
            }
            let _ = step;
        }
        out.mark_distinct(sd ^ c as u64);
    }

    // ---------------- whole server histories
    let cases = if thorough { 160 } else { 24 };
    for c in 0..cases {
        let own = rng.id20();
        let caps: [usize; 4] = match c % 6 {
            0 => [1, 1, 1, 1],
            1 => [2, 2, 2, 2],
            2 => [3, 25, 3, 3],
            3 => [2000, 500, 1000, 1000],
            4 => [2, 12, 1, 2],
            _ => [0, 0, 0, 0], // 0 = "use the default"
        };
        let ips: Vec<SocketAddrV4> = vec![
            SocketAddrV4::new(Ipv4Addr::new(45, 1, 1, 1), 6881),
            SocketAddrV4::new(Ipv4Addr::new(45, 1, 1, 1), 7000),
            SocketAddrV4::new(Ipv4Addr::new(45, 1, 1, 0), 6881),
            SocketAddrV4::new(Ipv4Addr::new(45, 1, 0, 1), 6881),
            SocketAddrV4::new(Ipv4Addr::new(173, 1, 1, 1), 1),
        ];
        let filter = match c % 7 {
            5 => format!("denyip:{}", u32::from(*ips[2].ip())),
            6 => "denyput".to_string(),
            _ => "all".to_string(),
        };
        let sd = rng.next() | 1;
        out.begin(&mut s, &format!("server {} {} {} {} {} {} {} {}", hex(&own), caps[0], caps[1], caps[2], caps[3], sd, filter, 2_000_000_000_000_000u64 + c as u64 * 10_000_000_000_000));
        let mut g = Gen {
            rng: Rng::new(rng.next()),
            keys: (0..3).map(|i| SigningKey::from_bytes(&[i as u8 + 1 + (c % 5) as u8; 32])).collect(),
            ips,
            tokens: HashMap::new(),
            foreign_tokens: vec![vec![0xde, 0xad, 0xbe, 0xef]],
            targets: vec![],
            known: Default::default(),
        };
        // a few routing-table entries so that replies carry nodes
        let mut table_nodes: Vec<(String, SocketAddrV4)> = vec![];
        for _ in 0..g.rng.below(30) {
            let which = if g.rng.chance(1, 3) { "signed" } else { "main" };
            let idb = g.rng.id20();
            let a = SocketAddrV4::new(Ipv4Addr::from(0x30000000 | g.rng.next() as u32 & 0x0fffffff), 1 + g.rng.below(60000) as u16);
            out.run(&mut s, format!("rtadd {which} {} {}", hex(&idb), addr_s(&a)));
            table_nodes.push((hex(&idb), a));
        }
        let salts: Vec<Option<Vec<u8>>> = vec![None, Some(b"salt".to_vec()), Some(vec![]), Some(vec![7; 64]), Some(vec![7; 65])];
        let info_hashes: Vec<[u8; 20]> = (0..3).map(|_| g.rng.id20()).collect();
        let steps = if c % 6 == 3 { 260 } else { 90 + g.rng.below(120) };
        let mut now_rel: u64 = 0;
        for _ in 0..steps {
            let mut from = *g.rng.pick(&g.ips.clone());
            let mut rid = hex(&g.rng.id20());
            // one request in five comes from a node that is in the routing tables (its id, and half of
            // the time its address): what a server answers does not depend on who asks
            if !table_nodes.is_empty() && g.rng.chance(1, 5) {
                let (i, a) = g.rng.pick(&table_nodes).clone();
                rid = i;
                if g.rng.chance(1, 2) {
                    from = a;
                }
            }
            let fa = addr_s(&from);
            #[allow(clippy::type_complexity)]
            let mut follow: Option<(Vec<u8>, [u8; 20], Vec<u8>, [u8; 32], usize, i64, [u8; 64], Option<Vec<u8>>)> = None;
            let line = match g.rng.below(100) {
                0..=4 => format!("req {fa} ping {rid}"),
                5..=9 => format!("req {fa} find_node {rid} {}", hex(&g.rng.id20())),
                10..=17 => format!("req {fa} get_peers {rid} {}", hex(&g.rng.pick(&info_hashes)[..])),
                18..=23 => format!("req {fa} get_signed_peers {rid} {}", hex(&g.rng.pick(&info_hashes)[..])),
                24..=37 => {
                    let tg = if g.targets.is_empty() || g.rng.chance(1, 5) { g.rng.id20() } else { *g.rng.pick(&g.targets.clone()) };
                    let seq = match g.rng.below(5) {
                        0 | 1 => "none".to_string(),
                        _ => (*g.rng.pick(&[-1i64, 0, 1, 2, 3, i64::MAX, i64::MIN])).to_string(),
                    };
                    format!("req {fa} get {rid} {} {}", hex(&tg), seq)
                }
                38..=49 => {
                    let tok = g.token_for(&from, now_rel);
                    let ih = *g.rng.pick(&info_hashes);
                    let imp = *g.rng.pick(&["none", "0", "1"]);
                    // many distinct announcers to roll the per-info-hash LRU and reach the sampling branch
                    format!("req {fa} announce {rid} {} {} {} {}", hexz(&tok), hex(&ih), 1 + g.rng.below(65535), imp)
                }
                50..=59 => {
                    let tok = g.token_for(&from, now_rel);
                    let ih = *g.rng.pick(&info_hashes);
                    let kidx = g.rng.below(3) as usize;
                    let wall = 1_700_000_000_000_000u64 + (dht::verif::now_ns()) / 1000;
                    let t = match g.rng.below(8) {
                        0 => wall - 45_000_000,
                        1 => wall - 45_000_001,
                        2 => wall + 45_000_000,
                        3 => wall + 45_000_001,
                        4 => wall - 44_999_999,
                        _ => wall,
                    };
                    let msg = signable_announce(&ih, t);
                    let mut sig = g.keys[kidx].sign(&msg).to_bytes();
                    let mut k = g.keys[kidx].verifying_key().to_bytes();
                    match g.rng.below(10) {
                        0 => sig[g.rng.below(64) as usize] ^= 1,
                        1 => k = g.keys[(kidx + 1) % 3].verifying_key().to_bytes(),
                        _ => {
                            let key = format!("know {} {} {}", hex(&k), hex(&msg), hex(&sig));
                            if g.known.insert(key.clone()) {
                                out.run(&mut s, key);
                            }
                        }
                    }
                    format!("req {fa} announce_signed {rid} {} {} {} {} {}", hexz(&tok), hex(&ih), t, hex(&k), hex(&sig))
                }
                60..=72 => {
                    let tok = g.token_for(&from, now_rel);
                    let len = *g.rng.pick(&[0usize, 1, 5, 999, 1000, 1001, 30]);
                    let v = g.rng.bytes(len);
                    let mut enc = format!("{}:", v.len()).into_bytes();
                    enc.extend_from_slice(&v);
                    let mut tg = sha1_ref(&enc);
                    if g.rng.chance(1, 8) {
                        tg[g.rng.below(20) as usize] ^= 1;
                    }
                    g.targets.push(tg);
                    format!("req {fa} put_imm {rid} {} {} {}", hexz(&tok), hex(&tg), hexz(&v))
                }
                _ => {
                    let tok = g.token_for(&from, now_rel);
                    let kidx = g.rng.below(3) as usize;
                    let salt = g.rng.pick(&salts).clone();
                    let len = *g.rng.pick(&[0usize, 3, 3, 3, 999, 1000, 1001]);
                    let v = if len == 3 { vec![b'v', g.rng.below(3) as u8, 0] } else { g.rng.bytes(len) };
                    let seq = *g.rng.pick(&[-1i64, 0, 1, 1, 2, 2, 3, i64::MAX, i64::MIN]);
                    let cas = match g.rng.below(6) {
                        0 => Some(seq.wrapping_sub(1)),
                        1 => Some(seq),
                        2 => Some(*g.rng.pick(&[0i64, 1, 2, -1, -1, -2, i64::MIN])),
                        _ => None,
                    };
                    let msg = signable_mutable(seq, &v, salt.as_deref());
                    let mut sig = g.keys[kidx].sign(&msg).to_bytes();
                    let k = g.keys[kidx].verifying_key().to_bytes();
                    let mut enc = k.to_vec();
                    if let Some(sl) = &salt {
                        enc.extend_from_slice(sl);
                    }
                    let mut tg = sha1_ref(&enc);
                    let mut declared_k = k;
                    let mut declared_salt = salt.clone();
                    match g.rng.below(14) {
                        0 => sig[g.rng.below(64) as usize] ^= 0x10,
                        1 => declared_k = g.keys[(kidx + 1) % 3].verifying_key().to_bytes(), // signed by another key
                        2 => {
                            // re-targeted: a valid item of this key written under another key's target
                            let other = g.keys[(kidx + 1) % 3].verifying_key().to_bytes();
                            let mut e2 = other.to_vec();
                            if let Some(sl) = &salt {
                                e2.extend_from_slice(sl);
                            }
                            tg = sha1_ref(&e2);
                        }
                        3 => {
                            // re-salted: signature made for another salt
                            declared_salt = Some(b"other".to_vec());
                        }
                        4 => tg[0] ^= 0x80,
                        _ => {}
                    }
                    let key = format!("know {} {} {}", hex(&k), hex(&msg), hex(&sig));
                    if verify(&k, &msg, &sig) && g.known.insert(key.clone()) {
                        out.run(&mut s, key);
                    }
                    g.targets.push(tg);
                    follow = Some((tok.clone(), tg, v.clone(), declared_k, kidx, seq, sig, declared_salt.clone()));
                    format!(
                        "req {fa} put_mut {rid} {} {} {} {} {} {} {} {}",
                        hexz(&tok),
                        hex(&tg),
                        hexz(&v),
                        hex(&declared_k),
                        seq,
                        hex(&sig),
                        declared_salt.as_ref().map(|x| hexz(x)).unwrap_or("none".into()),
                        cas.map(|c| c.to_string()).unwrap_or("none".into())
                    )
                }
            };
            let reply = out.run(&mut s, line);
            record_tokens(&mut g, &from, &reply, now_rel);
            // an accepted mutable put is followed up on the SAME sequence number: the stored item's
            // signature with another value (a forgery: 206, the item stays), the same item again
            // (accepted), another validly signed value of that seq (accepted, replaces), each read back
            if let Some((tok, tg, v, k, kidx, seq, sig, salt)) = follow {
                if reply.starts_with("ping") && g.rng.chance(1, 2) {
                    let salt_s = salt.as_ref().map(|x| hexz(x)).unwrap_or("none".into());
                    let mut v2 = v.clone();
                    if v2.is_empty() { v2.push(1) } else { v2[0] ^= 0x55 }
                    let variant = g.rng.below(4);
                    let (vv, ss) = match variant {
                        0 => (v2.clone(), sig),              // stored signature, other value
                        1 => (v.clone(), sig),               // the same item again
                        2 => {
                            // another value, validly signed, same seq
                            let msg = signable_mutable(seq, &v2, salt.as_deref());
                            let sg = g.keys[kidx].sign(&msg).to_bytes();
                            let key = format!("know {} {} {}", hex(&k), hex(&msg), hex(&sg));
                            if k == g.keys[kidx].verifying_key().to_bytes() && g.known.insert(key.clone()) {
                                out.run(&mut s, key);
                            }
                            (v2.clone(), sg)
                        }
                        _ => {
                            // stored signature and value, lower seq (a roll-back that re-uses the signature)
                            (v.clone(), sig)
                        }
                    };
                    let sq = if variant == 3 { seq.wrapping_sub(1) } else { seq };
                    let cas = if g.rng.chance(1, 3) { seq.to_string() } else { "none".into() };
                    out.run(&mut s, format!("req {fa} put_mut {rid} {} {} {} {} {} {} {} {}", hexz(&tok), hex(&tg), hexz(&vv), hex(&k), sq, hex(&ss), salt_s, cas));
                    out.run(&mut s, format!("req {fa} get {rid} {} none", hex(&tg)));
                }
            }
            // the same question twice, with the routing table changed in between but not its size: a
            // server answers from the table it has now
            if !table_nodes.is_empty() && g.rng.chance(1, 12) {
                let tgt = if g.rng.chance(1, 2) { *g.rng.pick(&info_hashes) } else { g.rng.id20() };
                let ask = |g: &mut Gen| match g.rng.below(3) {
                    0 => format!("req {fa} get_peers {rid} {}", hex(&tgt)),
                    1 => format!("req {fa} get {rid} {} none", hex(&tgt)),
                    _ => format!("req {fa} find_node {rid} {}", hex(&tgt)),
                };
                let q1 = ask(&mut g);
                out.run(&mut s, q1.clone());
                for which in ["main", "signed"] {
                    // drop the entry closest to the target, add one that is closer still
                    let mut best: Option<(usize, [u8; 20])> = None;
                    for (i, (idh, _)) in table_nodes.iter().enumerate() {
                        let idb: [u8; 20] = arr(&unhex(idh));
                        let mut d = [0u8; 20];
                        for j in 0..20 { d[j] = idb[j] ^ tgt[j]; }
                        if best.map(|(_, b)| d < b).unwrap_or(true) { best = Some((i, d)); }
                    }
                    if let Some((i, _)) = best {
                        let (idh, _) = table_nodes[i].clone();
                        out.run(&mut s, format!("rtdel {which} {idh}"));
                        let mut nid = tgt;
                        nid[19] ^= 1 + g.rng.below(200) as u8;
                        nid[18] ^= g.rng.below(256) as u8;
                        let a = SocketAddrV4::new(Ipv4Addr::from(0x30000000 | g.rng.next() as u32 & 0x0fffffff), 1 + g.rng.below(60000) as u16);
                        out.run(&mut s, format!("rtadd {which} {} {}", hex(&nid), addr_s(&a)));
                        if which == "signed" { table_nodes.remove(i); table_nodes.push((hex(&nid), a)); }
                    }
                }
                out.run(&mut s, q1);
            }
            if g.rng.chance(1, 9) {
                let ns = *g.rng.pick(&[1u64, 1_000_000_000, 44_999_999_000, 60_000_000_000, 299_999_999_999, 300_000_000_000, 300_000_000_001, 600_000_000_001]);
                out.run(&mut s, format!("adv {ns}"));
                now_rel += ns;
            }
            if g.rng.chance(1, 25) {
                out.run(&mut s, "sizes".into());
            }
        }
        out.run(&mut s, "sizes".into());
        out.mark_distinct(fnv(&own) ^ c as u64);
        if c == 0 {
            out.sample("case server <id> caps 1 1 1 1: req <from> get/put_mut/put_imm/announce/announce_signed … with fresh/old/foreign/flipped tokens, sizes 999/1000/1001, salts 64/65, timestamps ±45 s".into());
        }
    }
    // ---------------- peer sampling: more stored peers than the reply size (20 / 10)
    for c in 0..(if thorough { 12 } else { 3 }) {
        let own = rng.id20();
        let sd = rng.next() | 1;
        let cap = [24usize, 40, 500][c % 3];
        out.begin(&mut s, &format!("server {} 3 {} 3 3 {} all {}", hex(&own), cap, sd, 3_000_000_000_000_000u64 + c as u64 * 10_000_000_000_000));
        let from = SocketAddrV4::new(Ipv4Addr::new(45, 9, 9, 9), 6881);
        let fa = addr_s(&from);
        let ih = rng.id20();
        let n_peers = 19 + rng.below(30);
        let mut tok = String::from("-");
        for i in 0..n_peers {
            if i % 7 == 0 {
                let r = out.run(&mut s, format!("req {fa} get_peers {} {}", hex(&rng.id20()), hex(&ih)));
                if let Some(p) = r.find("tok=") {
                    tok = r[p + 4..].split(' ').next().unwrap_or("-").to_string();
                }
            }
            out.run(&mut s, format!("req {fa} announce {} {} {} {} none", hex(&rng.id20()), tok, hex(&ih), 1000 + i));
        }
        for _ in 0..12 {
            out.run(&mut s, format!("req {fa} get_peers {} {}", hex(&rng.id20()), hex(&ih)));
            out.count("sampling:get_peers");
        }
        let n_signed = 9 + rng.below(12);
        let wall = 1_700_000_000_000_000u64 + dht::verif::now_ns() / 1000;
        for i in 0..n_signed {
            let key = SigningKey::from_bytes(&[(i + 1) as u8; 32]);
            let msg = signable_announce(&ih, wall);
            let sig = key.sign(&msg).to_bytes();
            let k = key.verifying_key().to_bytes();
            out.run(&mut s, format!("know {} {} {}", hex(&k), hex(&msg), hex(&sig)));
            out.run(&mut s, format!("req {fa} announce_signed {} {} {} {} {} {}", hex(&rng.id20()), tok, hex(&ih), wall, hex(&k), hex(&sig)));
        }
        for _ in 0..12 {
            out.run(&mut s, format!("req {fa} get_signed_peers {} {}", hex(&rng.id20()), hex(&ih)));
            out.count("sampling:get_signed_peers");
        }
        out.run(&mut s, "sizes".into());
        out.mark_distinct(fnv(&own) ^ 0x5a);
    }
    // ---- an info hash whose peer caches are exactly full, then peers that are already in announce again
    //      (not the least recently used one): nothing is evicted, the store keeps its size
    for (c, cap) in [(0usize, 1usize), (1, 2), (2, 3), (3, 5)] {
        let own = rng.id20();
        let sd = rng.next() | 1;
        out.begin(&mut s, &format!("server {} 3 {} 3 3 {} all {}", hex(&own), cap, sd, 4_000_000_000_000_000u64 + c as u64 * 10_000_000_000_000));
        let from = SocketAddrV4::new(Ipv4Addr::new(45, 9, 9, 10), 6881);
        let fa = addr_s(&from);
        let ih = rng.id20();
        let r = out.run(&mut s, format!("req {fa} get_peers {} {}", hex(&rng.id20()), hex(&ih)));
        let tok = r.find("tok=").map(|p| r[p + 4..].split(' ').next().unwrap_or("-").to_string()).unwrap_or("-".into());
        let wall = 1_700_000_000_000_000u64 + dht::verif::now_ns() / 1000;
        let rids: Vec<[u8; 20]> = (0..cap).map(|_| rng.id20()).collect();
        let keys: Vec<SigningKey> = (0..cap).map(|i| SigningKey::from_bytes(&[(i + 40) as u8; 32])).collect();
        let announce = |out: &mut Out, s: &mut ServerStream, i: usize| {
            out.run(s, format!("req {fa} announce {} {} {} {} none", hex(&rids[i]), tok, hex(&ih), 2000 + i));
            let msg = signable_announce(&ih, wall);
            let sig = keys[i].sign(&msg).to_bytes();
            let k = keys[i].verifying_key().to_bytes();
            out.run(s, format!("know {} {} {}", hex(&k), hex(&msg), hex(&sig)));
            out.run(s, format!("req {fa} announce_signed {} {} {} {} {} {}", hex(&rids[i]), tok, hex(&ih), wall, hex(&k), hex(&sig)));
        };
        for i in 0..cap {
            announce(out, &mut s, i);
        }
        out.run(&mut s, "sizes".into());
        // most recently used first, then every other one, each followed by a read of both stores
        for i in (0..cap).rev().chain(0..cap) {
            announce(out, &mut s, i);
            out.run(&mut s, format!("req {fa} get_peers {} {}", hex(&rng.id20()), hex(&ih)));
            out.run(&mut s, format!("req {fa} get_signed_peers {} {}", hex(&rng.id20()), hex(&ih)));
            out.run(&mut s, "sizes".into());
        }
        out.count("reannounce-at-capacity");
        out.mark_distinct(fnv(&own) ^ 0x5b);
    }
    dht::verif::seed_thread(0);
}
