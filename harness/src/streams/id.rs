//! `id` stream (C19): XOR metric, parsing, Display, BEP42 secure ids.
//! Every op is answered by the real `Id` API; the oracle checks the property statement directly
//! (bit-level common prefix, independent MSB-first CRC-32C) without reference to the Lean model.
use crate::util::*;
use dht::verif::export::*;
use std::net::Ipv4Addr;
use std::str::FromStr;

fn arr20(v: &[u8]) -> Option<[u8; 20]> {
    if v.len() == 20 {
        let mut a = [0u8; 20];
        a.copy_from_slice(v);
        Some(a)
    } else {
        None
    }
}
fn id(b: &[u8; 20]) -> Id {
    Id::from_bytes(b).expect("20 bytes")
}

fn common_prefix_bits(a: &[u8; 20], b: &[u8; 20]) -> u32 {
    let mut n = 0;
    for i in 0..160 {
        let ba = (a[i / 8] >> (7 - i % 8)) & 1;
        let bb = (b[i / 8] >> (7 - i % 8)) & 1;
        if ba != bb {
            break;
        }
        n += 1;
    }
    n
}

fn ord_s(o: std::cmp::Ordering) -> &'static str {
    match o {
        std::cmp::Ordering::Less => "lt",
        std::cmp::Ordering::Equal => "eq",
        std::cmp::Ordering::Greater => "gt",
    }
}

fn is_hex40(s: &[u8]) -> bool {
    s.len() == 40 && s.iter().all(|c| c.is_ascii_hexdigit())
}

pub fn exempt_ref(ip: Ipv4Addr) -> bool {
    let o = ip.octets();
    o[0] == 10
        || (o[0] == 172 && (16..=31).contains(&o[1]))
        || (o[0] == 192 && o[1] == 168)
        || o[0] == 127
        || (o[0] == 169 && o[1] == 254)
}
pub fn prefix_ref(ip: Ipv4Addr, r: u8) -> [u8; 3] {
    let v = (u32::from(ip) & 0x030f3fff) | ((r as u32 & 7) << 29);
    let c = crc32c_ref(&v.to_be_bytes()).to_be_bytes();
    [c[0], c[1], c[2] & 0xf8]
}
pub fn valid_ref(idb: &[u8; 20], ip: Ipv4Addr) -> bool {
    exempt_ref(ip) || [idb[0], idb[1], idb[2] & 0xf8] == prefix_ref(ip, idb[19])
}

pub struct IdStream;

impl Stream for IdStream {
    fn reset(&mut self, _args: &[&str], _out: &mut Out) {}

    fn exec(&mut self, op: &str, out: &mut Out) -> String {
        let t: Vec<&str> = op.split(' ').collect();
        match t.as_slice() {
            ["dist", a, b] => {
                let (Some(a), Some(b)) = (arr20(&unhex(a)), arr20(&unhex(b))) else { return "bad-op".into() };
                let (ia, ib) = (id(&a), id(&b));
                let d = ia.distance(&ib);
                let cp = common_prefix_bits(&a, &b);
                if d as u32 != 160 - cp {
                    out.violation("C19", "distance", format!("distance({},{}) = {} but 160 - common prefix = {}", hex(&a), hex(&b), d, 160 - cp));
                }
                if d != ib.distance(&ia) {
                    out.violation("C19", "distance-symm", "distance not symmetric".into());
                }
                if (d == 0) != (a == b) {
                    out.violation("C19", "distance-zero", "distance zero iff equal violated".into());
                }
                d.to_string()
            }
            // consistency of distance with byte-wise XOR order relative to a target
            ["ordc", a, b, tt] => {
                let (Some(a), Some(b), Some(tt)) = (arr20(&unhex(a)), arr20(&unhex(b)), arr20(&unhex(tt))) else { return "bad-op".into() };
                let (ia, ib, it) = (id(&a), id(&b), id(&tt));
                let (xa, xb) = (ia.xor(&it), ib.xor(&it));
                let (da, db) = (ia.distance(&it), ib.distance(&it));
                if xa < xb && da > db {
                    out.violation("C19", "distance-order", "xor order and distance disagree".into());
                }
                if da < db && xa >= xb {
                    out.violation("C19", "distance-order", "distance smaller but xor not smaller".into());
                }
                format!("{} {} {}", da, db, ord_s(xa.cmp(&xb)))
            }
            ["xor", a, b] => {
                let (Some(a), Some(b)) = (arr20(&unhex(a)), arr20(&unhex(b))) else { return "bad-op".into() };
                let x = id(&a).xor(&id(&b));
                let expect: Vec<u8> = a.iter().zip(b.iter()).map(|(x, y)| x ^ y).collect();
                if x.as_bytes().to_vec() != expect {
                    out.violation("C19", "xor", "xor is not byte-wise xor".into());
                }
                hex(x.as_bytes())
            }
            ["lz", a] => {
                let Some(a) = arr20(&unhex(a)) else { return "bad-op".into() };
                id(&a).leading_zeros().to_string()
            }
            ["idcmp", a, b] => {
                let (Some(a), Some(b)) = (arr20(&unhex(a)), arr20(&unhex(b))) else { return "bad-op".into() };
                ord_s(id(&a).cmp(&id(&b))).to_string()
            }
            ["frombytes", b] => {
                let b = unhex(b);
                let r = guarded(|| Id::from_bytes(&b));
                match r {
                    Err(_) => {
                        out.violation("C19", "from_bytes-panic", format!("Id::from_bytes panics on length {}", b.len()));
                        "panic".into()
                    }
                    Ok(r) => {
                        if r.is_ok() != (b.len() == 20) || r.as_ref().map(|i| i.as_bytes().to_vec() != b).unwrap_or(false) {
                            out.violation("C19", "from_bytes", format!("from_bytes wrong for length {}", b.len()));
                        }
                        match r {
                            Ok(i) => format!("ok:{}", hex(i.as_bytes())),
                            Err(_) => "err:size".to_string(),
                        }
                    }
                }
            }
            ["fromstr", sb] => {
                let bytes = unhex(sb);
                let Ok(s) = String::from_utf8(bytes) else { return "bad-op".into() };
                let r = guarded(|| Id::from_str(&s));
                let res = match &r {
                    Err(_) => "panic".to_string(),
                    Ok(Ok(i)) => format!("ok:{}", hex(i.as_bytes())),
                    Ok(Err(dht::errors::DecodeIdError::OddNumberOfCharacters)) => "err:odd".into(),
                    Ok(Err(dht::errors::DecodeIdError::InvalidHexCharacter(_))) => "err:hex".into(),
                    Ok(Err(dht::errors::DecodeIdError::InvalidIdSize(_))) => "err:size".into(),
                };
                out.count(&format!("fromstr:{}", if res.starts_with("ok") { "ok" } else { &res }));
                match r {
                    Err(_) => out.violation("C19", "fromstr-panic", format!("Id::from_str panics on {:?}", s)),
                    Ok(Ok(i)) => {
                        if !is_hex40(s.as_bytes()) {
                            out.violation("C19", "fromstr-accepts-nonhex", format!("Id::from_str accepts {:?} which is not 40 hex digits", s));
                        } else if hex(i.as_bytes()) != s.to_ascii_lowercase() {
                            out.violation("C19", "fromstr-value", "parsed value differs from the hex digits".into());
                        }
                    }
                    Ok(Err(_)) => {
                        if is_hex40(s.as_bytes()) {
                            out.violation("C19", "fromstr-rejects-hex", format!("Id::from_str rejects 40 hex digits {:?}", s));
                        }
                    }
                }
                res
            }
            ["display", a] => {
                let Some(a) = arr20(&unhex(a)) else { return "bad-op".into() };
                let idv = id(&a);
                let s = idv.to_string();
                if s != hex(&a) {
                    out.violation("C19", "display", "Display is not lowercase hex".into());
                }
                match guarded(|| Id::from_str(&idv.to_string())) {
                    Ok(Ok(back)) if back == idv => {}
                    _ => out.violation("C19", "roundtrip", "from_str(display(id)) != id".into()),
                }
                s
            }
            ["valid", a, ip] => {
                let Some(a) = arr20(&unhex(a)) else { return "bad-op".into() };
                let ip = Ipv4Addr::from(ip.parse::<u32>().expect("ip"));
                let v = id(&a).is_valid_for_ip(ip);
                out.count(if v { "valid:true" } else { "valid:false" });
                if v != valid_ref(&a, ip) {
                    out.violation("C19", "is_valid_for_ip", format!("is_valid_for_ip({}, {}) = {} but BEP42 reference says {}", hex(&a), ip, v, !v));
                }
                v.to_string()
            }
            ["fromip", seed, ip] => {
                let ip = Ipv4Addr::from(ip.parse::<u32>().expect("ip"));
                dht::verif::seed_thread(seed.parse().expect("seed"));
                let i = Id::from_ipv4(ip);
                dht::verif::seed_thread(0);
                if !i.is_valid_for_ip(ip) || !valid_ref(i.as_bytes(), ip) {
                    out.violation("C19", "from_ipv4-invalid", format!("Id::from_ipv4({ip}) = {} is not valid for that ip", hex(i.as_bytes())));
                }
                hex(i.as_bytes())
            }
            _ => "bad-op".into(),
        }
    }
}

fn boundary_ips() -> Vec<Ipv4Addr> {
    let mut v = vec![];
    for base in [
        [10u8, 0, 0, 0], [9, 255, 255, 255], [10, 255, 255, 255], [11, 0, 0, 0],
        [172, 15, 255, 255], [172, 16, 0, 0], [172, 31, 255, 255], [172, 32, 0, 0],
        [192, 167, 255, 255], [192, 168, 0, 0], [192, 168, 255, 255], [192, 169, 0, 0],
        [126, 255, 255, 255], [127, 0, 0, 0], [127, 0, 0, 1], [127, 255, 255, 255], [128, 0, 0, 0],
        [169, 253, 255, 255], [169, 254, 0, 0], [169, 254, 255, 255], [169, 255, 0, 0],
        [0, 0, 0, 0], [255, 255, 255, 255], [124, 31, 75, 21], [21, 75, 31, 124], [65, 23, 51, 170],
        [84, 124, 73, 14], [43, 213, 53, 83], [100, 64, 0, 1], [224, 0, 0, 1],
    ] {
        v.push(Ipv4Addr::from(base));
    }
    v
}

pub fn run(out: &mut Out, seed: u64, thorough: bool, replay: Option<&str>) {
    out.stateless = true;
    let mut s = IdStream;
    if let Some(p) = replay {
        return replay_file(&mut s, out, p);
    }
    let mut rng = Rng::new(seed ^ 0x1d);

    // ---- distance classes: all 161 first-differing-bit positions x random fill
    out.begin(&mut s, "distance-classes");
    let reps = if thorough { 40 } else { 4 };
    for k in 0..=160usize {
        for _ in 0..reps {
            let a = rng.id20();
            let mut b = rng.id20();
            for i in 0..160 {
                let bit = (a[i / 8] >> (7 - i % 8)) & 1;
                let set = |x: &mut [u8; 20], v: u8| {
                    x[i / 8] = (x[i / 8] & !(1 << (7 - i % 8))) | (v << (7 - i % 8));
                };
                if i < k {
                    set(&mut b, bit);
                } else if i == k {
                    set(&mut b, bit ^ 1);
                }
            }
            // target sharing a random-length byte prefix with a (ties on the first differing byte)
            let mut t = a;
            let from = rng.below(21) as usize;
            for x in t.iter_mut().skip(from) {
                *x = rng.next() as u8;
            }
            let (ha, hb, ht) = (hex(&a), hex(&b), hex(&t));
            out.run(&mut s, format!("dist {ha} {hb}"));
            out.run(&mut s, format!("dist {hb} {ha}"));
            out.run(&mut s, format!("xor {ha} {hb}"));
            let x: Vec<u8> = a.iter().zip(b.iter()).map(|(x, y)| x ^ y).collect();
            out.run(&mut s, format!("lz {}", hex(&x)));
            out.run(&mut s, format!("idcmp {ha} {hb}"));
            out.run(&mut s, format!("ordc {ha} {hb} {ht}"));
            out.run(&mut s, format!("ordc {hb} {ha} {ht}"));
            out.count("distance:class");
            out.mark_distinct(k as u64 * 1000 + fnv(&a) % 997);
        }
    }
    let z = hex(&[0u8; 20]);
    let f = hex(&[0xffu8; 20]);
    for (a, b) in [(&z, &z), (&z, &f), (&f, &f)] {
        out.run(&mut s, format!("dist {a} {b}"));
        out.run(&mut s, format!("ordc {a} {b} {z}"));
        out.run(&mut s, format!("lz {a}"));
    }
    out.sample(format!("dist {z} {f}"));

    // ---- from_bytes
    out.begin(&mut s, "from_bytes");
    for len in 0..=45usize {
        let b = rng.bytes(len);
        out.run(&mut s, format!("frombytes {}", hexz(&b)));
        out.count("frombytes");
        out.mark_distinct(1_000_000 + len as u64);
    }

    // ---- Display / from_str
    out.begin(&mut s, "from_str");
    let nvalid = if thorough { 400 } else { 60 };
    for i in 0..nvalid {
        let a = rng.id20();
        out.run(&mut s, format!("display {}", hex(&a)));
        let mixed: String = hex(&a)
            .chars()
            .map(|c| if rng.chance(1, 2) { c.to_ascii_uppercase() } else { c })
            .collect();
        out.run(&mut s, format!("fromstr {}", hexz(mixed.as_bytes())));
        if i < 2 {
            out.sample(format!("fromstr {mixed}"));
        }
        out.mark_distinct(fnv(mixed.as_bytes()));
    }
    // lengths 0..=82 of hex digits (odd and even)
    for len in 0..=82usize {
        let st: String = (0..len).map(|_| *rng.pick(&['0', '1', '9', 'a', 'f', 'A', 'F', '7'])).collect();
        out.run(&mut s, format!("fromstr {}", hexz(st.as_bytes())));
        out.mark_distinct(len as u64 + 7_000_000);
    }
    // one foreign symbol at every position of a valid 40-digit string (replace and insert)
    // every ASCII character that is not a hex digit (control characters included), and a few
    // multi-byte ones
    let mut foreign_owned: Vec<String> = (0u8..128).filter(|b| !(*b as char).is_ascii_hexdigit()).map(|b| (b as char).to_string()).collect();
    for m in ["\u{e9}", "\u{20ac}", "\u{1f600}", "\u{ff}", "\u{ff10}", "\u{661}"] {
        foreign_owned.push(m.to_string());
    }
    let foreign: Vec<&str> = foreign_owned.iter().map(|x| x.as_str()).collect();
    let positions: Vec<usize> = if thorough { (0..=40).collect() } else { vec![0, 1, 2, 3, 19, 20, 21, 38, 39, 40] };
    for sym in &foreign {
        for &pos in &positions {
            let base = hex(&rng.id20());
            let w = sym.len();
            if pos + w <= 40 {
                let st = format!("{}{}{}", &base[..pos], sym, &base[pos + w..]);
                out.run(&mut s, format!("fromstr {}", hexz(st.as_bytes())));
                out.mark_distinct(fnv(st.as_bytes()));
            }
            let st = format!("{}{}{}", &base[..pos.min(40)], sym, &base[pos.min(40)..]);
            out.run(&mut s, format!("fromstr {}", hexz(st.as_bytes())));
            out.mark_distinct(fnv(st.as_bytes()));
        }
    }
    // sign-prefixed pairs: "+1" x 20 and friends
    for pat in ["+1", "+f", "-1", "1+", "++", "+0"] {
        let st = pat.repeat(20);
        out.run(&mut s, format!("fromstr {}", hexz(st.as_bytes())));
        let mut t = hex(&rng.id20());
        t.replace_range(10..12, pat);
        out.run(&mut s, format!("fromstr {}", hexz(t.as_bytes())));
    }
    out.sample("fromstr 2b312b31… (\"+1\" x 20)".into());
    if thorough {
        // exhaustive: every string of length <= 3 over a 9-symbol alphabet embedded at 3 positions
        let alpha = ["0", "a", "F", "+", "-", " ", "g", "\u{e9}", "\u{20ac}"];
        let mut combos: Vec<String> = vec![String::new()];
        let mut level: Vec<String> = vec![String::new()];
        for _ in 0..3 {
            let mut next = vec![];
            for p in &level {
                for a in &alpha {
                    next.push(format!("{p}{a}"));
                }
            }
            combos.extend(next.iter().cloned());
            level = next;
        }
        for c in &combos {
            for pos in [0usize, 17, 37] {
                let base = hex(&rng.id20());
                let w = c.len();
                if pos + w <= 40 {
                    let st = format!("{}{}{}", &base[..pos], c, &base[pos + w..]);
                    out.run(&mut s, format!("fromstr {}", hexz(st.as_bytes())));
                    out.mark_distinct(fnv(st.as_bytes()));
                }
            }
        }
    }

    // ---- BEP42
    out.begin(&mut s, "bep42");
    let ips = boundary_ips();
    for ip in &ips {
        for r in [0u8, 1, 7, 8, 86, 255] {
            let mut idb = rng.id20();
            idb[19] = r;
            let p = prefix_ref(*ip, r);
            idb[0] = p[0];
            idb[1] = p[1];
            idb[2] = p[2] | (idb[2] & 7);
            let ipn = u32::from(*ip);
            out.run(&mut s, format!("valid {} {}", hex(&idb), ipn));
            let mut bad = idb;
            bad[2] ^= 0x08; // 21st bit
            out.run(&mut s, format!("valid {} {}", hex(&bad), ipn));
            let mut low = idb;
            low[2] ^= 0x04; // 22nd bit: not part of the prefix
            out.run(&mut s, format!("valid {} {}", hex(&low), ipn));
            let mut rr = idb;
            rr[19] ^= 1;
            out.run(&mut s, format!("valid {} {}", hex(&rr), ipn));
        }
        out.run(&mut s, format!("fromip {} {}", rng.next() | 1, u32::from(*ip)));
    }
    out.sample(format!("valid <id> {} (boundary ip)", ips[5]));
    // masked-IP domain: id_prefix depends on ip & 0x030f3fff (2+4+6+8 = 20 bits) and r & 7
    let n: u32 = if thorough { 1 << 20 } else { 1 << 13 };
    let stride: u32 = (1u32 << 20) / n;
    let mut k: u32 = rng.below(stride as u64) as u32;
    let mut count = 0u64;
    while k < (1 << 20) {
        let ipv = ((k >> 18) & 0x03) << 24 | ((k >> 14) & 0x0f) << 16 | ((k >> 8) & 0x3f) << 8 | (k & 0xff);
        let noise = (rng.next() as u32) & !0x030f3fff;
        let mut ip = Ipv4Addr::from(ipv | noise);
        if exempt_ref(ip) {
            ip = Ipv4Addr::from(ipv | (noise & !0xfc00_0000) | 0x2000_0000);
        }
        let r = rng.next() as u8;
        let mut idb = rng.id20();
        idb[19] = r;
        let p = prefix_ref(ip, r);
        idb[0] = p[0];
        idb[1] = p[1];
        idb[2] = p[2] | (idb[2] & 7);
        if thorough && k % 16 != 0 {
            // thorough: all 2^20 masked IPs are checked against the reference on the Rust side;
            // every 16th also goes through the Lean driver
            let mut tmp = Out::new(&out.dir);
            s.exec(&format!("valid {} {}", hex(&idb), u32::from(ip)), &mut tmp);
            let mut bad = idb;
            bad[(k % 3) as usize] ^= 1 << (3 + k % 5);
            s.exec(&format!("valid {} {}", hex(&bad), u32::from(ip)), &mut tmp);
            for v in tmp.violations {
                out.violation(&v.property, &v.key, v.what);
            }
            out.count_n("valid:rust-side-only", 2);
        } else {
            out.run(&mut s, format!("valid {} {}", hex(&idb), u32::from(ip)));
            if k % 64 == 0 {
                out.run(&mut s, format!("fromip {} {}", rng.next() | 1, u32::from(ip)));
            }
        }
        count += 1;
        k += stride;
    }
    out.count_n("bep42:masked-domain-points", count);
    out.mark_distinct(count);
}
