//! `rtable` stream (C12, C11, C14): `RoutingTable::{add, remove, reset_id, nodes, size, is_empty,
//! to_bootstrap, closest}` under the virtual clock.
//! Oracle (set-based, from the property text): no own id, unique ids, bucket = distance, <= 20 per
//! bucket, size/iteration/is_empty agree, per-IP Sybil limits, eviction only of a stale bucket
//! head; `closest` = first 20 of the table ordered by (secure first, XOR).
use crate::streams::closest::{expected_dk, mk_node, node_s, nodes_s, secure_id};
use crate::streams::id::valid_ref;
use crate::util::*;
use dht::verif::export::*;
use std::collections::{HashMap, HashSet};
use std::net::{Ipv4Addr, SocketAddrV4};
use std::time::Duration;

const STALE_NS: u64 = 15 * 60 * 1_000_000_000;

fn secure_ref(n: &Node) -> bool {
    valid_ref(n.id().as_bytes(), *n.address().ip())
}
fn p21(n: &Node) -> [u8; 3] {
    let b = n.id().as_bytes();
    [b[0], b[1], b[2] & 0xf8]
}

pub struct RtStream {
    table: RoutingTable,
    own: [u8; 20],
    t0: u64,
}

impl RtStream {
    pub fn new() -> Self {
        RtStream { table: RoutingTable::new(Id::from_bytes([0u8; 20]).expect("id")), own: [0; 20], t0: 0 }
    }
    fn rel(&self, ns: u64) -> u64 {
        ns - self.t0
    }
    fn all(&self) -> Vec<Node> {
        self.table.nodes().collect()
    }
    fn check_invariants(&self, out: &mut Out) {
        let own = Id::from_bytes(self.own).expect("id");
        let buckets = self.table.verif_buckets();
        let flat: Vec<Node> = buckets.iter().flat_map(|(_, ns)| ns.iter().cloned()).collect();
        let iter = self.all();
        // (5) size / iteration / is_empty agree
        if self.table.size() != flat.len() || iter.len() != flat.len() || self.table.is_empty() != flat.is_empty() {
            out.violation("C12", "size-iteration", format!("size()={} nodes().count()={} entries={} is_empty()={}", self.table.size(), iter.len(), flat.len(), self.table.is_empty()));
        } else if self.table.is_empty() != (self.table.size() == 0) {
            out.violation("C12", "is-empty-disagrees", format!("size()={} nodes().count()={} but is_empty()={}", self.table.size(), iter.len(), self.table.is_empty()));
        }
        let iter_ids: Vec<Id> = iter.iter().map(|n| *n.id()).collect();
        let flat_ids: Vec<Id> = flat.iter().map(|n| *n.id()).collect();
        if iter_ids != flat_ids {
            out.violation("C12", "iteration-order", "nodes() does not yield every entry exactly once in bucket order".into());
        }
        let mut seen = HashSet::new();
        for (d, ns) in &buckets {
            // (4)
            if ns.len() > 20 {
                out.violation("C12", "bucket-size", format!("bucket {d} holds {} entries", ns.len()));
            }
            for n in ns {
                // (1)
                if *n.id() == own {
                    out.violation("C12", "own-id", "table contains its own id".into());
                }
                // (2)
                if !seen.insert(*n.id()) {
                    out.violation("C12", "duplicate-id", format!("two entries with id {}", hex(n.id().as_bytes())));
                }
                // (3)
                // (the distance is recomputed here bit by bit, not with the `Id::distance` the table itself uses)
                let dist = distance_ref(&self.own, n.id().as_bytes());
                if dist != *d as usize || *d == 0 {
                    out.violation("C12", "bucket-distance", format!("entry {} at distance {dist} from {} sits in bucket {}", hex(n.id().as_bytes()), hex(&self.own), d));
                }
            }
        }
        // (6) per IP: at most one insecure entry; secure entries pairwise different 21-bit prefix
        let mut by_ip: HashMap<Ipv4Addr, Vec<&Node>> = HashMap::new();
        for n in &flat {
            by_ip.entry(*n.address().ip()).or_default().push(n);
        }
        for (ip, ns) in by_ip {
            let insecure = ns.iter().filter(|n| !secure_ref(n)).count();
            if insecure > 1 {
                out.violation("C12", "sybil-insecure", format!("{insecure} insecure entries on {ip}"));
            }
            let sec: Vec<_> = ns.iter().filter(|n| secure_ref(n)).collect();
            for i in 0..sec.len() {
                for j in i + 1..sec.len() {
                    if p21(sec[i]) == p21(sec[j]) {
                        out.violation("C12", "sybil-prefix", format!("two secure entries on {ip} share a 21-bit prefix"));
                    }
                }
            }
        }
    }
    fn closest_ref(&self, target: &[u8; 20]) -> Vec<Node> {
        // from the buckets themselves, not through the table's own iterator (which `closest` may share)
        let mut v: Vec<Node> = self.table.verif_buckets().iter().flat_map(|(_, ns)| ns.iter().cloned()).collect();
        v.sort_by_key(|n| (!secure_ref(n), n.id().as_bytes().iter().zip(target.iter()).map(|(a, b)| a ^ b).collect::<Vec<u8>>()));
        v.truncate(20);
        v
    }
}

impl Stream for RtStream {
    fn reset(&mut self, args: &[&str], _out: &mut Out) {
        let t = unhex(args.get(1).copied().unwrap_or("0000000000000000000000000000000000000000"));
        self.own.copy_from_slice(&t);
        self.table = RoutingTable::new(Id::from_bytes(t).expect("id"));
        self.t0 = dht::verif::now_ns();
    }

    fn exec(&mut self, op: &str, out: &mut Out) -> String {
        let t: Vec<&str> = op.split(' ').collect();
        match t.as_slice() {
            ["adv", ns] => {
                dht::verif::advance(Duration::from_nanos(ns.parse().expect("ns")));
                self.rel(dht::verif::now_ns()).to_string()
            }
            ["add", idh, addr] => {
                let n = mk_node(idh, addr);
                let now = dht::verif::now_ns();
                let before = self.all();
                let before_buckets = self.table.verif_buckets();
                let r = self.table.add(n.clone());
                let after = self.all();
                // eviction rule: whatever disappeared (other than an entry with the incoming id) must
                // have been the head of the incoming node's bucket and stale
                let own = Id::from_bytes(self.own).expect("id");
                let d = own.distance(n.id());
                for e in &before {
                    let still = after.iter().any(|a| a.id() == e.id());
                    if !still && e.id() != n.id() {
                        let age = now - e.verif_last_seen_ns();
                        let head = before_buckets.iter().find(|(bd, _)| *bd == d).and_then(|(_, ns)| ns.first().cloned());
                        let is_head = head.map(|h| h.id() == e.id()).unwrap_or(false);
                        if age <= STALE_NS {
                            out.violation("C12", "evicts-fresh", format!("add evicted {} which was seen {} ns ago", node_s(e), age));
                        } else if !is_head {
                            out.violation("C12", "evicts-non-head", format!("add evicted {} which was not the least-recently-seen entry of its bucket", node_s(e)));
                        }
                    }
                }
                // C14 (node level): a known peer that is heard from again (same id, same address) is
                // refreshed: its last_seen becomes `now` — unless the table refuses it for capacity
                if let Some(old) = before.iter().find(|e| e.id() == n.id() && e.address() == n.address()) {
                    let refreshed = after.iter().any(|a| a.id() == n.id() && a.verif_last_seen_ns() == now);
                    if !refreshed && old.verif_last_seen_ns() != now {
                        out.violation("C14", "readd-not-refreshed", format!("re-adding the known node {} does not refresh its last_seen (stays {} ns old)", node_s(&n), now - old.verif_last_seen_ns()));
                    }
                }
                self.check_invariants(out);
                r.to_string()
            }
            ["remove", idh] => {
                let gone = Id::from_bytes(unhex(idh)).expect("id");
                let before: Vec<Id> = self.all().iter().map(|n| *n.id()).filter(|i| *i != gone).collect();
                self.table.remove(&gone);
                // removing an entry leaves the others where they are: a bucket lists its entries in the order in which
                // they were added or refreshed, and its head is the entry `add` considers for eviction
                let after: Vec<Id> = self.all().iter().map(|n| *n.id()).collect();
                if after != before {
                    out.violation("C12", "remove-reorders", format!("removing {} changed the order of the remaining entries (the head of a bucket is no longer its least recently added or refreshed entry)", hex(gone.as_bytes())));
                }
                self.check_invariants(out);
                "ok".into()
            }
            ["rekey", idh] => {
                let idb = unhex(idh);
                let before = self.all().len();
                self.table.verif_reset_id(Id::from_bytes(&idb).expect("id"));
                self.own.copy_from_slice(&idb);
                self.check_invariants(out);
                format!("{}->{}", before, self.all().len())
            }
            ["nodes"] => {
                let v = self.all();
                if v.is_empty() {
                    "-".into()
                } else {
                    v.iter().map(|n| format!("{}+{}", node_s(n), self.rel(n.verif_last_seen_ns()))).collect::<Vec<_>>().join(",")
                }
            }
            ["buckets"] => {
                let b = self.table.verif_buckets();
                if b.is_empty() {
                    "-".into()
                } else {
                    b.iter().map(|(d, ns)| format!("{}:{}", d, ns.iter().map(|n| hex(&n.id().as_bytes()[..4])).collect::<Vec<_>>().join("/"))).collect::<Vec<_>>().join(",")
                }
            }
            ["size"] => format!("{} {}", self.table.size(), self.table.is_empty()),
            ["boot"] => {
                let mut v = self.table.to_bootstrap();
                let expect: Vec<String> = self.all().iter().filter(|n| dht::verif::now_ns() - n.verif_last_seen_ns() <= STALE_NS).map(|n| n.address().to_string()).collect();
                if v != expect {
                    out.violation("C12", "to_bootstrap", "to_bootstrap is not the list of non-stale entries".into());
                }
                v.sort();
                v.len().to_string()
            }
            ["closest", th] => {
                let tb = unhex(th);
                let mut tt = [0u8; 20];
                tt.copy_from_slice(&tb);
                let r = self.table.closest(Id::from_bytes(&tb).expect("id"));
                let expect = self.closest_ref(&tt);
                let got: Vec<(Id, SocketAddrV4)> = r.iter().map(|n| (*n.id(), n.address())).collect();
                let exp: Vec<(Id, SocketAddrV4)> = expect.iter().map(|n| (*n.id(), n.address())).collect();
                if got != exp {
                    let what = if r.len() > 20 {
                        "more than 20".to_string()
                    } else if let Some(m) = expect.iter().find(|e| !r.iter().any(|g| g.id() == e.id())) {
                        format!("omits table member {} which is among the 20 closest (secure first, XOR)", node_s(m))
                    } else {
                        "wrong order".to_string()
                    };
                    out.violation("C11", "table-closest", format!("RoutingTable::closest({}) {}", hex(&tb), what));
                }
                nodes_s(&r)
            }
            _ => "bad-op".into(),
        }
    }
}

fn id_at_distance(rng: &mut Rng, own: &[u8; 20], d: usize) -> [u8; 20] {
    // distance d in 1..=160: first 160-d bits equal, bit (160-d) differs
    let mut b = rng.id20();
    let k = 160 - d;
    for i in 0..160 {
        let bit = (own[i / 8] >> (7 - i % 8)) & 1;
        if i < k {
            b[i / 8] = (b[i / 8] & !(1 << (7 - i % 8))) | (bit << (7 - i % 8));
        } else if i == k {
            b[i / 8] = (b[i / 8] & !(1 << (7 - i % 8))) | ((bit ^ 1) << (7 - i % 8));
        }
    }
    b
}

pub fn run(out: &mut Out, seed: u64, thorough: bool, replay: Option<&str>) {
    let mut s = RtStream::new();
    if let Some(p) = replay {
        return replay_file(&mut s, out, p);
    }
    let mut rng = Rng::new(seed ^ 0x7ab1e);
    let cases = if thorough { 120 } else { 16 };
    for c in 0..cases {
        let own = rng.id20();
        out.begin(&mut s, &format!("rtable {}", hex(&own)));
        // universe: ids clustered at 1-3 distances (full buckets), several ids per IP (secure with
        // the 8 prefixes and insecure), repeated ids with changed port / IP
        let dists: Vec<usize> = (0..1 + rng.below(3)).map(|_| 150 + rng.below(11) as usize).collect();
        let ips: Vec<Ipv4Addr> = (0..4 + rng.below(30)).map(|i| if i % 9 == 8 { Ipv4Addr::new(10, 0, 0, i as u8) } else { Ipv4Addr::new(50 + (i % 100) as u8, rng.next() as u8, rng.next() as u8, 1 + rng.below(200) as u8) }).collect();
        let mut uni: Vec<(String, String)> = vec![];
        let n = if c % 4 == 0 { 12 } else { 30 + rng.below(60) as usize };
        for _ in 0..n {
            let ip = *rng.pick(&ips);
            let port = 1000 + rng.below(5) as u16;
            let idb = match rng.below(6) {
                0 | 1 => {
                    let r = rng.below(8) as u8;
                    secure_id(&mut rng, ip, r)
                }
                2 | 3 => {
                    let d = *rng.pick(&dists);
                    id_at_distance(&mut rng, &own, d)
                }
                4 => {
                    // secure AND at a clustered distance is rarely possible; take a random id
                    rng.id20()
                }
                _ => {
                    let d = 1 + rng.below(160) as usize;
                    id_at_distance(&mut rng, &own, d)
                }
            };
            uni.push((hex(&idb), addr_s(&SocketAddrV4::new(ip, port))));
        }
        uni.push((hex(&own), addr_s(&SocketAddrV4::new(ips[0], 1))));
        let steps = if c % 4 == 0 { 40 } else { 150 + rng.below(250) };
        for step in 0..steps {
            match rng.below(100) {
                0..=64 => {
                    let (idh, addr) = rng.pick(&uni).clone();
                    out.run(&mut s, format!("add {idh} {addr}"));
                    out.count("op:add");
                }
                65..=72 => {
                    // known id, changed port or changed IP
                    let (idh, addr) = rng.pick(&uni).clone();
                    let a = parse_addr(&addr);
                    let na = if rng.chance(1, 2) { SocketAddrV4::new(*a.ip(), a.port() + 1) } else { SocketAddrV4::new(*rng.pick(&ips), a.port()) };
                    out.run(&mut s, format!("add {idh} {}", addr_s(&na)));
                    out.count("op:add-changed-addr");
                }
                73..=80 => {
                    let (idh, _) = rng.pick(&uni).clone();
                    out.run(&mut s, format!("remove {idh}"));
                    out.count("op:remove");
                }
                81..=90 => {
                    // clock: straddle the 15-minute staleness boundary
                    let ns = *rng.pick(&[1u64, 1_000_000_000, 60_000_000_000, 299_999_999_999, 300_000_000_000, 600_000_000_000, 899_999_999_999, 900_000_000_000, 900_000_000_001]);
                    out.run(&mut s, format!("adv {ns}"));
                    out.count("op:adv");
                }
                91..=92 => {
                    // a fresh id, or (one time in three) the id of a node of the universe, which may
                    // be in the table: the table must not end up holding its own id
                    let nid = if rng.chance(1, 3) { unhex(&rng.pick(&uni).0) } else { rng.id20().to_vec() };
                    out.run(&mut s, format!("rekey {}", hex(&nid)));
                    out.run(&mut s, "size".into());
                    out.count("op:rekey");
                }
                93..=96 => {
                    let tgt = if rng.chance(1, 3) { unhex(&rng.pick(&uni).0) } else { rng.id20().to_vec() };
                    out.run(&mut s, format!("closest {}", hex(&tgt)));
                    out.count("op:closest");
                }
                _ => {
                    out.run(&mut s, "size".into());
                    out.run(&mut s, "boot".into());
                    if step % 3 == 0 {
                        out.run(&mut s, "buckets".into());
                    }
                }
            }
        }
        out.run(&mut s, "nodes".into());
        out.run(&mut s, "buckets".into());
        out.run(&mut s, format!("closest {}", hex(&own)));
        // drain the table: size, iteration and is_empty must agree on the empty table again
        if c % 2 == 0 {
            for (idh, _) in uni.clone() {
                out.run(&mut s, format!("remove {idh}"));
            }
            out.run(&mut s, "size".into());
            out.run(&mut s, "nodes".into());
        }
        out.mark_distinct(fnv(&own));
        if c == 0 {
            out.sample(format!("case rtable {}: add/remove/rekey/adv/closest x{}", hex(&own), steps));
        }
    }
    let _ = expected_dk;
}

/// 160 minus the number of leading zero bits of `a xor b`
pub fn distance_ref(a: &[u8; 20], b: &[u8; 20]) -> usize {
    for i in 0..160 {
        let (x, y) = (a[i / 8] >> (7 - i % 8) & 1, b[i / 8] >> (7 - i % 8) & 1);
        if x != y {
            return 160 - i;
        }
    }
    0
}
