//! `socket` stream (C09): `KrpcSocket` request / response attribution on the simulated UDP.
//! Oracle: a response or error is handed up only if it carries the transaction id of an
//! outstanding, unexpired request and comes from the address that request was sent to; it is
//! consumed at most once; anything else leaves the outstanding requests untouched.
use crate::util::*;
use dht::verif::export::*;
use dht::verif::{self, Msg};
use std::collections::HashMap;
use std::net::{Ipv4Addr, SocketAddrV4};
use std::time::Duration;

pub struct SocketStream {
    socket: Option<KrpcSocket>,
    me: SocketAddrV4,
    /// reference: outstanding requests
    /// tid -> (sent to, sent at, was seen expired at some point: the socket may have dropped it)
    outstanding: HashMap<u32, (SocketAddrV4, u64, bool)>,
}

impl SocketStream {
    pub fn new() -> Self {
        SocketStream { socket: None, me: SocketAddrV4::new(Ipv4Addr::new(45, 0, 0, 8), 6881), outstanding: HashMap::new() }
    }
}

fn addr_match(to: &SocketAddrV4, from: &SocketAddrV4) -> bool {
    to.port() == from.port() && (to.ip().is_unspecified() || to.ip() == from.ip())
}

impl Stream for SocketStream {
    fn reset(&mut self, args: &[&str], _out: &mut Out) {
        // socket <server 0|1> <t0> [first tid]
        verif::reset_net();
        verif::set_now_ns(args[2].parse().expect("t0"));
        verif::prepare_bind(*self.me.ip(), 1, true);
        let cfg = Config { port: Some(self.me.port()), server_mode: args[1] == "1", ..Default::default() };
        let mut s = KrpcSocket::verif_new(&cfg).expect("socket");
        if let Some(t) = args.get(3) {
            s.verif_set_next_tid(t.parse().expect("tid"));
        }
        self.socket = Some(s);
        self.outstanding.clear();
    }

    fn exec(&mut self, op: &str, out: &mut Out) -> String {
        let t: Vec<&str> = op.split(' ').collect();
        let socket = self.socket.as_mut().expect("socket");
        let now = verif::now_ns();
        {
            let timeout = socket.verif_inflight().3;
            for (_, (_, sent_at, seen_expired)) in self.outstanding.iter_mut() {
                if now - *sent_at >= timeout {
                    *seen_expired = true;
                }
            }
        }
        match t.as_slice() {
            ["sreq", addr] => {
                let a = parse_addr(addr);
                let tid = socket.request(a, dht::RequestSpecific { requester_id: Id::from_bytes([7; 20]).expect("id"), request_type: RequestTypeSpecific::Ping });
                let sent = verif::drain_outbox();
                if let Some((a0, sent_at, seen_expired)) = self.outstanding.insert(tid, (a, now, false)) {
                    // the caller of `request` (a lookup or a put) files the request under this id
                    if !seen_expired && now - sent_at < socket.verif_inflight().3 {
                        out.violation("C09", "tid-reused", format!("request() to {} returned transaction id {tid}, which the request to {} issued {} ns ago still carries: a reply with that id is attributed to both", addr_s(&a), addr_s(&a0), now - sent_at));
                    }
                }
                let ro = sent.last().and_then(|(_, _, b)| Msg::from_bytes(b).ok()).map(|m| m.read_only()).unwrap_or(false);
                format!("tid={} ro={}", tid, ro as u8)
            }
            ["adv", ns] => {
                verif::advance(Duration::from_nanos(ns.parse().expect("ns")));
                verif::now_ns().to_string()
            }
            // the request timeout is an input of the model: the generator writes the socket's own
            // value whenever it changed
            ["timeout", ns] => {
                let actual = socket.verif_inflight().3;
                if ns.parse::<u64>().ok() == Some(actual) { "ok".into() } else { format!("timeout-is {actual}") }
            }
            ["recv", from, tid, kind] | ["recvraw", from, tid, kind] => {
                let raw = op.starts_with("recvraw");
                let from = parse_addr(from);
                let timeout = socket.verif_inflight().3;
                // `recvraw` carries the bytes of the `t` field: only 2 and 4 bytes are a transaction id
                let (tid_opt, bytes): (Option<u32>, Vec<u8>) = if raw {
                    let t = unhex(tid);
                    let tid_opt = match t.len() {
                        4 => Some(u32::from_be_bytes([t[0], t[1], t[2], t[3]])),
                        2 => Some(u16::from_be_bytes([t[0], t[1]]) as u32),
                        _ => None,
                    };
                    let mut b: Vec<u8> = vec![];
                    match *kind {
                        "ok" => b.extend_from_slice(b"d1:rd2:id20:\x09\x09\x09\x09\x09\x09\x09\x09\x09\x09\x09\x09\x09\x09\x09\x09\x09\x09\x09\x09e"),
                        _ => b.extend_from_slice(b"d1:eli201e1:ee"),
                    }
                    b.extend_from_slice(format!("1:t{}:", t.len()).as_bytes());
                    b.extend_from_slice(&t);
                    b.extend_from_slice(if *kind == "ok" { b"1:y1:re" } else { b"1:y1:ee" });
                    (tid_opt, b)
                } else {
                    let tid: u32 = tid.parse().expect("tid");
                    let mt = match *kind {
                        "ok" => MessageType::Response(ResponseSpecific::Ping(PingResponseArguments { responder_id: Id::from_bytes([9; 20]).expect("id") })),
                        "err" => MessageType::Error(ErrorSpecific { code: 201, description: "e".into() }),
                        _ => MessageType::Request(dht::RequestSpecific { requester_id: Id::from_bytes([9; 20]).expect("id"), request_type: RequestTypeSpecific::Ping }),
                    };
                    (Some(tid), Msg::new(tid, None, None, mt, false).to_bytes().expect("enc"))
                };
                if tid_opt.is_none() {
                    verif::deliver(self.me, bytes, from);
                    let r = guarded(std::panic::AssertUnwindSafe(|| socket.verif_recv()));
                    return match r {
                        Err(m) => {
                            out.violation("C05", "socket-panic", format!("KrpcSocket::recv_from panicked: {m}"));
                            "panic".into()
                        }
                        Ok(Some(_)) => {
                            out.violation("C09", "accepted-unexpected", format!("a message whose `t` field is {} bytes long ({tid}) was accepted: it is not the transaction id of any request (ids are sent on 4 bytes)", tid.len() / 2));
                            out.violation("C10", "tid-length-accepted", format!("a `t` field of {} bytes was decoded as a transaction id", tid.len() / 2));
                            "accepted".into()
                        }
                        Ok(None) => {
                            out.count("rejected-malformed-tid");
                            "dropped".into()
                        }
                    };
                }
                let tid = tid_opt.expect("tid");
                verif::deliver(self.me, bytes, from);
                let r = guarded(std::panic::AssertUnwindSafe(|| socket.verif_recv()));
                let got = match r {
                    Err(m) => {
                        out.violation("C05", "socket-panic", format!("KrpcSocket::recv_from panicked: {m}"));
                        return "panic".into();
                    }
                    Ok(g) => g,
                };
                if *kind == "req" {
                    // requests are always handed up (port 0 aside)
                    return if got.is_some() { "request".into() } else { "dropped".into() };
                }
                // ---- oracle
                let expect = match self.outstanding.get(&tid) {
                    Some((to, sent_at, _)) => now - sent_at < timeout && addr_match(to, &from) && from.port() != 0,
                    None => false,
                };
                // a request that was expired at some point may have been dropped by `cleanup`, or be
                // live again because the timeout grew: both are fine
                let resurrected = self.outstanding.get(&tid).map(|x| x.2).unwrap_or(false);
                let accepted = got.is_some();
                if accepted && !expect {
                    let why = match self.outstanding.get(&tid) {
                        None => "no outstanding request with that transaction id (unknown or already consumed)".to_string(),
                        Some((to, sent_at, _)) => {
                            if !addr_match(to, &from) {
                                format!("it came from {from} but the request went to {to}")
                            } else {
                                format!("the request expired ({} ns old, timeout {} ns)", now - sent_at, timeout)
                            }
                        }
                    };
                    out.violation("C09", "accepted-unexpected", format!("a response with tid {tid} was accepted although {why}"));
                }
                if !accepted && expect && !resurrected {
                    out.violation("C09", "genuine-rejected", format!("the genuine response with tid {tid} from {from} was dropped (an earlier message with that tid from another source consumed the request?)"));
                }
                // a reply from the right address consumes the request, in time or not
                if self.outstanding.get(&tid).map(|(to, _, _)| addr_match(to, &from) && from.port() != 0).unwrap_or(false) {
                    self.outstanding.remove(&tid);
                }
                // a rejected message must not change what is outstanding
                for (otid, (_, sent_at, seen_expired)) in self.outstanding.iter() {
                    let live_ref = now - sent_at < socket.verif_inflight().3 && !seen_expired;
                    if socket.inflight(otid) != live_ref && live_ref {
                        out.violation("C09", "rejected-message-consumed-request", format!("after a message with another transaction id or from another address, request {otid} is no longer outstanding"));
                        break;
                    }
                }
                out.count(if accepted { "accepted" } else if self.outstanding.contains_key(&tid) { "rejected-known-tid" } else { "rejected-unknown-tid" });
                (if accepted { "accepted" } else { "dropped" }).into()
            }
            ["inflight", tid] => socket.inflight(&tid.parse().expect("tid")).to_string(),
            ["state"] => {
                let (next, reqs, cap, timeout) = socket.verif_inflight();
                let live = reqs.iter().filter(|(_, _, s)| now - s < timeout).count();
                format!("next={} live={} len={} cap={}", next, live, reqs.len(), cap)
            }
            _ => "bad-op".into(),
        }
    }
}

pub fn run(out: &mut Out, seed: u64, thorough: bool, replay: Option<&str>) {
    let mut s = SocketStream::new();
    if let Some(p) = replay {
        return replay_file(&mut s, out, p);
    }
    let mut rng = Rng::new(seed ^ 0x50c);
    let peers: Vec<SocketAddrV4> = vec![
        SocketAddrV4::new(Ipv4Addr::new(50, 1, 1, 1), 6881),
        SocketAddrV4::new(Ipv4Addr::new(50, 1, 1, 2), 6881),
        SocketAddrV4::new(Ipv4Addr::new(50, 1, 1, 1), 6882),
        SocketAddrV4::new(Ipv4Addr::new(0, 0, 0, 0), 6881),
        SocketAddrV4::new(Ipv4Addr::new(66, 6, 6, 6), 0),
    ];
    let adversaries: Vec<SocketAddrV4> = vec![
        SocketAddrV4::new(Ipv4Addr::new(66, 6, 6, 6), 6881),
        SocketAddrV4::new(Ipv4Addr::new(50, 1, 1, 1), 7000),
        SocketAddrV4::new(Ipv4Addr::new(50, 1, 1, 2), 6881),
    ];
    let cases = if thorough { 400 } else { 60 };
    for c in 0..cases {
        let first_tid = *rng.pick(&[0u32, 1, 65535, 65536, u32::MAX - 3]);
        out.begin(&mut s, &format!("socket {} {} {}", c % 2, 7_000_000_000_000_000u64 + c as u64 * 1_000_000_000_000, first_tid));
        let mut tids: Vec<(u32, SocketAddrV4)> = vec![];
        let steps = 12 + rng.below(30);
        let mut last_timeout = 500_000_000u64;
        for _ in 0..steps {
            let timeout = s.socket.as_ref().map(|k| k.verif_inflight().3).unwrap_or(0);
            if timeout != last_timeout {
                last_timeout = timeout;
                out.run(&mut s, format!("timeout {timeout}"));
                out.count("timeout-changed");
            }
            match rng.below(10) {
                0..=2 => {
                    let a = *rng.pick(&peers);
                    let r = out.run(&mut s, format!("sreq {}", addr_s(&a)));
                    if let Some(t) = r.strip_prefix("tid=").and_then(|x| x.split(' ').next()).and_then(|x| x.parse().ok()) {
                        tids.push((t, a));
                    }
                }
                3..=4 if !tids.is_empty() => {
                    // genuine reply (possibly a duplicate of an earlier one)
                    let (t, a) = *rng.pick(&tids);
                    let from = if a.ip().is_unspecified() { SocketAddrV4::new(Ipv4Addr::new(127, 0, 0, 1), a.port()) } else { a };
                    if rng.chance(1, 3) {
                        // from the right address, but the `t` bytes are only an alias of the request's four:
                        // prefixed, or with leading zero bytes dropped, or empty
                        let be = t.to_be_bytes();
                        let alias: Vec<u8> = match rng.below(5) {
                            0 => [&[0xde, 0xad][..], &be[..]].concat(),
                            1 => [&[0x00][..], &be[..]].concat(),
                            2 => be[1..].to_vec(),
                            3 => be[3..].to_vec(),
                            _ => vec![],
                        };
                        out.run(&mut s, format!("recvraw {} {} {}", addr_s(&from), if alias.is_empty() { "-".to_string() } else { hex(&alias) }, rng.pick(&["ok", "err"])));
                    }
                    if rng.chance(1, 4) {
                        // the request's id on the two-byte form some implementations use
                        if t < 65536 {
                            out.run(&mut s, format!("recvraw {} {} {}", addr_s(&from), hex(&(t as u16).to_be_bytes()), rng.pick(&["ok", "err"])));
                        }
                    }
                    if rng.chance(1, 3) {
                        // from the right address, an id that differs from the request's by a multiple of 2^16
                        let k = *rng.pick(&[1u32, 7, 0xFFFF, 0x8000]);
                        let alias = if rng.chance(1, 2) { t.wrapping_add(k.wrapping_mul(65536)) } else { t.wrapping_sub(k.wrapping_mul(65536)) };
                        out.run(&mut s, format!("recv {} {} {}", addr_s(&from), alias, rng.pick(&["ok", "err"])));
                    }
                    out.run(&mut s, format!("recv {} {} {}", addr_s(&from), t, rng.pick(&["ok", "err"])));
                }
                5..=6 => {
                    // spoof: guessed (sequential) tid from a wrong ip / wrong port / unrelated address
                    let t = if tids.is_empty() || rng.chance(1, 4) { first_tid.wrapping_add(rng.below(6) as u32) } else { rng.pick(&tids).0 };
                    let from = *rng.pick(&adversaries);
                    out.run(&mut s, format!("recv {} {} {}", addr_s(&from), t, rng.pick(&["ok", "err"])));
                }
                7 => {
                    let ns = *rng.pick(&[1u64, 1_000_000, 100_000_000, 499_999_999, 500_000_000, 500_000_001, 2_000_000_000]);
                    out.run(&mut s, format!("adv {ns}"));
                }
                8 if !tids.is_empty() => {
                    out.run(&mut s, format!("inflight {}", rng.pick(&tids).0));
                }
                _ => {
                    out.run(&mut s, format!("recv {} {} req", addr_s(rng.pick(&adversaries)), rng.next() as u32));
                    out.run(&mut s, "state".into());
                }
            }
        }
        out.mark_distinct(rng.0);
    }
    out.sample("case socket 0 t0 0: sreq 50.1.1.1:6881 -> tid=0; recv 66.6.6.6:6881 0 ok (spoof); recv 50.1.1.1:6881 0 ok (genuine)".into());
}
