//! `net` stream: whole simulated networks of real nodes (C01, C07, C13, C14, C18, C20).
//! Each op runs a scenario from its parameters and prints a canonical verdict; the monitors are
//! the property statements evaluated on the implementation's own trace.
use crate::sim::*;
use crate::util::*;
use dht::verif::export::*;
use std::net::{Ipv4Addr, SocketAddrV4};

pub struct NetStream;

pub fn server_ip(i: usize, public: bool) -> Ipv4Addr {
    if public {
        Ipv4Addr::new(45, (i / 250) as u8, 0, 1 + (i % 250) as u8)
    } else {
        Ipv4Addr::new(10, 0, (i / 250) as u8, 1 + (i % 250) as u8)
    }
}

/// sequentially joined network: node 0 has no bootstrap, the others bootstrap from node 0
pub fn build_network(sim: &mut Sim, servers: usize, clients: usize, public: bool) -> Vec<usize> {
    let mut idx = vec![];
    let first = SocketAddrV4::new(server_ip(0, public), 6881);
    for i in 0..servers {
        let boot: Vec<SocketAddrV4> = if i == 0 { vec![] } else { vec![first] };
        let n = sim.add_node(server_ip(i, public), 6881, true, &boot, None, None);
        idx.push(n);
        sim.run(300 * MS, 1 * MS);
    }
    for c in 0..clients {
        let n = sim.add_node(server_ip(1000 + c, public), 6881, false, &[first], None, None);
        idx.push(n);
        sim.run(300 * MS, 1 * MS);
    }
    sim.run(2 * SEC, 5 * MS);
    idx
}

impl Stream for NetStream {
    fn reset(&mut self, _args: &[&str], _out: &mut Out) {}
    fn exec(&mut self, op: &str, out: &mut Out) -> String {
        let t: Vec<&str> = op.split(' ').collect();
        match t.as_slice() {
            // putget <seed> <servers> <clients> <writer> <reader> <public 0|1>
            ["putget", seed, servers, clients, writer, reader, public] => {
                let (servers, clients): (usize, usize) = (servers.parse().unwrap(), clients.parse().unwrap());
                let (w, r): (usize, usize) = (writer.parse().unwrap(), reader.parse().unwrap());
                let mut sim = Sim::new(seed.parse().unwrap(), 5_000_000_000_000_000);
                sim.record_trace = false;
                let idx = build_network(&mut sim, servers, clients, *public == "1");
                let value = format!("value-{seed}").into_bytes();
                let dw = sim.nodes[idx[w]].dht.clone().as_async();
                let v2 = value.clone();
                let mut put = Pending::new(async move { dw.put_immutable(&v2).await });
                let ok = sim.run_until(60 * SEC, 2 * MS, |_| put.poll());
                if !ok {
                    out.violation("C06", "put-hangs", format!("put_immutable did not complete within 60 virtual seconds ({servers} servers)"));
                    return "put-timeout".into();
                }
                let target = match put.result.take().unwrap() {
                    Ok(t) => t,
                    Err(e) => return format!("put-err:{e:?}"),
                };
                let dr = sim.nodes[idx[r]].dht.clone().as_async();
                let mut get = Pending::new(async move { dr.get_immutable(target).await });
                let ok = sim.run_until(60 * SEC, 2 * MS, |_| get.poll());
                if !ok {
                    out.violation("C06", "get-hangs", "get_immutable did not complete within 60 virtual seconds".into());
                    return "get-timeout".into();
                }
                let got = get.result.take().unwrap();
                if let Some(p) = sim.any_panicked() {
                    out.violation("C05", "actor-panic", format!("actor thread of node {p} panicked"));
                }
                match got {
                    Some(v) if v.to_vec() == value => "found".into(),
                    Some(_) => {
                        out.violation("C02", "wrong-value", "get_immutable returned other bytes".into());
                        "wrong".into()
                    }
                    None => {
                        if servers <= 20 {
                            out.violation("C01", "put-then-get-miss", format!("put Ok on node {w}, get on node {r} found nothing ({servers} servers, {clients} clients)"));
                        }
                        "missing".into()
                    }
                }
            }
            _ => "bad-op".into(),
        }
    }
}

pub fn run(out: &mut Out, seed: u64, thorough: bool, replay: Option<&str>) {
    out.stateless = true;
    let mut s = NetStream;
    if let Some(p) = replay {
        return replay_file(&mut s, out, p);
    }
    let mut rng = Rng::new(seed ^ 0x9e7);
    out.begin(&mut s, "net");
    let n = if thorough { 40 } else { 6 };
    for _ in 0..n {
        let servers = 1 + rng.below(12) as usize;
        let clients = rng.below(3) as usize;
        let total = servers + clients;
        let w = rng.below(total as u64) as usize;
        let mut r = rng.below(total as u64) as usize;
        if r == w {
            r = (r + 1) % total;
        }
        if total == 1 {
            continue;
        }
        out.run(&mut s, format!("putget {} {} {} {} {} {}", rng.next() % 100000, servers, clients, w, r, rng.below(2)));
        out.mark_distinct(rng.0);
    }
}
