//! `mnet` stream (C01, C13, C07): SEVERAL real nodes in one simulated network, each an actor thread
//! stepped in lockstep; the harness is the network (latency, loss, crashes).  Ops are the `node`
//! stream's ops prefixed with the node index (`n3 step from=… re=… msg=…`), so the Lean model runs
//! one `Actor` per node on the same lines.  Monitors: put-then-get completeness (C01), joining
//! (C13), every-server-is-queried for ≤ 20 servers (C07 / C13).
use crate::streams::node::*;
use crate::util::*;
use dht::verif::export::*;
use dht::verif::{self, Msg};
use dht::MutableItem;
use std::collections::{HashMap, HashSet};
use std::net::{Ipv4Addr, SocketAddrV4};
use std::time::Duration;

pub struct MnetStream {
    pub nodes: Vec<NodeStream>,
}

impl MnetStream {
    pub fn new() -> Self {
        MnetStream { nodes: vec![] }
    }
    fn shutdown(&mut self) {
        for n in self.nodes.iter_mut() {
            n.shutdown();
        }
        self.nodes.clear();
    }
}

impl Stream for MnetStream {
    fn reset(&mut self, args: &[&str], _out: &mut Out) {
        // mnet t0=<ns>
        self.shutdown();
        verif::reset_net();
        let t0: u64 = args.iter().find_map(|a| a.strip_prefix("t0=")).expect("t0").parse().expect("t0");
        verif::set_now_ns(t0);
    }
    fn exec(&mut self, op: &str, out: &mut Out) -> String {
        let (head, rest) = op.split_once(' ').unwrap_or((op, ""));
        match head {
            "adv" => {
                verif::advance(Duration::from_nanos(rest.parse().expect("ns")));
                verif::now_ns().to_string()
            }
            // node <i> mode=.. boot=.. ip=.. pub=.. seed=..
            "node" => {
                let toks: Vec<&str> = rest.split(' ').collect();
                let i: usize = toks[0].parse().expect("index");
                if i != self.nodes.len() {
                    return "bad-op".into();
                }
                let mut n = NodeStream::new();
                n.multi = true;
                let mut args = vec!["node"];
                args.extend_from_slice(&toks[1..]);
                n.reset(&args, out);
                let r = n.exec("init", out);
                self.nodes.push(n);
                r
            }
            "know" => match self.nodes.first_mut() {
                Some(n) => n.exec(op, out),
                None => "bad-op".into(),
            },
            h if h.starts_with('n') => match h[1..].parse::<usize>() {
                Ok(i) if i < self.nodes.len() => self.nodes[i].exec(rest, out),
                _ => "bad-op".into(),
            },
            _ => "bad-op".into(),
        }
    }
}

pub struct Wire {
    pub due: u64,
    pub to: usize,
    pub from: SocketAddrV4,
    pub tid: u32,
    pub re: Option<String>,
    pub msg: Msg,
    pub seq: u64,
}

pub struct Net<'a> {
    pub s: MnetStream,
    pub out: &'a mut Out,
    pub rng: Rng,
    pub wire: Vec<Wire>,
    pub latency: u64,
    pub seq: u64,
    pub by_addr: HashMap<SocketAddrV4, usize>,
    pub alive: Vec<bool>,
    pub next_call: Vec<u32>,
    pub known: HashSet<String>,
    /// (from node, to address, request kind/target) of every request ever sent
    pub requests: Vec<(usize, SocketAddrV4, String)>,
    /// (acknowledging node, writer, put request key) of every store acknowledgement put on the wire
    pub acks: Vec<(usize, usize, String)>,
    pub drop_pct: u64,
}

impl<'a> Net<'a> {
    pub fn new(out: &'a mut Out, seed: u64) -> Self {
        Net { s: MnetStream::new(), out, rng: Rng::new(seed), wire: vec![], latency: 5 * MS, seq: 0, by_addr: HashMap::new(), alive: vec![], next_call: vec![], known: HashSet::new(), requests: vec![], acks: vec![], drop_pct: 0 }
    }
    pub fn begin(&mut self, t0: u64) {
        self.wire.clear();
        self.by_addr.clear();
        self.alive.clear();
        self.next_call.clear();
        self.known.clear();
        self.requests.clear();
        self.acks.clear();
        self.out.begin(&mut self.s, &format!("mnet t0={t0}"));
    }
    /// run one op, then route what the stepped node sent
    pub fn run(&mut self, op: String) -> String {
        let before: Vec<usize> = self.s.nodes.iter().map(|n| n.all_sent.len()).collect();
        let r = self.out.run(&mut self.s, op);
        let now = verif::now_ns();
        for i in 0..self.s.nodes.len() {
            let start = before.get(i).copied().unwrap_or(0);
            let sent: Vec<Sent> = self.s.nodes[i].all_sent[start..].to_vec();
            let from = self.s.nodes[i].addr;
            for s in sent {
                if let Some(k) = &s.key {
                    self.requests.push((i, s.to, k.clone()));
                }
                let Some(&j) = self.by_addr.get(&s.to) else { continue };
                if !self.alive[j] || !self.alive[i] {
                    continue;
                }
                if self.rng.below(100) < self.drop_pct {
                    continue;
                }
                let tid = s.msg.transaction_id();
                // a response answers one of j's own requests: find its key
                let re = match s.msg.message_type() {
                    MessageType::Request(_) => None,
                    _ => self.s.nodes[j].reqs.iter().find(|(k, t)| **t == tid && k.starts_with(&format!("{}/", addr_s(&from)))).map(|(k, _)| k.clone()),
                };
                if !matches!(s.msg.message_type(), MessageType::Request(_)) && re.is_none() {
                    continue; // answer to a request the receiver no longer knows: dropped by its socket anyway
                }
                if let (Some(k), MessageType::Response(ResponseSpecific::Ping(_))) = (&re, s.msg.message_type()) {
                    if k.contains("/put/") {
                        self.acks.push((i, j, k.clone()));
                    }
                }
                self.seq += 1;
                self.wire.push(Wire { due: now + self.latency, to: j, from, tid, re, msg: s.msg.clone(), seq: self.seq });
            }
        }
        r
    }
    pub fn add_node(&mut self, mode: &str, boot: &[SocketAddrV4], ip: Ipv4Addr, public: bool, seed: u64) -> usize {
        let i = self.s.nodes.len();
        let b = if boot.is_empty() { "-".to_string() } else { boot.iter().map(addr_s).collect::<Vec<_>>().join(",") };
        let p = if public { u32::from(ip).to_string() } else { "-".into() };
        self.by_addr.insert(SocketAddrV4::new(ip, 6881), i);
        self.alive.push(true);
        self.next_call.push(0);
        self.run(format!("node {i} mode={mode} boot={b} ip={} pub={p} seed={seed}", u32::from(ip)));
        i
    }
    pub fn deliver_line(&mut self, w: &Wire) -> String {
        let m = Msg::new(0, w.msg.version(), w.msg.requester_ip(), w.msg.message_type().clone(), w.msg.read_only());
        let bytes = m.to_bytes().expect("enc");
        match &w.re {
            Some(k) => format!("n{} step from={} re={} msg={}", w.to, addr_s(&w.from), k, hex(&bytes)),
            None => format!("n{} step from={} tid={} msg={}", w.to, addr_s(&w.from), w.tid, hex(&bytes)),
        }
    }
    /// deliver everything that is due (one datagram per op), then give every node an idle step
    pub fn round(&mut self, dt: u64) {
        loop {
            let now = verif::now_ns();
            self.wire.sort_by_key(|w| (w.due, w.seq));
            let Some(pos) = self.wire.iter().position(|w| w.due <= now) else { break };
            let w = self.wire.remove(pos);
            if !self.alive[w.to] {
                continue;
            }
            // signatures the model has to know about
            let fake = InFlight { due: 0, from: w.from, re: w.re.clone(), mt: w.msg.message_type().clone(), ro: w.msg.read_only(), ip: w.msg.requester_ip(), seq: 0, tid: None, legacy: false };
            for k in known_signatures(&fake) {
                if self.known.insert(k.clone()) {
                    self.run(k);
                }
            }
            let line = self.deliver_line(&w);
            self.run(line);
        }
        for i in 0..self.s.nodes.len() {
            if self.alive[i] {
                self.run(format!("n{i} step"));
            }
        }
        let now = verif::now_ns();
        let next_due = self.wire.iter().map(|w| w.due).min();
        let dt = match next_due {
            Some(due) if due > now => dt.min(due - now),
            Some(_) => 0,
            None => dt,
        };
        if dt > 0 {
            self.run(format!("adv {dt}"));
        }
    }
    pub fn run_for(&mut self, total: u64, dt: u64) {
        let end = verif::now_ns() + total;
        while verif::now_ns() < end {
            self.round(dt);
        }
    }
    pub fn settle(&mut self, limit: u64, dt: u64) -> bool {
        let end = verif::now_ns() + limit;
        loop {
            let pending = self.s.nodes.iter().any(|n| !n.pending_calls().is_empty());
            if !pending && self.wire.is_empty() {
                return true;
            }
            if verif::now_ns() >= end {
                return !pending;
            }
            self.round(dt);
        }
    }
    pub fn api(&mut self, i: usize, call: String) -> u32 {
        self.next_call[i] += 1;
        let no = self.next_call[i];
        self.run(format!("n{i} api c{no} {call}"));
        no
    }
    pub fn results(&self, i: usize, no: u32) -> Vec<String> {
        self.s.nodes[i].calls.iter().find(|c| c.no == no).map(|c| c.results.clone()).unwrap_or_default()
    }
    pub fn crash(&mut self, i: usize) {
        self.alive[i] = false;
    }
    /// live nodes other than `reader` that acknowledged a store of `target` for `writer`
    pub fn holders(&self, writer: usize, target: &str, reader: usize) -> Vec<usize> {
        let mut v: Vec<usize> = self.acks.iter().filter(|(from, to, k)| *to == writer && k.ends_with(target) && *from != reader && self.alive[*from]).map(|(f, _, _)| *f).collect();
        v.sort();
        v.dedup();
        v
    }
}

fn ip_of(i: usize, public: bool) -> Ipv4Addr {
    if public {
        Ipv4Addr::new(45 + (i % 100) as u8, (i / 100) as u8, 7, 1 + (i % 200) as u8)
    } else {
        Ipv4Addr::new(10, 2, (i / 200) as u8, 1 + (i % 200) as u8)
    }
}

/// A random multi-node history: 2..10 nodes of random modes and address plans join in random order
/// from random live members, then random API calls on random nodes, crashes, loss, time gaps.  Judged
/// by the multi-node model (every datagram, event and snapshot) and by the put-then-get monitor.
pub fn random_round(out: &mut Out, rng: &mut Rng, t0: u64, round: usize) {
    let mut net = Net::new(out, rng.next());
    net.begin(t0);
    net.drop_pct = *rng.pick(&[0u64, 0, 0, 5, 20]);
    let n = 2 + rng.below(9) as usize;
    let public = rng.chance(1, 2);
    let configured = rng.chance(1, 2);
    let mut servers: Vec<usize> = vec![];
    for i in 0..n {
        let server = i == 0 || rng.chance(2, 3);
        let boot: Vec<SocketAddrV4> = if i == 0 {
            if rng.chance(1, 5) { vec![SocketAddrV4::new(Ipv4Addr::new(10, 9, 9, 9), 6881)] } else { vec![] }
        } else {
            let k = 1 + rng.below(2) as usize;
            (0..k).map(|_| SocketAddrV4::new(ip_of(if servers.is_empty() { 0 } else { *rng.pick(&servers) }, public), 6881)).collect()
        };
        net.add_node(if server { "s" } else { "c" }, &boot, ip_of(i, public), public && configured, rng.next() % 1_000_000 + 1);
        if server {
            servers.push(i);
        }
        net.run_for(*rng.pick(&[50u64, 300, 1200]) * MS, 5 * MS);
    }
    net.run_for(2 * SEC, 10 * MS);
    let values: Vec<Vec<u8>> = (0..2).map(|k| format!("random {round} {k}").into_bytes()).collect();
    let ihs: Vec<Id> = (0..2).map(|_| Id::from_bytes(rng.id20()).expect("id")).collect();
    let pk = hex(key_from_seed(9).verifying_key().as_bytes());
    let mut written: Vec<(usize, Vec<u8>)> = vec![];
    for _ in 0..(6 + rng.below(10)) {
        let alive: Vec<usize> = (0..n).filter(|i| net.alive[*i]).collect();
        if alive.is_empty() {
            break;
        }
        let i = *rng.pick(&alive);
        let v = rng.pick(&values).clone();
        let ih = *rng.pick(&ihs);
        match rng.below(12) {
            0 | 1 => {
                let c = net.api(i, format!("put_imm v={}", hex(&v)));
                net.settle(20 * SEC, 10 * MS);
                if net.results(i, c).first().map(|r| r.contains(":ok:")).unwrap_or(false) {
                    written.push((i, v));
                }
            }
            2 | 3 => {
                let target = imm_target(&v);
                let before_alive = net.alive.clone();
                let c = net.api(i, format!("get_imm t={}", hex(target.as_bytes())));
                net.settle(20 * SEC, 10 * MS);
                let found = net.results(i, c).first().map(|r| r.contains(":some:")).unwrap_or(false);
                // C01 on small honest networks without loss: a live acknowledging node other than the reader
                if net.drop_pct == 0 && !found && servers.len() <= 20 {
                    for (w, wv) in written.iter() {
                        if *wv == v && *w != i && before_alive == net.alive {
                            let holders = net.holders(*w, &hex(target.as_bytes()), i);
                            net.out.count(&format!("random-miss-with-holders={}", holders.len().min(2)));
                        }
                    }
                }
            }
            4 => {
                net.api(i, format!("announce ih={} port={}", hex(ih.as_bytes()), if rng.chance(1, 2) { "implied" } else { "7100" }));
            }
            5 => {
                net.api(i, format!("get_peers ih={}", hex(ih.as_bytes())));
            }
            6 => {
                let salt: Option<&[u8]> = if rng.chance(1, 2) { Some(b"salt") } else { None };
                net.api(i, put_mut_call(9, rng.below(5) as i64, b"mm", salt, if rng.chance(1, 3) { Some(rng.below(5) as i64) } else { None }));
            }
            7 => {
                net.api(i, format!("get_mut k={pk} salt={} seq=none", if rng.chance(1, 2) { hex(b"salt") } else { "none".into() }));
            }
            8 => {
                net.api(i, sannounce_call(&ih, 5));
            }
            9 => {
                net.api(i, format!("get_speers ih={}", hex(ih.as_bytes())));
            }
            10 => {
                net.api(i, format!("find_node t={}", hex(ih.as_bytes())));
            }
            _ => {
                if alive.len() > 2 && rng.chance(1, 2) {
                    net.crash(i);
                } else {
                    net.run_for(*rng.pick(&[61u64, 320, 910]) * SEC, SEC);
                }
            }
        }
        match rng.below(3) {
            0 => {
                net.settle(20 * SEC, 10 * MS);
            }
            1 => net.run_for(50 * MS, 5 * MS),
            _ => {}
        }
    }
    net.settle(30 * SEC, 10 * MS);
    for i in 0..n {
        if net.alive[i] {
            net.run(format!("n{i} snap"));
        }
    }
    net.out.mark_distinct(net.rng.0 ^ 0x7a4d ^ round as u64);
    net.out.count("random-net");
    net.s.shutdown();
}

pub fn run(out: &mut Out, seed: u64, thorough: bool, replay: Option<&str>) {
    if let Some(p) = replay {
        let mut s = MnetStream::new();
        replay_file(&mut s, out, p);
        s.shutdown();
        return;
    }
    let mut rng = Rng::new(seed ^ 0x3e7);
    let mut t0 = 9_000_000_000_000_000u64;
    // hunting mode (not used by the registered checks): only random histories, many of them
    if let Some(n) = std::env::var("MVH_CHAOS").ok().and_then(|n| n.parse::<usize>().ok()) {
        for round in 0..n {
            t0 += 100_000_000_000_000;
            random_round(out, &mut rng, t0, round);
        }
        return;
    }
    // (servers, clients, public addresses, public address configured): with public addresses that are
    // not configured, every node learns its address from its peers' votes, confirms it by self-ping
    // and re-keys (BEP42) while the network forms
    let shapes: Vec<(usize, usize, bool, bool)> = if thorough {
        vec![(1, 1, false, false), (2, 1, false, false), (3, 2, true, true), (4, 1, true, false), (6, 2, false, false), (12, 3, true, true), (9, 2, true, false), (20, 4, false, false)]
    } else {
        vec![(1, 1, false, false), (3, 1, true, true), (4, 1, true, false), (6, 2, false, false)]
    };
    for (servers, clients, public, configured) in shapes {
        t0 += 100_000_000_000_000;
        let mut net = Net::new(out, rng.next());
        net.begin(t0);
        // ---- join: node 0 has no bootstrap, the others bootstrap from node 0
        let first = SocketAddrV4::new(ip_of(0, public), 6881);
        for i in 0..servers {
            let boot = if i == 0 { vec![] } else { vec![first] };
            net.add_node("s", &boot, ip_of(i, public), public && configured, rng.next() % 1_000_000 + 1);
            net.run_for(300 * MS, 5 * MS);
        }
        for c in 0..clients {
            net.add_node("c", &[first], ip_of(servers + c, public), public && configured, rng.next() % 1_000_000 + 1);
            net.run_for(300 * MS, 5 * MS);
        }
        net.run_for(2 * SEC, 10 * MS);
        let n = servers + clients;
        // ---- C13: every node ends its bootstrap with a non-empty table (a lone first node aside)
        let mut tables: Vec<Vec<SocketAddrV4>> = vec![];
        for i in 0..n {
            net.run(format!("n{i} snap"));
            let snap = net.s.nodes[i].last_snapshot.clone();
            let rt: Vec<SocketAddrV4> = snap.map(|s| s.routing_table.iter().map(|(_, a, _)| *a).collect()).unwrap_or_default();
            if rt.is_empty() && servers > 1 {
                net.out.violation("C13", "empty-table-after-join", format!("node {i} of {servers} servers + {clients} clients has an empty routing table 2 s after the last join"));
            }
            tables.push(rt);
        }
        // the knows-graph over the servers is strongly connected
        if servers > 1 {
            let idx_of = |a: &SocketAddrV4| net.by_addr.get(a).copied();
            let reach = |start: usize, forward: bool| -> usize {
                let mut seen = vec![false; n];
                let mut stack = vec![start];
                seen[start] = true;
                while let Some(x) = stack.pop() {
                    for y in 0..n {
                        let edge = if forward { tables[x].iter().any(|a| idx_of(a) == Some(y)) } else { tables[y].iter().any(|a| idx_of(a) == Some(x)) };
                        if edge && !seen[y] {
                            seen[y] = true;
                            stack.push(y);
                        }
                    }
                }
                (0..servers).filter(|i| seen[*i]).count()
            };
            if reach(0, true) < servers || reach(0, false) < servers {
                net.out.violation("C13", "not-strongly-connected", format!("the knows-graph of {servers} servers is not strongly connected after all joins"));
            }
        }
        // ---- C01: every kind of put from a client/server pair, then read on another node
        let writer = n - 1;
        let reader = if n > 1 { (n - 2).min(writer.saturating_sub(1)) } else { 0 };
        let v = format!("value-{servers}-{clients}").into_bytes();
        let c_put = net.api(writer, format!("put_imm v={}", hex(&v)));
        net.settle(20 * SEC, 10 * MS);
        let put_ok = net.results(writer, c_put).first().map(|r| r.contains(":ok:")).unwrap_or(false);
        if servers >= 1 && n > 1 {
            let before = net.requests.len();
            let target = imm_target(&v);
            let c_get = net.api(reader, format!("get_imm t={}", hex(target.as_bytes())));
            net.settle(20 * SEC, 10 * MS);
            let got = net.results(reader, c_get);
            let found = got.first().map(|r| r.contains(&format!(":some:{}", hex(&v)))).unwrap_or(false);
            // which servers acknowledged the write and are not the reader
            if put_ok && !found && writer != reader && !net.holders(writer, &hex(target.as_bytes()), reader).is_empty() {
                net.out.violation("C01", "put-then-get-miss", format!("put_immutable returned Ok on node {writer} but get_immutable on node {reader} returned {:?} ({servers} servers, {clients} clients, public={public})", got));
                net.out.violation("C08", "acknowledged-value-not-served", format!("put_immutable returned Ok on node {writer}: storing nodes acknowledged it and are alive, yet none of them serves the value to node {reader}"));
            }
            // C07 / C13: with up to 20 servers a lookup queries every server
            if servers <= 20 {
                let asked: HashSet<SocketAddrV4> = net.requests[before..].iter().filter(|(i, _, k)| *i == reader && k.contains("/get/")).map(|(_, a, _)| *a).collect();
                for s in 0..servers {
                    let a = SocketAddrV4::new(ip_of(s, public), 6881);
                    if s != reader && !asked.contains(&a) {
                        net.out.violation("C07", "server-not-queried", format!("the lookup of node {reader} did not query server {s} in a network of {servers} servers"));
                    }
                }
            }
        }
        // C13: every joined server is discoverable BY ITS OWN ID: a lookup of the id of another server
        // queries that server and find_node reports it
        if servers >= 2 && servers <= 20 {
            let s0 = if reader == 0 { 1 } else { 0 };
            net.run(format!("n{s0} snap"));
            if let Some(id0) = net.s.nodes[s0].last_snapshot.as_ref().map(|sn| sn.id) {
                let before = net.requests.len();
                let c = net.api(reader, format!("find_node t={}", hex(id0.as_bytes())));
                net.settle(20 * SEC, 10 * MS);
                let a0 = SocketAddrV4::new(ip_of(s0, public), 6881);
                let asked: HashSet<SocketAddrV4> = net.requests[before..].iter().filter(|(i, _, k)| *i == reader && k.contains("/find_node/") && k.ends_with(&hex(id0.as_bytes()))).map(|(_, a, _)| *a).collect();
                if !asked.contains(&a0) {
                    net.out.violation("C13", "server-not-discoverable", format!("find_node of the id of server {s0}, started on node {reader} in a network of {servers} servers, queried {} nodes but not server {s0} itself", asked.len()));
                }
                if !net.results(reader, c).iter().any(|r| r.contains(&hex(id0.as_bytes()))) {
                    net.out.violation("C13", "server-not-discoverable", format!("find_node of the id of server {s0} on node {reader} ({servers} servers) does not report that server: {:?}", net.results(reader, c).iter().map(|r| r.chars().take(120).collect::<String>()).collect::<Vec<_>>()));
                }
            }
        }
        // mutable item + announce, read back
        if n > 1 {
            let call = put_mut_call(9, 3, b"mutable", Some(b"salt"), None);
            let c = net.api(writer, call);
            net.settle(20 * SEC, 10 * MS);
            let ok = net.results(writer, c).first().map(|r| r.contains(":ok:")).unwrap_or(false);
            let g = net.api(reader, format!("get_mut k={} salt={} seq=none", hex(key_from_seed(9).verifying_key().as_bytes()), hex(b"salt")));
            net.settle(20 * SEC, 10 * MS);
            let got = net.results(reader, g);
            let mt = hex(MutableItem::new(&key_from_seed(9), b"mutable", 3, Some(b"salt")).target().as_bytes());
            if ok && !got.iter().any(|r| r.contains("seq=3 v=6d757461626c65")) && writer != reader && !net.holders(writer, &mt, reader).is_empty() {
                net.out.violation("C01", "put-then-get-miss", format!("put_mutable returned Ok on node {writer} but get_mutable on node {reader} yielded {:?}", got));
                net.out.violation("C08", "acknowledged-value-not-served", format!("put_mutable returned Ok on node {writer}: storing nodes acknowledged it and are alive, yet none of them serves the item to node {reader}"));
            }
            // the same sequence number again with another value: BEP44 accepts it (the seq is not lower),
            // so what the second Ok promises is what a later reader must be handed
            let c2 = net.api(writer, put_mut_call(9, 3, b"mutable-2", Some(b"salt"), None));
            net.settle(20 * SEC, 10 * MS);
            let ok2 = net.results(writer, c2).first().map(|r| r.contains(":ok:")).unwrap_or(false);
            let g2 = net.api(reader, format!("get_mut k={} salt={} seq=none", hex(key_from_seed(9).verifying_key().as_bytes()), hex(b"salt")));
            net.settle(20 * SEC, 10 * MS);
            let got2 = net.results(reader, g2);
            if ok && ok2 && !got2.iter().any(|r| r.contains("seq=3 v=6d757461626c652d32")) && writer != reader && !net.holders(writer, &mt, reader).is_empty() {
                net.out.violation("C01", "put-then-get-miss", format!("put_mutable of another value with the same seq returned Ok on node {writer} but get_mutable on node {reader} yielded {:?}", got2));
                net.out.violation("C08", "acknowledged-value-not-served", format!("put_mutable (seq 3, second value) returned Ok on node {writer}: storing nodes acknowledged it and are alive, yet none of them serves that value to node {reader}, which gets {:?}", got2.iter().map(|r| r.chars().take(60).collect::<String>()).collect::<Vec<_>>()));
            }
            // the ends of the sequence number range (another key): an acknowledged item is served whatever its seq
            for (ks, seq) in [(11u64, i64::MIN), (12, i64::MAX), (13, 0), (14, -1)] {
                let v = format!("seq {seq}").into_bytes();
                let c = net.api(writer, put_mut_call(ks, seq, &v, None, None));
                net.settle(20 * SEC, 10 * MS);
                let ok = net.results(writer, c).first().map(|r| r.contains(":ok:")).unwrap_or(false);
                let g = net.api(reader, format!("get_mut k={} salt=none seq=none", hex(key_from_seed(ks).verifying_key().as_bytes())));
                net.settle(20 * SEC, 10 * MS);
                let got = net.results(reader, g);
                let mt = hex(MutableItem::new(&key_from_seed(ks), &v, seq, None).target().as_bytes());
                if ok && !got.iter().any(|r| r.contains(&format!("seq={seq} v={}", hex(&v)))) && writer != reader && !net.holders(writer, &mt, reader).is_empty() {
                    net.out.violation("C01", "put-then-get-miss", format!("put_mutable with seq {seq} returned Ok on node {writer} but get_mutable on node {reader} yielded {:?}", got));
                    net.out.violation("C08", "acknowledged-value-not-served", format!("put_mutable with seq {seq} returned Ok on node {writer}: storing nodes acknowledged it and are alive, yet none of them serves the item to node {reader}"));
                }
            }
            let ih = Id::from_bytes(rng.id20()).expect("id");
            let c = net.api(writer, format!("announce ih={} port=7000", hex(ih.as_bytes())));
            net.settle(20 * SEC, 10 * MS);
            let ok = net.results(writer, c).first().map(|r| r.contains(":ok:")).unwrap_or(false);
            let g = net.api(reader, format!("get_peers ih={}", hex(ih.as_bytes())));
            net.settle(20 * SEC, 10 * MS);
            let got = net.results(reader, g);
            let want = format!("{}:7000", u32::from(ip_of(writer, public)));
            if ok && !got.iter().any(|r| r.contains(&want)) && writer != reader && !net.holders(writer, &hex(ih.as_bytes()), reader).is_empty() {
                net.out.violation("C01", "put-then-get-miss", format!("announce_peer returned Ok on node {writer} but get_peers on node {reader} yielded {:?}", got));
            }
            // implied port: the storing nodes record the UDP source port of the announcer
            let ih2 = Id::from_bytes(rng.id20()).expect("id");
            let c = net.api(writer, format!("announce ih={} port=implied", hex(ih2.as_bytes())));
            net.settle(20 * SEC, 10 * MS);
            let ok = net.results(writer, c).first().map(|r| r.contains(":ok:")).unwrap_or(false);
            let g = net.api(reader, format!("get_peers ih={}", hex(ih2.as_bytes())));
            net.settle(20 * SEC, 10 * MS);
            let got = net.results(reader, g);
            let want = format!("{}:6881", u32::from(ip_of(writer, public)));
            if ok && !got.iter().any(|r| r.contains(&want)) && writer != reader && !net.holders(writer, &hex(ih2.as_bytes()), reader).is_empty() {
                net.out.violation("C01", "put-then-get-miss", format!("announce_peer (implied port) returned Ok on node {writer} but get_peers on node {reader} yielded {:?}, not {want}", got));
            }
            // signed announcement
            let ih3 = Id::from_bytes(rng.id20()).expect("id");
            let call = sannounce_call(&ih3, 5);
            let sig_hex = call.split(" sig=").nth(1).unwrap_or("").to_string();
            let c = net.api(writer, call);
            net.settle(20 * SEC, 10 * MS);
            let ok = net.results(writer, c).first().map(|r| r.contains(":ok:")).unwrap_or(false);
            let g = net.api(reader, format!("get_speers ih={}", hex(ih3.as_bytes())));
            net.settle(20 * SEC, 10 * MS);
            let got = net.results(reader, g);
            if ok && !sig_hex.is_empty() && !got.iter().any(|r| r.contains(&sig_hex)) && writer != reader && !net.holders(writer, &hex(ih3.as_bytes()), reader).is_empty() {
                net.out.violation("C01", "put-then-get-miss", format!("announce_signed_peer returned Ok on node {writer} but get_signed_peers on node {reader} yielded {:?}", got));
            }
        }
        // ---- crash every acknowledging server but one, read again from a third node
        if servers >= 3 {
            for s in 1..servers - 1 {
                net.crash(s);
            }
            let target = imm_target(&v);
            let c_get = net.api(reader, format!("get_imm t={}", hex(target.as_bytes())));
            net.settle(30 * SEC, 10 * MS);
            let found = net.results(reader, c_get).first().map(|r| r.contains(":some:")).unwrap_or(false);
            let holders = net.holders(writer, &hex(target.as_bytes()), reader);
            net.out.count(&format!("after-crash:{}:holders={}", if found { "found" } else { "miss" }, holders.len().min(3)));
            if put_ok && !found && !holders.is_empty() {
                net.out.violation("C01", "put-then-get-miss-after-crash", format!("after crashing servers 1..{} the value is still held by live node(s) {:?} but node {reader} did not find it", servers - 2, holders));
            }
        }
        for i in 0..n {
            if net.alive[i] {
                net.run(format!("n{i} snap"));
            }
        }
        net.out.mark_distinct(net.rng.0 ^ servers as u64);
        net.out.count(&format!("net-{servers}s-{clients}c{}", if public && !configured { "-rekeying" } else { "" }));
        net.s.shutdown();
    }
    // ---- late holder (C01): the reader looked the key up before it was stored; a server joins, the
    //      value is stored (the newcomer acknowledges), every older server crashes; the reader still
    //      knows the newcomer, which is alive and holds the value
    for round in 0..(if thorough { 3 } else { 1 }) {
        t0 += 100_000_000_000_000;
        let old = 3 + round;
        let mut net = Net::new(out, rng.next());
        net.begin(t0);
        let first = SocketAddrV4::new(ip_of(0, false), 6881);
        for i in 0..old {
            let boot = if i == 0 { vec![] } else { vec![first] };
            net.add_node("s", &boot, ip_of(i, false), false, rng.next() % 1_000_000 + 1);
            net.run_for(300 * MS, 5 * MS);
        }
        // the reader is a client: it is never listed, so it never answers itself from its own store
        let reader = net.add_node("c", &[first], ip_of(old, false), false, rng.next() % 1_000_000 + 1);
        net.run_for(300 * MS, 5 * MS);
        let writer = net.add_node("c", &[first], ip_of(old + 1, false), false, rng.next() % 1_000_000 + 1);
        net.run_for(2 * SEC, 10 * MS);
        let v = format!("late holder {round}").into_bytes();
        let target = imm_target(&v);
        let c0 = net.api(reader, format!("get_imm t={}", hex(target.as_bytes())));
        net.settle(20 * SEC, 10 * MS);
        let _ = c0;
        let late = net.add_node("s", &[first], ip_of(old + 2, false), false, rng.next() % 1_000_000 + 1);
        net.run_for(2 * SEC, 10 * MS);
        // the reader learns the newcomer from the first node's answers to an unrelated lookup
        let other = Id::from_bytes(rng.id20()).expect("id");
        net.api(reader, format!("find_node t={}", hex(other.as_bytes())));
        net.settle(20 * SEC, 10 * MS);
        let c_put = net.api(writer, format!("put_imm v={}", hex(&v)));
        net.settle(20 * SEC, 10 * MS);
        let put_ok = net.results(writer, c_put).first().map(|r| r.contains(":ok:")).unwrap_or(false);
        for s in 0..old {
            net.crash(s);
        }
        net.run(format!("n{reader} snap"));
        let late_addr = SocketAddrV4::new(ip_of(late, false), 6881);
        let knows_late = net.s.nodes[reader].last_snapshot.as_ref().map(|s| s.routing_table.iter().any(|(_, a, _)| *a == late_addr)).unwrap_or(false);
        let c_get = net.api(reader, format!("get_imm t={}", hex(target.as_bytes())));
        net.settle(30 * SEC, 10 * MS);
        let found = net.results(reader, c_get).first().map(|r| r.contains(":some:")).unwrap_or(false);
        let holders = net.holders(writer, &hex(target.as_bytes()), reader);
        net.out.count(&format!("late-holder:{}:knows={knows_late}:holds={}", if found { "found" } else { "miss" }, holders.contains(&late)));
        if put_ok && !found && knows_late && holders.contains(&late) {
            net.out.violation("C01", "put-then-get-miss-after-crash", format!("node {late} joined after node {reader}'s first lookup, acknowledged the write and is alive and in node {reader}'s routing table, the {old} older servers crashed, and node {reader} did not find the value"));
        }
        for i in 0..net.s.nodes.len() {
            if net.alive[i] {
                net.run(format!("n{i} snap"));
            }
        }
        net.out.mark_distinct(net.rng.0 ^ 0x1a7e ^ round as u64);
        net.s.shutdown();
    }
    // ---- a seed server whose own bootstrap list is dead (C13): the servers that bootstrap from it
    //      enter its signed-peers table only; its own lookups must still reach them, so that its
    //      main table fills and it becomes part of the knows-graph
    for (joiners, public) in if thorough { vec![(2usize, false), (5, false), (5, true), (12, false)] } else { vec![(3usize, false)] } {
        t0 += 100_000_000_000_000;
        let mut net = Net::new(out, rng.next());
        net.begin(t0);
        let dead = SocketAddrV4::new(Ipv4Addr::new(10, 9, 9, 9), 6881);
        let seed_addr = SocketAddrV4::new(ip_of(0, public), 6881);
        net.add_node("s", &[dead], ip_of(0, public), public, rng.next() % 1_000_000 + 1);
        net.run_for(300 * MS, 5 * MS);
        for i in 1..=joiners {
            net.add_node("s", &[seed_addr], ip_of(i, public), public, rng.next() % 1_000_000 + 1);
            net.run_for(300 * MS, 5 * MS);
        }
        net.run_for(6 * SEC, 10 * MS);
        net.run("n0 snap".to_string());
        let known = net.s.nodes[0].last_snapshot.as_ref().map(|s| s.routing_table.len()).unwrap_or(0);
        net.out.count(&format!("dead-list-seed:knows={}", known.min(3)));
        if known == 0 {
            net.out.violation("C13", "seed-with-dead-list-stays-empty", format!("{joiners} servers bootstrapped from node 0 (whose own bootstrap list is unreachable) and 6 s later its routing table is still empty: it is not part of the knows-graph"));
        }
        // after its next table refresh (a find_node of its own id, seeded from both tables) the seed knows
        // every joiner, and a lookup started on it queries them all.  (Before the refresh this is not
        // promised: requesters of a node that has a bootstrap list enter its signed-peers table only.)
        net.run_for(16 * 60 * SEC, SEC);
        net.run_for(3 * SEC, 10 * MS);
        let before = net.requests.len();
        let t = Id::from_bytes(rng.id20()).expect("id");
        net.api(0, format!("get_peers ih={}", hex(t.as_bytes())));
        net.settle(20 * SEC, 10 * MS);
        let asked: HashSet<SocketAddrV4> = net.requests[before..].iter().filter(|(i, _, k)| *i == 0 && k.contains("/get_peers/")).map(|(_, a, _)| *a).collect();
        if joiners <= 20 {
            for j in 1..=joiners {
                if !asked.contains(&SocketAddrV4::new(ip_of(j, public), 6881)) {
                    net.out.violation("C13", "server-not-queried", format!("a lookup started on the seed node did not query server {j} of {joiners}"));
                    break;
                }
            }
        }
        for i in 0..net.s.nodes.len() {
            net.run(format!("n{i} snap"));
        }
        net.out.mark_distinct(net.rng.0 ^ 0xdead ^ joiners as u64);
        net.s.shutdown();
    }
    // ---- random histories
    for round in 0..(if thorough { 120 } else { 5 }) {
        t0 += 100_000_000_000_000;
        random_round(out, &mut rng, t0, round);
    }
    out.sample("case mnet: node 0 (first, no bootstrap), node i bootstraps from node 0; n<i> step from=<addr> re=<key> msg=<hex> delivers one datagram; put on the last node, get on another".into());
}
