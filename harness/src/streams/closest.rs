//! `closest` stream (C11, C07): `ClosestNodes::{add, nodes, take_until_secure, subnets_count}`.
//! Oracle: after every insertion the accumulator is strictly sorted by (secure first, XOR to the
//! target) and holds exactly the nodes that survive the first-come per-IP rule, for every
//! insertion order; `take_until_secure` returns a prefix of length >= min(20, len).
use crate::streams::id::{prefix_ref, valid_ref};
use crate::util::*;
use dht::verif::export::*;
use std::net::{Ipv4Addr, SocketAddrV4};

pub fn node_s(n: &Node) -> String {
    format!("{}@{}", hex(n.id().as_bytes()), addr_s(&n.address()))
}
pub fn nodes_s(ns: &[Node]) -> String {
    if ns.is_empty() {
        return "-".into();
    }
    ns.iter().map(node_s).collect::<Vec<_>>().join(",")
}
pub fn mk_node(idh: &str, addr: &str) -> Node {
    Node::new(Id::from_bytes(unhex(idh)).expect("id"), parse_addr(addr))
}
fn secure_ref(n: &Node) -> bool {
    valid_ref(n.id().as_bytes(), *n.address().ip())
}
fn key_ref(target: &[u8; 20], n: &Node) -> (bool, Vec<u8>) {
    (
        !secure_ref(n),
        n.id().as_bytes().iter().zip(target.iter()).map(|(a, b)| a ^ b).collect(),
    )
}
pub fn expected_dk(estimate: usize) -> u128 {
    (20.0 * u128::MAX as f64 / (estimate as f64 + 1.0)) as u128
}
/// id valid for `ip` with the given `r` and otherwise random bytes
pub fn secure_id(rng: &mut Rng, ip: Ipv4Addr, r: u8) -> [u8; 20] {
    let mut idb = rng.id20();
    idb[19] = r;
    let p = prefix_ref(ip, r);
    idb[0] = p[0];
    idb[1] = p[1];
    idb[2] = p[2] | (idb[2] & 7);
    idb
}

/// reference of the first-come per-IP rule (`already_exists`) and of the sorted insertion
#[derive(Default)]
pub struct RefAcc {
    pub kept: Vec<Node>,
}
impl RefAcc {
    pub fn conflicts(&self, n: &Node) -> bool {
        self.kept.iter().any(|e| {
            e.address().ip() == n.address().ip()
                && (!secure_ref(e) || e.id().as_bytes()[0..2] == n.id().as_bytes()[0..2] && (e.id().as_bytes()[2] & 0xf8) == (n.id().as_bytes()[2] & 0xf8))
        })
    }
}

pub struct ClosestStream {
    target: [u8; 20],
    acc: ClosestNodes,
    reference: RefAcc,
}

impl ClosestStream {
    pub fn new() -> Self {
        ClosestStream {
            target: [0; 20],
            acc: ClosestNodes::new(Id::from_bytes([0u8; 20]).expect("id")),
            reference: RefAcc::default(),
        }
    }
    fn check_sorted(&self, out: &mut Out) {
        let ns = self.acc.nodes();
        for w in ns.windows(2) {
            let (ka, kb) = (key_ref(&self.target, &w[0]), key_ref(&self.target, &w[1]));
            if ka > kb || (ka == kb && w[0].id() != w[1].id()) {
                out.violation("C11", "accumulator-order", format!("ClosestNodes not sorted by (secure first, xor): {} before {}", node_s(&w[0]), node_s(&w[1])));
                return;
            }
        }
    }
}

impl Stream for ClosestStream {
    fn reset(&mut self, args: &[&str], _out: &mut Out) {
        // case <n> closest <target>
        let t = unhex(args.get(1).copied().unwrap_or("0000000000000000000000000000000000000000"));
        self.target.copy_from_slice(&t);
        self.acc = ClosestNodes::new(Id::from_bytes(t).expect("id"));
        self.reference = RefAcc::default();
    }

    fn exec(&mut self, op: &str, out: &mut Out) -> String {
        let t: Vec<&str> = op.split(' ').collect();
        match t.as_slice() {
            ["add", idh, addr] => {
                let n = mk_node(idh, addr);
                let before = self.acc.len();
                let had_id = self.acc.nodes().iter().any(|e| e.id() == n.id() && secure_ref(e) == secure_ref(&n));
                let conflict = self.reference.conflicts(&n);
                self.acc.add(n.clone());
                let after = self.acc.len();
                // oracle: contents follow the first-come rule, order is the sort order
                let expect_insert = !conflict && !had_id;
                if expect_insert != (after == before + 1) {
                    out.violation("C11", "accumulator-contents", format!("add({}) {} but the first-come per-IP rule says it should {}", node_s(&n), if after > before { "inserted" } else { "did not insert" }, if expect_insert { "insert" } else { "not insert" }));
                }
                if after == before + 1 {
                    self.reference.kept.push(n.clone());
                }
                self.check_sorted(out);
                match self.acc.nodes().iter().position(|e| e.id() == n.id() && e.address() == n.address()) {
                    Some(p) if after == before + 1 => format!("ins@{p}"),
                    _ => "noop".into(),
                }
            }
            ["nodes"] => nodes_s(self.acc.nodes()),
            ["len"] => self.acc.len().to_string(),
            ["subnets"] => self.acc.subnets_count().to_string(),
            // tus <estimate> <expected_dk (computed by the harness with the documented formula)> <average subnets>
            ["tus", est, _edk, avg] => {
                let r = self.acc.take_until_secure(est.parse().expect("est"), avg.parse().expect("avg"));
                let all = self.acc.nodes();
                let n = r.len();
                let is_prefix = n <= all.len() && r.iter().zip(all.iter()).all(|(a, b)| a == b);
                if !is_prefix || n < all.len().min(20) {
                    out.violation("C11", "take_until_secure", format!("take_until_secure returned {} of {} nodes (prefix={})", n, all.len(), is_prefix));
                }
                n.to_string()
            }
            _ => "bad-op".into(),
        }
    }
}

pub struct Universe {
    pub nodes: Vec<(String, String)>, // (id hex, addr)
}

/// node universes that stress the comparator and the per-IP rule
pub fn universe(rng: &mut Rng, target: &[u8; 20], n: usize) -> Universe {
    let public_ips: Vec<Ipv4Addr> = (0..6).map(|i| Ipv4Addr::new(45 + i as u8, rng.next() as u8, rng.next() as u8, 1 + rng.below(250) as u8)).collect();
    let private_ips = [Ipv4Addr::new(10, 0, 0, 1), Ipv4Addr::new(192, 168, 1, 7), Ipv4Addr::new(127, 0, 0, 1)];
    let mut nodes = vec![];
    while nodes.len() < n {
        let kind = rng.below(10);
        let ip = if rng.chance(1, 5) { *rng.pick(&private_ips) } else if rng.chance(2, 3) { *rng.pick(&public_ips) } else { Ipv4Addr::from(rng.next() as u32 | 0x2000_0000 & 0x7fff_ffff) };
        let port = if rng.chance(1, 4) { 6881 } else { 1 + rng.below(65000) as u16 };
        let mut idb = match kind {
            0..=2 => {
                let r = rng.below(8) as u8; // secure, one of the 8 prefixes
                secure_id(rng, ip, r)
            }
            3 => secure_id(rng, ip, 0),
            _ => rng.id20(),
        };
        if kind >= 6 {
            // share a k-byte prefix with the target (ties on the first differing byte)
            let k = rng.below(20) as usize;
            idb[..k].copy_from_slice(&target[..k]);
            if rng.chance(1, 2) && k < 20 {
                idb[k] = target[k] ^ (1 << rng.below(8));
            }
        }
        if kind == 9 && !nodes.is_empty() {
            // same id at another address, or same address with another id
            let (oid, oaddr): &(String, String) = rng.pick(&nodes);
            if rng.chance(1, 2) {
                nodes.push((oid.clone(), addr_s(&SocketAddrV4::new(ip, port))));
            } else {
                nodes.push((hex(&idb), oaddr.clone()));
            }
            continue;
        }
        nodes.push((hex(&idb), addr_s(&SocketAddrV4::new(ip, port))));
    }
    if rng.chance(1, 3) {
        nodes.push((hex(target), addr_s(&SocketAddrV4::new(public_ips[0], 7))));
    }
    Universe { nodes }
}

fn permutations(n: usize) -> Vec<Vec<usize>> {
    fn go(k: usize, cur: &mut Vec<usize>, used: &mut Vec<bool>, out: &mut Vec<Vec<usize>>) {
        if cur.len() == k {
            out.push(cur.clone());
            return;
        }
        for i in 0..k {
            if !used[i] {
                used[i] = true;
                cur.push(i);
                go(k, cur, used, out);
                cur.pop();
                used[i] = false;
            }
        }
    }
    let mut out = vec![];
    go(n, &mut vec![], &mut vec![false; n], &mut out);
    out
}

pub fn run(out: &mut Out, seed: u64, thorough: bool, replay: Option<&str>) {
    let mut s = ClosestStream::new();
    if let Some(p) = replay {
        return replay_file(&mut s, out, p);
    }
    let mut rng = Rng::new(seed ^ 0xc105);
    // ---- every insertion order of small universes
    let small = if thorough { 40 } else { 6 };
    for u in 0..small {
        let target = rng.id20();
        let k = if thorough && u % 8 == 0 { 6 } else { 4 + (u % 2) };
        let uni = universe(&mut rng, &target, k);
        let k = uni.nodes.len().min(6);
        for perm in permutations(k) {
            out.begin(&mut s, &format!("closest {}", hex(&target)));
            for &i in &perm {
                let (idh, addr) = &uni.nodes[i];
                out.run(&mut s, format!("add {idh} {addr}"));
            }
            out.run(&mut s, "nodes".into());
            out.count("perm-case");
            out.mark_distinct(fnv(format!("{:?}{}", perm, hex(&target)).as_bytes()));
        }
    }
    // ---- random orders, larger universes
    let big = if thorough { 60 } else { 10 };
    for c in 0..big {
        let target = rng.id20();
        let n = [5usize, 25, 60, 120, 300][c % 5];
        let uni = universe(&mut rng, &target, n);
        let mut order: Vec<usize> = (0..uni.nodes.len()).collect();
        rng.shuffle(&mut order);
        out.begin(&mut s, &format!("closest {}", hex(&target)));
        for (j, &i) in order.iter().enumerate() {
            let (idh, addr) = &uni.nodes[i];
            out.run(&mut s, format!("add {idh} {addr}"));
            if rng.chance(1, 25) {
                // re-add an earlier one
                let (idh, addr) = &uni.nodes[order[rng.below(j as u64 + 1) as usize]];
                out.run(&mut s, format!("add {idh} {addr}"));
            }
        }
        out.run(&mut s, "nodes".into());
        out.run(&mut s, "len".into());
        out.run(&mut s, "subnets".into());
        // take_until_secure over estimate / subnet parameters
        for est in [0usize, 1, 19, 20, 1000, 1_000_000, usize::MAX / 2] {
            for avg in [0usize, 1, 3, 20, 21] {
                out.run(&mut s, format!("tus {} {} {}", est, expected_dk(est), avg));
            }
        }
        // … and estimates around the size of this universe: the first node at or beyond the expected distance
        // then sits at every index in turn, the 20th included
        let hi = (3 * uni.nodes.len()).min(400);
        for est in 0..=hi {
            out.run(&mut s, format!("tus {} {} {}", est, expected_dk(est), est % 2));
        }
        out.count("random-case");
        out.mark_distinct(fnv(hex(&target).as_bytes()) ^ n as u64);
        if c == 0 {
            out.sample(format!("case closest {}: add <id> <ip:port> x{}, nodes, tus <estimate> <expected_dk> <avg>", hex(&target), order.len()));
        }
    }
}
