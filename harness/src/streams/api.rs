//! `api` stream (C16, C05 facade clause): the harness owns the actor side of a `Dht` handle's
//! channel (hook H4) and plays the responses of a lookup in a chosen order.
use crate::util::*;
use dht::verif::{dht_with_channel, ApiCall};
use dht::verif::export::*;

pub struct ApiStream;

fn parse_items(s: &str) -> Vec<(i64, Vec<u8>)> {
    if s == "-" {
        return vec![];
    }
    s.split(',')
        .map(|it| {
            let (seq, v) = it.split_once(':').expect("item");
            (seq.parse().expect("seq"), unhex(v))
        })
        .collect()
}

fn most_recent(flavour: &str, items: &[(i64, Vec<u8>)]) -> Result<Option<(i64, Vec<u8>)>, String> {
    let (dht, rx) = dht_with_channel();
    let key = [7u8; 32];
    let fl = flavour.to_string();
    let handle = std::thread::spawn(move || {
        if fl == "sync" {
            dht.get_mutable_most_recent(&key, None)
        } else {
            block_on(dht.as_async().get_mutable_most_recent(&key, None))
        }
    });
    // play the actor: wait for the Get message, deliver the items in order, close the stream
    let sender = loop {
        match rx.try_recv() {
            Some(ApiCall::Get(_, ResponseSender::Mutable(s))) => break s,
            Some(_) => return Err("unexpected actor message".into()),
            None => {
                if handle.is_finished() {
                    return Err("facade returned before sending a Get".into());
                }
                std::thread::yield_now();
            }
        }
    };
    for (seq, v) in items {
        let _ = sender.send(MutableItem::new_signed_unchecked(key, [0u8; 64], v, *seq, None));
    }
    drop(sender);
    match handle.join() {
        Ok(r) => Ok(r.map(|i| (i.seq(), i.value().to_vec()))),
        Err(_) => Err("panic".into()),
    }
}

impl Stream for ApiStream {
    fn reset(&mut self, _args: &[&str], _out: &mut Out) {}
    fn exec(&mut self, op: &str, out: &mut Out) -> String {
        let t: Vec<&str> = op.split(' ').collect();
        match t.as_slice() {
            ["mr", flavour, items] => {
                let items = parse_items(items);
                let r = match most_recent(flavour, &items) {
                    Ok(r) => r,
                    Err(e) => {
                        out.violation("C16", "most-recent-failed", format!("get_mutable_most_recent ({flavour}) failed: {e}"));
                        return format!("error:{e}");
                    }
                };
                // oracle: maximum seq, ties broken by the greatest value, None iff nothing delivered
                let expect = items.iter().cloned().max_by(|a, b| a.0.cmp(&b.0).then(a.1.cmp(&b.1)));
                match (&r, &expect) {
                    (None, None) => {}
                    (Some(g), Some(e)) => {
                        if g.0 != e.0 {
                            out.violation("C16", "not-max-seq", format!("{flavour} get_mutable_most_recent returned seq {} but an item with seq {} was delivered (order {:?})", g.0, e.0, items.iter().map(|i| i.0).collect::<Vec<_>>()));
                        } else if g.1 != e.1 {
                            out.violation("C16", "tie-not-greatest-value", format!("{flavour} get_mutable_most_recent broke a tie at seq {} with value {} instead of the greatest {}", g.0, hex(&g.1), hex(&e.1)));
                        }
                    }
                    (None, Some(_)) => out.violation("C16", "none-despite-items", format!("{flavour} get_mutable_most_recent returned None although items were delivered")),
                    (Some(_), None) => out.violation("C16", "some-despite-nothing", "returned an item although none was delivered".into()),
                }
                out.count(&format!("mr:{}:{}", flavour, if r.is_some() { "some" } else { "none" }));
                match r {
                    None => "none".into(),
                    Some((s, v)) => format!("{}:{}", s, hexz(&v)),
                }
            }
            _ => "bad-op".into(),
        }
    }
}

fn permutations<T: Clone>(xs: &[T]) -> Vec<Vec<T>> {
    if xs.len() <= 1 {
        return vec![xs.to_vec()];
    }
    let mut out = vec![];
    for i in 0..xs.len() {
        let mut rest = xs.to_vec();
        let x = rest.remove(i);
        for mut p in permutations(&rest) {
            p.insert(0, x.clone());
            out.push(p);
        }
    }
    out
}

fn show(items: &[(i64, Vec<u8>)]) -> String {
    if items.is_empty() {
        "-".into()
    } else {
        items.iter().map(|(s, v)| format!("{}:{}", s, hexz(v))).collect::<Vec<_>>().join(",")
    }
}

pub fn run(out: &mut Out, seed: u64, thorough: bool, replay: Option<&str>) {
    out.stateless = true;
    let mut s = ApiStream;
    if let Some(p) = replay {
        return replay_file(&mut s, out, p);
    }
    let mut rng = Rng::new(seed ^ 0xa91);
    out.begin(&mut s, "api");
    // seq patterns with gaps, duplicates and ties; every permutation (exhaustive up to 5 / 6 items)
    let patterns: Vec<Vec<(i64, Vec<u8>)>> = vec![
        vec![],
        vec![(1, vec![1])],
        vec![(1, vec![1]), (2, vec![2])],
        vec![(1, vec![1]), (1, vec![2])],
        vec![(1, vec![1]), (2, vec![2]), (3, vec![3])],
        vec![(1, vec![9]), (3, vec![1]), (3, vec![2])],
        vec![(5, vec![1]), (5, vec![1]), (2, vec![7])],
        vec![(-1, vec![]), (0, vec![0]), (0, vec![]), (i64::MAX, vec![1])],
        vec![(1, vec![1]), (2, vec![2]), (4, vec![4]), (4, vec![3]), (3, vec![9])],
        vec![(i64::MIN, vec![1]), (-5, vec![2]), (-5, vec![2, 0]), (7, vec![0]), (7, vec![0, 0])],
        vec![(1, vec![1]), (2, vec![2]), (3, vec![3]), (3, vec![3, 1]), (2, vec![9]), (1, vec![8])],
    ];
    for (pi, pat) in patterns.iter().enumerate() {
        if pat.len() == 6 && !thorough {
            // quick: a sample of the 720 orders
            let mut perms = permutations(pat);
            rng.shuffle(&mut perms);
            perms.truncate(40);
            for p in perms {
                for fl in ["sync", "async"] {
                    out.run(&mut s, format!("mr {fl} {}", show(&p)));
                }
                out.mark_distinct(fnv(show(&p).as_bytes()));
            }
            continue;
        }
        for p in permutations(pat) {
            for fl in ["sync", "async"] {
                out.run(&mut s, format!("mr {fl} {}", show(&p)));
            }
            out.mark_distinct(fnv(show(&p).as_bytes()) ^ pi as u64);
        }
    }
    // the low and high ends of (seq, value): nothing but non-positive seqs, seq 0 with an empty value,
    // the extreme integers
    let lows: Vec<Vec<(i64, Vec<u8>)>> = vec![
        vec![(-5, vec![1])],
        vec![(0, vec![])],
        vec![(0, vec![]), (0, vec![])],
        vec![(-1, vec![]), (-3, vec![2])],
        vec![(-3, vec![2]), (-1, vec![])],
        vec![(i64::MIN, vec![])],
        vec![(i64::MIN, vec![]), (i64::MIN + 1, vec![])],
        vec![(i64::MAX, vec![1]), (i64::MAX, vec![2])],
        vec![(i64::MAX, vec![2]), (i64::MAX, vec![1]), (i64::MIN, vec![9])],
        vec![(0, vec![]), (-1, vec![0xff])],
        vec![(-1, vec![0xff]), (0, vec![])],
    ];
    for items in &lows {
        for fl in ["sync", "async"] {
            out.run(&mut s, format!("mr {fl} {}", show(items)));
        }
        out.mark_distinct(fnv(show(items).as_bytes()) ^ 0x10);
    }
    // random longer streams
    for _ in 0..(if thorough { 300 } else { 40 }) {
        let n = 1 + rng.below(if thorough { 200 } else { 40 }) as usize;
        let items: Vec<(i64, Vec<u8>)> = (0..n)
            .map(|_| {
                let seq = rng.below(6) as i64 - 1;
                let l = rng.below(3) as usize;
                (seq, rng.bytes(l))
            })
            .collect();
        for fl in ["sync", "async"] {
            out.run(&mut s, format!("mr {fl} {}", show(&items)));
        }
        out.mark_distinct(fnv(show(&items).as_bytes()));
    }
    out.sample("mr sync 1:01,2:02 ; mr async 3:01,3:02,1:09".into());
}
