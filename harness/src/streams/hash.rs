//! `hash` stream: SHA-1 as used by the repo (immutable hash, mutable target), against the model's
//! SHA-1 and an independent reference.
use crate::util::*;
use dht::verif::export::*;

pub struct HashStream;
impl Stream for HashStream {
    fn reset(&mut self, _args: &[&str], _out: &mut Out) {}
    fn exec(&mut self, op: &str, out: &mut Out) -> String {
        let t: Vec<&str> = op.split(' ').collect();
        match t.as_slice() {
            ["himm", v] => {
                let v = unhex(v);
                let h = hash_immutable(&v);
                let mut enc = format!("{}:", v.len()).into_bytes();
                enc.extend_from_slice(&v);
                if sha1_ref(&enc) != h {
                    out.violation("C03", "hash_immutable", format!("hash_immutable differs from reference SHA-1 for len {}", v.len()));
                }
                hex(&h)
            }
            ["tkey", k, salt] => {
                let kb = unhex(k);
                let mut k32 = [0u8; 32];
                k32.copy_from_slice(&kb);
                let salt = if *salt == "none" { None } else { Some(unhex(salt)) };
                let tg = MutableItem::target_from_key(&k32, salt.as_deref());
                let mut enc = kb.clone();
                if let Some(s) = &salt {
                    enc.extend_from_slice(s);
                }
                if &sha1_ref(&enc) != tg.as_bytes() {
                    out.violation("C03", "target_from_key", "target_from_key differs from reference SHA-1".into());
                }
                hex(tg.as_bytes())
            }
            _ => "bad-op".into(),
        }
    }
}

pub fn run(out: &mut Out, seed: u64, thorough: bool, replay: Option<&str>) {
    out.stateless = true;
    let mut s = HashStream;
    if let Some(p) = replay {
        return replay_file(&mut s, out, p);
    }
    let mut rng = Rng::new(seed ^ 0x4a5);
    out.begin(&mut s, "hash");
    // boundary lengths around the 55/56/64-byte padding edges (after the "len:" prefix)
    for len in 0..=200usize {
        let v = rng.bytes(len);
        out.run(&mut s, format!("himm {}", hexz(&v)));
        out.count("himm:boundary");
        out.mark_distinct(fnv(&v) ^ len as u64);
    }
    for len in [999usize, 1000, 1001, 2000] {
        let v = rng.bytes(len);
        out.run(&mut s, format!("himm {}", hexz(&v)));
        out.count("himm:large");
        out.mark_distinct(fnv(&v));
    }
    let n = if thorough { 3000 } else { 300 };
    for _ in 0..n {
        let len = rng.below(1100) as usize;
        let v = rng.bytes(len);
        out.run(&mut s, format!("himm {}", hexz(&v)));
        out.count("himm:random");
        out.mark_distinct(fnv(&v));
    }
    for i in 0..n {
        let k = rng.bytes(32);
        let salt = match i % 4 {
            0 => "none".to_string(),
            1 => "-".to_string(),
            _ => {
                let n = rng.below(80) as usize;
                hexz(&rng.bytes(n))
            }
        };
        out.count(if salt == "none" { "tkey:nosalt" } else { "tkey:salt" });
        out.run(&mut s, format!("tkey {} {}", hex(&k), salt));
        out.mark_distinct(fnv(&k));
    }
    out.sample("himm <v hex> -> sha1(len ':' v); tkey <k> <salt|none> -> sha1(k ++ salt)".into());
}
