pub mod api;
pub mod closest;
pub mod codec;
pub mod hash;
pub mod id;
pub mod rtable;
pub mod server;
