pub mod hash;
pub mod id;
