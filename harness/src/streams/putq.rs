//! `putq` stream (C08, C17 majority clause, C05): `PutQuery` driven directly over a real `KrpcSocket`
//! on the simulated UDP (direct mode).  Replies are real datagrams received through
//! `KrpcSocket::recv_from`, then applied to the query exactly as `Core::handle_response` does.
//! Oracle: the result tells the truth about acknowledgements (see the property text).
use crate::util::*;
use dht::errors::{ConcurrencyError, PutError, PutQueryError};
use dht::verif::export::*;
use dht::verif::{self, Msg};
use std::net::{Ipv4Addr, SocketAddrV4};
use std::time::Duration;

pub struct PutqStream {
    socket: Option<KrpcSocket>,
    query: Option<PutQuery>,
    mutable: bool,
    /// (address, token) of the requests sent by `start`, in order, with their transaction ids
    sent: Vec<(SocketAddrV4, Vec<u8>, u32)>,
    acks: u64,
    codes: Vec<i32>,
    answered: Vec<bool>,
    started_ok: bool,
    me: SocketAddrV4,
    case_no: u64,
    /// reference bookkeeping, independent of the socket: when the requests went out, whether they were
    /// ever seen older than the timeout, and which nodes have already answered from their own address
    start_at: u64,
    expired_seen: bool,
    genuine_done: Vec<bool>,
}

fn put_request(kind: &str) -> PutRequestSpecific {
    let id = |b: u8| Id::from_bytes([b; 20]).expect("id");
    match kind {
        "imm" => PutRequestSpecific::PutImmutable(PutImmutableRequestArguments { target: id(1), v: vec![1, 2, 3].into() }),
        "mut" => PutRequestSpecific::PutMutable(PutMutableRequestArguments { target: id(2), v: vec![1].into(), k: [3; 32], seq: 5, sig: [4; 64], salt: None, cas: None }),
        "ann" => PutRequestSpecific::AnnouncePeer(AnnouncePeerRequestArguments { info_hash: id(3), port: 7, implied_port: None }),
        _ => PutRequestSpecific::AnnounceSignedPeer(AnnounceSignedPeerRequestArguments { info_hash: id(4), t: 9, k: [5; 32], sig: [6; 64] }),
    }
}

fn node_at(i: usize, base: u8, with_token: bool) -> Node {
    let addr = SocketAddrV4::new(Ipv4Addr::new(base, (i / 250) as u8, (i % 250) as u8, 1), 1000 + (i % 50000) as u16);
    let mut idb = [0u8; 20];
    idb[0] = base;
    idb[1] = (i / 256) as u8;
    idb[2] = (i % 256) as u8;
    let token = if with_token { Some(vec![base, (i / 256) as u8, (i % 256) as u8, 0x77].into_boxed_slice()) } else { None };
    Node::verif_with_token(Id::from_bytes(idb).expect("id"), addr, token)
}

fn show_err(e: &PutError) -> String {
    match e {
        PutError::Query(PutQueryError::NoClosestNodes) => "err:no-closest-nodes".into(),
        PutError::Query(PutQueryError::Timeout) => "err:timeout".into(),
        PutError::Query(PutQueryError::ErrorResponse(e)) => format!("err:response:{}", e.code),
        PutError::Concurrency(ConcurrencyError::CasFailed) => "err:cas-failed".into(),
        PutError::Concurrency(ConcurrencyError::NotMostRecent) => "err:not-most-recent".into(),
        PutError::Concurrency(ConcurrencyError::ConflictRisk) => "err:conflict-risk".into(),
    }
}

impl PutqStream {
    pub fn new() -> Self {
        PutqStream { socket: None, query: None, mutable: false, sent: vec![], acks: 0, codes: vec![], answered: vec![], started_ok: false, me: SocketAddrV4::new(Ipv4Addr::new(45, 0, 0, 9), 6881), case_no: 0, start_at: 0, expired_seen: false, genuine_done: vec![] }
    }
    fn view(&self) -> String {
        let (s, errs, n) = self.query.as_ref().expect("query").verif_view();
        format!("stored={} errors={} sent={}", s, errs.iter().map(|(c, code)| format!("{c}x{code}")).collect::<Vec<_>>().join(","), n)
    }
}

impl Stream for PutqStream {
    fn reset(&mut self, args: &[&str], _out: &mut Out) {
        // putq <kind> <n_extra_with_token> <n_extra_without> <t0> [<first transaction id>]
        verif::reset_net();
        verif::set_now_ns(args[4].parse().expect("t0"));
        self.case_no += 1;
        verif::prepare_bind(*self.me.ip(), 1, true);
        let cfg = Config { port: Some(self.me.port()), ..Default::default() };
        self.socket = Some(KrpcSocket::verif_new(&cfg).expect("socket"));
        if let Some(tid) = args.get(5) {
            // the socket's transaction id counter starts here: the put's batch straddles the u32 wrap
            self.socket.as_mut().expect("socket").verif_set_next_tid(tid.parse().expect("tid"));
        }
        self.mutable = args[1] == "mut";
        let nw: usize = args[2].parse().expect("n");
        let nwo: usize = args[3].parse().expect("n");
        let mut extra: Vec<Node> = (0..nw).map(|i| node_at(i, 99, true)).collect();
        extra.extend((0..nwo).map(|i| node_at(10_000 + i, 98, false)));
        let extra = if extra.is_empty() { None } else { Some(extra.into_boxed_slice()) };
        self.query = Some(PutQuery::new(put_request(args[1]), extra));
        self.sent.clear();
        self.acks = 0;
        self.codes.clear();
        self.answered.clear();
        self.started_ok = false;
        self.start_at = 0;
        self.expired_seen = false;
        self.genuine_done.clear();
    }

    fn exec(&mut self, op: &str, out: &mut Out) -> String {
        let t: Vec<&str> = op.split(' ').collect();
        let socket = self.socket.as_mut().expect("socket");
        if self.started_ok && verif::now_ns().saturating_sub(self.start_at) >= socket.verif_inflight().3 {
            self.expired_seen = true;
        }
        match t.as_slice() {
            // start <n closest with token> <n closest without token (interleaved first)>
            ["start", nw, nwo] => {
                let nw: usize = nw.parse().expect("n");
                let nwo: usize = nwo.parse().expect("n");
                let mut closest: Vec<Node> = vec![];
                for i in 0..nw.max(nwo) {
                    if i < nwo {
                        closest.push(node_at(20_000 + i, 97, false));
                    }
                    if i < nw {
                        closest.push(node_at(i, 96, true));
                    }
                }
                let q = self.query.as_mut().expect("query");
                let r = guarded(std::panic::AssertUnwindSafe(|| q.start(socket, &closest)));
                let sent_raw = verif::drain_outbox();
                match r {
                    Err(m) => {
                        out.violation("C05", "putquery-panic", format!("PutQuery::start panicked: {m}"));
                        "panic".into()
                    }
                    Ok(Err(e)) => show_err(&e),
                    Ok(Ok(())) => {
                        self.started_ok = true;
                        let tids = q.verif_tids();
                        let mut shown = vec![];
                        for (k, (_, to, bytes)) in sent_raw.iter().enumerate() {
                            let tok = match Msg::from_bytes(bytes).ok().map(|m| m.message_type().clone()) {
                                Some(MessageType::Request(r)) => match r.request_type {
                                    RequestTypeSpecific::Put(p) => p.token.to_vec(),
                                    _ => vec![],
                                },
                                _ => vec![],
                            };
                            self.sent.push((*to, tok.clone(), tids.get(k).copied().unwrap_or(0)));
                            shown.push(format!("{}/{}", addr_s(to), hexz(&tok)));
                        }
                        self.answered = vec![false; self.sent.len()];
                        self.genuine_done = vec![false; self.sent.len()];
                        self.start_at = verif::now_ns();
                        self.expired_seen = false;
                        // oracle: only token-bearing nodes, each with its own token
                        let expect: Vec<(SocketAddrV4, Vec<u8>)> = closest.iter().take(255).chain((0..0).map(|_| &closest[0])).filter_map(|n| n.token().map(|t| (n.address(), t.to_vec()))).collect();
                        let got: Vec<(SocketAddrV4, Vec<u8>)> = self.sent.iter().map(|(a, t, _)| (*a, t.clone())).collect();
                        let closest_part: Vec<_> = got.iter().filter(|(a, _)| a.ip().octets()[0] == 96).cloned().collect();
                        if closest_part != expect {
                            out.violation("C08", "write-targets", "put requests do not go to exactly the token-bearing closest nodes with their own tokens".into());
                        }
                        if got.iter().any(|(a, _)| a.ip().octets()[0] == 97 || a.ip().octets()[0] == 98) {
                            out.violation("C08", "write-to-tokenless", "a put request was sent to a node that gave no token".into());
                        }
                        format!("sent {} first={} last={}", shown.len(), shown.first().cloned().unwrap_or("-".into()), shown.last().cloned().unwrap_or("-".into()))
                    }
                }
            }
            // reply <i> ok|<code> [from-other]: node i answers request i
            // foreign <what>: the socket sends one more request that is NOT the put's (another lookup, a table
            // ping: it gets the next transaction id) and its addressee answers in time: that reply is not the put's
            ["foreign", what] => {
                let to = SocketAddrV4::new(std::net::Ipv4Addr::new(10, 99, 9, 9), 9999);
                let tid = socket.request(to, dht::RequestSpecific { requester_id: Id::from_bytes([7; 20]).expect("id"), request_type: RequestTypeSpecific::Ping });
                let _ = verif::drain_outbox();
                let mt = if *what == "ok" {
                    MessageType::Response(ResponseSpecific::Ping(PingResponseArguments { responder_id: Id::from_bytes([9; 20]).expect("id") }))
                } else {
                    MessageType::Error(ErrorSpecific { code: what.parse().expect("code"), description: "x".into() })
                };
                let bytes = Msg::new(tid, None, Some(self.me), mt, false).to_bytes().expect("enc");
                verif::deliver(self.me, bytes, to);
                let q = self.query.as_mut().expect("query");
                match socket.verif_recv() {
                    Some((m, _)) => {
                        if q.inflight(m.transaction_id()) {
                            out.violation("C09", "foreign-reply-claimed", format!("the reply to request {tid} — sent by the socket right after the put's requests, to another node, for something else — is claimed by the put as an answer to one of its own requests"));
                            out.violation("C08", "foreign-reply-claimed", format!("the put counts the reply to request {tid}, which is not one of its requests, as {}", if *what == "ok" { "an acknowledgement" } else { "a rejection" }));
                            out.violation("C16", "foreign-reply-claimed", format!("a put in flight claims the reply to request {tid} of another query: that query never sees its answer"));
                            "claimed".into()
                        } else {
                            "unowned".into()
                        }
                    }
                    None => "dropped".into(),
                }
            }
            ["timeout", ns] => {
                let actual = socket.verif_inflight().3;
                if ns.parse::<u64>().ok() == Some(actual) { "ok".into() } else { format!("timeout-is {actual}") }
            }
            ["reply", i, what] | ["reply", i, what, _] => {
                let i: usize = i.parse().expect("i");
                let spoof = t.len() == 4;
                let Some((to, _, tid)) = self.sent.get(i).cloned() else { return "no-such-request".into() };
                let genuine_to = to;
                let to = if spoof { SocketAddrV4::new(*to.ip(), to.port().wrapping_add(1)) } else { to };
                let was_live = socket.inflight(&tid);
                // by the property's own reading: the addressed node answers for the first time, in time
                let ref_live = !spoof && !self.genuine_done.get(i).copied().unwrap_or(true) && !self.expired_seen;
                if !spoof {
                    if let Some(d) = self.genuine_done.get_mut(i) {
                        *d = true;
                    }
                }
                let mt = if *what == "ok" {
                    MessageType::Response(ResponseSpecific::Ping(PingResponseArguments { responder_id: Id::from_bytes([9; 20]).expect("id") }))
                } else {
                    MessageType::Error(ErrorSpecific { code: what.parse().expect("code"), description: "x".into() })
                };
                let bytes = Msg::new(tid, None, Some(self.me), mt, false).to_bytes().expect("enc");
                verif::deliver(self.me, bytes, to);
                let q = self.query.as_mut().expect("query");
                let r = guarded(std::panic::AssertUnwindSafe(|| {
                    if let Some((m, _from)) = socket.verif_recv() {
                        if q.inflight(m.transaction_id()) {
                            match m.message_type() {
                                MessageType::Response(ResponseSpecific::Ping(_)) => {
                                    q.success();
                                    return 1;
                                }
                                MessageType::Error(e) => {
                                    q.error(e.clone());
                                    return 2;
                                }
                                _ => {}
                            }
                        }
                        return 3;
                    }
                    0
                }));
                match r {
                    Err(m) => {
                        out.violation("C08", "tally-overflow", format!("counting reply #{} panicked: {m} (acks so far {}, errors so far {})", i, self.acks, self.codes.len()));
                        out.violation("C05", "putquery-panic", format!("handling reply #{} of a put panicked: {m}", i));
                        "panic".into()
                    }
                    Ok(0) => {
                        if !spoof && was_live {
                            out.violation("C09", "genuine-rejected", format!("the reply of {genuine_to} to live request {tid} was dropped"));
                        }
                        if ref_live && !was_live {
                            out.violation("C09", "genuine-rejected", format!("the first reply of {genuine_to} to request {tid}, in time, was dropped: something else consumed the request"));
                            out.violation("C08", if *what == "ok" { "ack-dropped" } else { "error-dropped" }, format!("the {} of {genuine_to} reached the socket in time but was not counted for the put", if *what == "ok" { "acknowledgement" } else { "error reply" }));
                        }
                        out.count(if spoof { "reply-spoof-dropped" } else { "reply-late-or-duplicate-dropped" });
                        "dropped".into()
                    }
                    Ok(3) => {
                        // the socket accepted the message for one of the put's own requests (every
                        // request of this stream is the put's), but the put does not know the request
                        if spoof || !was_live {
                            out.violation("C09", "accepted-unexpected", format!("a reply for request {tid} was accepted although it {}", if spoof { "came from another address" } else { "was no longer outstanding" }));
                        } else {
                            out.violation("C08", if *what == "ok" { "ack-dropped" } else { "error-dropped" }, format!("the {} of {genuine_to} to request {tid} of this put was accepted by the socket in time, but the put does not recognise its own request and did not count it", if *what == "ok" { "acknowledgement" } else { "error reply" }));
                            if self.mutable && (*what == "301" || *what == "302") {
                                out.violation("C17", "rejection-dropped", format!("{genuine_to} rejected the mutable item with {what} (request {tid}, in time): the put does not recognise its own request, so the rejection never counts towards CasFailed / NotMostRecent"));
                            }
                        }
                        out.count("reply-not-owned");
                        "unowned".into()
                    }
                    Ok(k) => {
                        if spoof || !was_live {
                            out.violation("C09", "accepted-unexpected", format!("a reply for request {tid} was accepted although it {}", if spoof { "came from another address" } else { "was no longer outstanding" }));
                        }
                        out.count(if k == 1 { "reply-ack" } else { "reply-error" });
                        if k == 1 {
                            self.acks += 1;
                        }
                        if k == 2 {
                            self.codes.push(what.parse().expect("code"));
                        }
                        if !self.answered[i] {
                            self.answered[i] = true;
                        }
                        // oracle: the tallies are the counts of delivered replies
                        let (s, errs, _) = self.query.as_ref().expect("q").verif_view();
                        if s != self.acks {
                            out.violation("C08", "stored-at-count", format!("stored_at = {} after {} acknowledgements", s, self.acks));
                        }
                        for (c, code) in &errs {
                            let n = self.codes.iter().filter(|x| *x == code).count() as u64;
                            if *c != n {
                                out.violation("C08", "error-count", format!("error {code} counted {c} times, received {n} times"));
                            }
                        }
                        if errs.windows(2).any(|w| w[0].0 < w[1].0) {
                            out.violation("C08", "errors-order", "error tallies are not sorted by count".into());
                        }
                        self.view()
                    }
                }
            }
            ["adv", ns] => {
                verif::advance(Duration::from_nanos(ns.parse().expect("ns")));
                verif::now_ns().to_string()
            }
            ["check"] => {
                let q = self.query.as_ref().expect("query");
                let r = guarded(std::panic::AssertUnwindSafe(|| q.check(socket)));
                let live = self.sent.iter().filter(|(_, _, tid)| socket.inflight(tid)).count();
                let started = !self.sent.is_empty();
                match r {
                    Err(m) => {
                        out.violation("C08", "check-panic", format!("PutQuery::check panicked: {m}"));
                        "panic".into()
                    }
                    Ok(res) => {
        let shown = match &res {
                            Ok(true) => "done-ok".to_string(),
                            Ok(false) => "pending".to_string(),
                            Err(e) => show_err(e),
                        };
                        // oracle (property text)
                        let finished = started && live == 0;
                        let n301 = self.codes.iter().filter(|c| **c == 301).count();
                        let n302 = self.codes.iter().filter(|c| **c == 302).count();
                        match &res {
                            Ok(true) => {
                                if self.acks == 0 {
                                    out.violation("C08", "ok-without-ack", "put reported Ok without any acknowledgement".into());
                                }
                                if !finished {
                                    out.violation("C08", "ok-before-finished", "put reported done while requests are still in flight".into());
                                }
                            }
                            Ok(false) => {
                                if self.started_ok && self.sent.is_empty() {
                                    out.violation("C06", "put-started-with-nothing-sent", "PutQuery::start returned Ok although it sent no request (no node carried a token): the put can never finish and its caller hangs".into());
                                }
                                if finished {
                                    out.violation("C06", "put-never-finishes", "every request is answered or expired but the put is still pending".into());
                                }
                                // a majority of the contacted nodes has already answered 301 (302) while other
                                // requests are still out: the rejection surfaces now, whatever a minority stored
                                let half = self.sent.len() / 2 + 1;
                                if self.mutable && !finished && (n301 >= half || n302 >= half) {
                                    out.violation("C17", "majority-ignored", format!("{} of the {} contacted nodes answered {} and the put of a mutable item is still pending ({} acknowledgements so far)", n301.max(n302), self.sent.len(), if n301 >= half { 301 } else { 302 }, self.acks));
                                }
                            }
                            Err(PutError::Concurrency(c)) => {
                                let want = match c {
                                    ConcurrencyError::CasFailed => n301,
                                    ConcurrencyError::NotMostRecent => n302,
                                    ConcurrencyError::ConflictRisk => 0,
                                };
                                if want == 0 {
                                    out.violation("C08", "concurrency-without-3xx", format!("put failed with {c:?} although no storing node answered with that code"));
                                }
                                let other = match c {
                                    ConcurrencyError::CasFailed => n302,
                                    ConcurrencyError::NotMostRecent => n301,
                                    ConcurrencyError::ConflictRisk => 0,
                                };
                                if other > want {
                                    out.violation("C17", "minority-code-reported", format!("put failed with {c:?} ({want} such answers) although the other concurrency code was answered {other} times"));
                                }
                                if !self.mutable {
                                    out.violation("C17", "concurrency-for-non-mutable", format!("{c:?} produced for a put that is not a mutable item (the API facade hits unreachable!())"));
                                }
                                if finished && self.acks > 0 {
                                    out.violation("C08", "err-despite-ack", "put ran to completion with an acknowledgement but failed".into());
                                }
                                if !finished && want < self.sent.len() / 2 + 1 {
                                    out.violation("C17", "early-failure-without-majority", "put failed early without a 3xx majority".into());
                                }
                            }
                            Err(PutError::Query(_)) => {
                                if finished && self.acks > 0 {
                                    out.violation("C08", "err-despite-ack", "put ran to completion with an acknowledgement but failed".into());
                                }
                                if !finished {
                                    out.violation("C08", "query-error-before-finished", "query error while requests are still in flight".into());
                                }
                            }
                        }
                        if finished && self.acks > 0 && !matches!(res, Ok(true)) {
                            out.violation("C08", "ack-but-not-ok", format!("{} acknowledgements reached the caller before expiry but the result is {shown}", self.acks));
                        }
                        shown
                    }
                }
            }
            ["view"] => self.view(),
            _ => "bad-op".into(),
        }
    }
}

pub fn run(out: &mut Out, seed: u64, thorough: bool, replay: Option<&str>) {
    let mut s = PutqStream::new();
    if let Some(p) = replay {
        return replay_file(&mut s, out, p);
    }
    let mut rng = Rng::new(seed ^ 0x9a7);
    let codes = [201i32, 203, 205, 301, 302, 999];
    let mut t0 = 6_000_000_000_000_000u64;
    let mut case = |out: &mut Out, s: &mut PutqStream, kind: &str, xw: usize, xwo: usize, tid: Option<u64>| {
        t0 += 1_000_000_000_000;
        match tid {
            None => out.begin(s, &format!("putq {kind} {xw} {xwo} {t0}")),
            Some(tid) => out.begin(s, &format!("putq {kind} {xw} {xwo} {t0} {tid}")),
        }
    };
    // ---- every subset of replies for small replica sets, all kinds
    for kind in ["imm", "mut", "ann", "sann"] {
        for n in 1..=(if thorough { 6 } else { 4 }) {
            let subsets: Vec<u32> = if n <= 4 || thorough { (0..(1u32 << n)).collect() } else { (0..8).map(|_| rng.below(1 << n) as u32).collect() };
            for mask in subsets {
                case(out, &mut s, kind, 0, 0, None);
                out.run(&mut s, format!("start {} {}", n, rng.below(3)));
                let mut order: Vec<usize> = (0..n).filter(|i| mask & (1 << i) != 0).collect();
                rng.shuffle(&mut order);
                for i in order {
                    let what = if rng.chance(1, 2) { "ok".to_string() } else { rng.pick(&codes).to_string() };
                    out.run(&mut s, format!("reply {i} {what}"));
                    out.run(&mut s, "check".into());
                }
                out.run(&mut s, "adv 60000000000".into());
                out.run(&mut s, "check".into());
                out.mark_distinct(fnv(format!("{kind}{n}{mask}").as_bytes()) ^ rng.0);
            }
        }
    }
    // ---- 3xx majorities and minorities, early failure (also with the id counter wrapping inside the burst)
    for kind in ["mut", "imm", "ann"] {
        for n in [1usize, 2, 3, 5, 6] {
            for k301 in 0..=n {
                let wrap = if n >= 5 && k301 % 2 == 0 { Some(u32::MAX as u64 - (k301 as u64 % 4) - 1) } else { None };
                case(out, &mut s, kind, 0, 0, wrap);
                out.run(&mut s, format!("start {n} 0"));
                for i in 0..n {
                    let what = if i < k301 { "301" } else if rng.chance(1, 2) { "302" } else { "ok" };
                    out.run(&mut s, format!("reply {i} {what}"));
                    out.run(&mut s, "check".into());
                }
                out.run(&mut s, "adv 60000000000".into());
                out.run(&mut s, "check".into());
                out.mark_distinct(fnv(format!("maj{kind}{n}{k301}").as_bytes()));
            }
        }
    }
    // ---- an acknowledgement first, then a rejecting majority while other requests are still out
    for code in ["301", "302"] {
        for n in [3usize, 4, 5, 6, 8] {
            for acks in [1usize, 2] {
                if acks + n / 2 + 1 >= n {
                    continue;
                }
                case(out, &mut s, "mut", 0, 0, None);
                out.run(&mut s, format!("start {n} 0"));
                for i in 0..acks {
                    out.run(&mut s, format!("reply {i} ok"));
                    out.run(&mut s, "check".into());
                }
                for i in acks..(acks + n / 2 + 1) {
                    out.run(&mut s, format!("reply {i} {code}"));
                    out.run(&mut s, "check".into());
                }
                out.run(&mut s, "adv 60000000000".into());
                out.run(&mut s, "check".into());
                out.mark_distinct(fnv(format!("ackfirst{code}{n}{acks}").as_bytes()));
            }
        }
    }
    // ---- the request the socket sends right after the put's is not the put's: its reply (a bare response, an
    //      error 301 / 302) is neither an acknowledgement nor a rejection of the put, wherever the id counter stands
    for kind in ["imm", "mut"] {
        for n in [1usize, 2, 5] {
            for what in ["ok", "301", "302"] {
                for tid in [None, Some(u32::MAX as u64 - 2), Some(65_534u64)] {
                    case(out, &mut s, kind, 0, 0, tid);
                    out.run(&mut s, format!("start {n} 0"));
                    out.run(&mut s, format!("foreign {what}"));
                    out.run(&mut s, "check".into());
                    out.run(&mut s, "view".into());
                    out.run(&mut s, "adv 60000000000".into());
                    out.run(&mut s, "check".into());
                    out.mark_distinct(fnv(format!("foreign{kind}{n}{what}{tid:?}").as_bytes()));
                }
            }
        }
    }
    // ---- late replies, spoofed replies, duplicates, time passing between replies
    for round in 0..(if thorough { 300 } else { 40 }) {
        let kind = *rng.pick(&["imm", "mut", "ann", "sann"]);
        let n = 1 + rng.below(6) as usize;
        case(out, &mut s, kind, rng.below(2) as usize, 0, None);
        out.run(&mut s, format!("start {} {}", n, rng.below(2)));
        let mut last_timeout = 500_000_000u64;
        for _ in 0..(3 + rng.below(10)) {
            match rng.below(8) {
                0..=2 => {
                    let what = if rng.chance(1, 2) { "ok".to_string() } else { rng.pick(&codes).to_string() };
                    out.run(&mut s, format!("reply {} {}", rng.below(n as u64 + 1), what));
                }
                3 => {
                    let what = if rng.chance(1, 2) { "ok".to_string() } else { rng.pick(&codes).to_string() };
                    out.run(&mut s, format!("reply {} {} spoof", rng.below(n as u64 + 1), what));
                }
                4..=5 => {
                    out.run(&mut s, format!("adv {}", rng.pick(&[1_000_000u64, 200_000_000, 299_999_999, 300_000_000, 499_999_999, 500_000_000, 700_000_000])));
                }
                _ => {
                    out.run(&mut s, "check".into());
                }
            }
            let timeout = s.socket.as_ref().map(|k| k.verif_inflight().3).unwrap_or(0);
            if timeout != last_timeout {
                last_timeout = timeout;
                out.run(&mut s, format!("timeout {timeout}"));
                out.count("timeout-changed");
            }
        }
        out.run(&mut s, "check".into());
        out.run(&mut s, "adv 60000000000".into());
        out.run(&mut s, "check".into());
        out.mark_distinct(fnv(format!("late{round}").as_bytes()) ^ rng.0);
    }
    // ---- every request is "answered" from a wrong address first, then acknowledged by the addressed node
    for kind in ["imm", "mut", "ann", "sann"] {
        for n in [1usize, 3] {
            case(out, &mut s, kind, 0, 0, None);
            out.run(&mut s, format!("start {n} 0"));
            for i in 0..n {
                out.run(&mut s, format!("reply {i} {} spoof", if i % 2 == 0 { "ok" } else { "203" }));
                out.run(&mut s, "adv 100000000".into());
                out.run(&mut s, format!("reply {i} ok"));
                out.run(&mut s, "check".into());
            }
            out.run(&mut s, "adv 60000000000".into());
            out.run(&mut s, "check".into());
            out.mark_distinct(fnv(format!("spoofed{kind}{n}").as_bytes()));
        }
    }
    // ---- the transaction ids of one put straddle the wrap of the 32-bit counter
    for kind in ["imm", "mut", "ann", "sann"] {
        for (n, back) in [(3usize, 1u64), (5, 2), (6, 5), (2, 0), (4, 4)] {
            case(out, &mut s, kind, 0, 0, Some(((1u64 << 32) - back) % (1u64 << 32)));
            out.run(&mut s, format!("start {n} 0"));
            for i in 0..n {
                let what = if kind == "mut" && i == 0 { "301" } else { "ok" };
                out.run(&mut s, format!("reply {i} {what}"));
                out.run(&mut s, "check".into());
            }
            out.run(&mut s, "adv 60000000000".into());
            out.run(&mut s, "check".into());
            out.mark_distinct(fnv(format!("wrap{kind}{n}{back}").as_bytes()));
        }
    }
    // ---- nothing to send to: no nodes, or no node carries a token
    for (nw, nwo) in [(0usize, 0usize), (0, 3)] {
        case(out, &mut s, "imm", 0, 0, None);
        out.run(&mut s, format!("start {nw} {nwo}"));
        out.run(&mut s, "check".into());
        out.run(&mut s, "adv 60000000000".into());
        out.run(&mut s, "check".into());
    }
    // ---- large replica sets through extra nodes: more than 255 acknowledgements / errors
    for (kind, closest, extra, what) in [("imm", 20usize, 300usize, "ok"), ("mut", 300, 10, "ok"), ("imm", 10, 280, "203"), ("mut", 5, 270, "301")] {
        case(out, &mut s, kind, extra, 2, None);
        out.run(&mut s, format!("start {closest} 1"));
        let total = closest.min(255) + extra;
        for i in 0..total {
            let r = out.run(&mut s, format!("reply {i} {what}"));
            if r == "panic" {
                break;
            }
            if i % 50 == 0 {
                out.run(&mut s, "check".into());
            }
        }
        out.run(&mut s, "check".into());
        out.run(&mut s, "adv 60000000000".into());
        out.run(&mut s, "check".into());
        out.mark_distinct(fnv(format!("big{kind}{closest}{extra}").as_bytes()));
    }
    out.sample("case putq mut 0 0: start 3 0; reply 0 301; check; reply 1 301; check; adv; check".into());
}
