//! `codec` stream (C10, C05): the production KRPC codec (`Message::{from_bytes,to_bytes}` through the
//! H4 wrapper `verif::Msg`).  `dec <hex>` decodes under catch_unwind, renders the message in a
//! canonical text form and re-encodes it; the Lean model does the same.
//! Oracles: no panic on any datagram (C05); decode(encode m) equivalent to m, canonical bencode,
//! BEP examples (C10).
use crate::streams::closest::nodes_s;
use crate::util::*;
use dht::verif::export::*;
use dht::verif::Msg;
use std::net::{Ipv4Addr, SocketAddrV4};

pub fn render_request(r: &dht::RequestSpecific) -> String {
    let rid = hex(r.requester_id.as_bytes());
    let oi = |o: &Option<i64>| o.map(|x| x.to_string()).unwrap_or("none".into());
    match &r.request_type {
        RequestTypeSpecific::Ping => format!("ping {rid}"),
        RequestTypeSpecific::FindNode(a) => format!("find_node {rid} {}", hex(a.target.as_bytes())),
        RequestTypeSpecific::GetPeers(a) => format!("get_peers {rid} {}", hex(a.info_hash.as_bytes())),
        RequestTypeSpecific::GetSignedPeers(a) => format!("get_signed_peers {rid} {}", hex(a.info_hash.as_bytes())),
        RequestTypeSpecific::GetValue(a) => format!("get {rid} {} {}", hex(a.target.as_bytes()), oi(&a.seq)),
        RequestTypeSpecific::Put(p) => match &p.put_request_type {
            PutRequestSpecific::AnnouncePeer(a) => format!(
                "announce {rid} {} {} {} {}",
                hexz(&p.token),
                hex(a.info_hash.as_bytes()),
                a.port,
                match a.implied_port {
                    None => "none",
                    Some(false) => "0",
                    Some(true) => "1",
                }
            ),
            PutRequestSpecific::AnnounceSignedPeer(a) => format!("announce_signed {rid} {} {} {} {} {}", hexz(&p.token), hex(a.info_hash.as_bytes()), a.t, hex(&a.k), hex(&a.sig)),
            PutRequestSpecific::PutImmutable(a) => format!("put_imm {rid} {} {} {}", hexz(&p.token), hex(a.target.as_bytes()), hexz(&a.v)),
            PutRequestSpecific::PutMutable(a) => format!(
                "put_mut {rid} {} {} {} {} {} {} {} {}",
                hexz(&p.token),
                hex(a.target.as_bytes()),
                hexz(&a.v),
                hex(&a.k),
                a.seq,
                hex(&a.sig),
                a.salt.as_ref().map(|s| hexz(s)).unwrap_or("none".into()),
                oi(&a.cas)
            ),
        },
    }
}

pub fn render_response(r: &ResponseSpecific) -> String {
    let on = |n: &Option<Box<[Node]>>| n.as_ref().map(|n| nodes_s(n)).unwrap_or("none".into());
    match r {
        ResponseSpecific::Ping(a) => format!("ping {}", hex(a.responder_id.as_bytes())),
        ResponseSpecific::FindNode(a) => format!("find_node {} nodes={}", hex(a.responder_id.as_bytes()), nodes_s(&a.nodes)),
        ResponseSpecific::GetPeers(a) => format!("get_peers {} tok={} nodes={} values={}", hex(a.responder_id.as_bytes()), hexz(&a.token), on(&a.nodes), a.values.iter().map(addr_s).collect::<Vec<_>>().join(",")),
        ResponseSpecific::GetSignedPeers(a) => format!("signed_peers {} tok={} nodes={} peers={}", hex(a.responder_id.as_bytes()), hexz(&a.token), on(&a.nodes), a.peers.iter().map(|(k, t, s)| format!("{}:{}:{}", hex(k), t, hex(s))).collect::<Vec<_>>().join(",")),
        ResponseSpecific::GetImmutable(a) => format!("imm {} tok={} nodes={} v={}", hex(a.responder_id.as_bytes()), hexz(&a.token), on(&a.nodes), hexz(&a.v)),
        ResponseSpecific::GetMutable(a) => format!("mut {} tok={} nodes={} v={} k={} seq={} sig={}", hex(a.responder_id.as_bytes()), hexz(&a.token), on(&a.nodes), hexz(&a.v), hex(&a.k), a.seq, hex(&a.sig)),
        ResponseSpecific::NoValues(a) => format!("no_values {} tok={} nodes={}", hex(a.responder_id.as_bytes()), hexz(&a.token), on(&a.nodes)),
        ResponseSpecific::NoMoreRecentValue(a) => format!("nmr {} tok={} nodes={} seq={}", hex(a.responder_id.as_bytes()), hexz(&a.token), on(&a.nodes), a.seq),
    }
}

pub fn render_msg(m: &Msg) -> String {
    let head = format!(
        "t={} v={} ip={} ro={}",
        m.transaction_id(),
        m.version().map(|v| hex(&v)).unwrap_or("none".into()),
        m.requester_ip().map(|a| addr_s(&a)).unwrap_or("none".into()),
        if m.read_only() { 1 } else { 0 }
    );
    match m.message_type() {
        MessageType::Request(r) => format!("{head} q {}", render_request(r)),
        MessageType::Response(r) => format!("{head} r {}", render_response(r)),
        MessageType::Error(e) => format!("{head} e {} {}", e.code, hexz(e.description.as_bytes())),
    }
}

/// independent check that a byte string is canonical bencode (strictly sorted keys, minimal
/// integers and lengths, nothing trailing)
pub fn canonical_bencode(b: &[u8]) -> bool {
    fn val(b: &[u8], i: &mut usize, depth: usize) -> bool {
        if depth > 64 || *i >= b.len() {
            return false;
        }
        match b[*i] {
            b'i' => {
                *i += 1;
                let s = *i;
                while *i < b.len() && b[*i] != b'e' {
                    *i += 1;
                }
                if *i >= b.len() {
                    return false;
                }
                let t = &b[s..*i];
                *i += 1;
                let digits = if t.first() == Some(&b'-') { &t[1..] } else { t };
                !digits.is_empty() && digits.iter().all(|c| c.is_ascii_digit()) && (digits == b"0" && t[0] != b'-' || digits[0] != b'0')
            }
            b'0'..=b'9' => str_(b, i).is_some(),
            b'l' => {
                *i += 1;
                while *i < b.len() && b[*i] != b'e' {
                    if !val(b, i, depth + 1) {
                        return false;
                    }
                }
                if *i >= b.len() {
                    return false;
                }
                *i += 1;
                true
            }
            b'd' => {
                *i += 1;
                let mut last: Option<Vec<u8>> = None;
                while *i < b.len() && b[*i] != b'e' {
                    let Some(k) = str_(b, i) else { return false };
                    if let Some(l) = &last {
                        if *l >= k {
                            return false;
                        }
                    }
                    last = Some(k);
                    if !val(b, i, depth + 1) {
                        return false;
                    }
                }
                if *i >= b.len() {
                    return false;
                }
                *i += 1;
                true
            }
            _ => false,
        }
    }
    fn str_(b: &[u8], i: &mut usize) -> Option<Vec<u8>> {
        let s = *i;
        while *i < b.len() && b[*i].is_ascii_digit() {
            *i += 1;
        }
        if *i >= b.len() || b[*i] != b':' || s == *i {
            return None;
        }
        let ds = &b[s..*i];
        if ds.len() > 1 && ds[0] == b'0' {
            return None;
        }
        let n: usize = std::str::from_utf8(ds).ok()?.parse().ok()?;
        *i += 1;
        if *i + n > b.len() {
            return None;
        }
        let r = b[*i..*i + n].to_vec();
        *i += n;
        Some(r)
    }
    let mut i = 0;
    val(b, &mut i, 0) && i == b.len()
}

pub struct CodecStream;

impl Stream for CodecStream {
    fn reset(&mut self, _args: &[&str], _out: &mut Out) {}
    fn exec(&mut self, op: &str, out: &mut Out) -> String {
        let t: Vec<&str> = op.split(' ').collect();
        match t.as_slice() {
            // decx <variant> <hex>: `dec`, plus the expectation that the message is a response of that
            // variant (an optional field was left out of a message that decoded to it)
            ["decx", want, h] => {
                let r = self.exec(&format!("dec {h}"), out);
                let got = r.split(" r ").nth(1).and_then(|x| x.split(' ').next()).unwrap_or("-").to_string();
                if got != *want {
                    out.violation("C10", "optional-field-changes-variant", format!("a `{want}` response without its optional `nodes` field decodes as `{got}`: {}", &r[..r.len().min(160)]));
                }
                r
            }
            ["dec", h] => {
                let bytes = unhex(h);
                let r = guarded(|| Msg::from_bytes(&bytes));
                match r {
                    Err(m) => {
                        out.violation("C05", "decode-panic", format!("Message::from_bytes panics on {} bytes: {}", bytes.len(), m));
                        out.count("dec:panic");
                        "panic".into()
                    }
                    Ok(Err(kind)) => {
                        out.count(&format!("dec:err:{kind}"));
                        "err".into()
                    }
                    Ok(Ok(m)) => {
                        out.count("dec:ok");
                        let re = guarded(|| m.to_bytes());
                        let reenc = match re {
                            Ok(Ok(b)) => {
                                if !canonical_bencode(&b) {
                                    out.violation("C10", "not-canonical", format!("to_bytes produced non-canonical bencode: {}", hex(&b)));
                                }
                                // decode(encode m) must be m again (m came out of the decoder, so it is normal)
                                // equivalence: implied_port None and Some(false) both mean "use the port field"
                                let norm = |m: &Msg| {
                                    let r = render_msg(m);
                                    if r.contains(" q announce ") && r.ends_with(" none") {
                                        format!("{} 0", &r[..r.len() - 5])
                                    } else {
                                        r
                                    }
                                };
                                match guarded(|| Msg::from_bytes(&b)) {
                                    Ok(Ok(m2)) if norm(&m2) == norm(&m) => {}
                                    _ => out.violation("C10", "roundtrip", format!("decode(encode m) != m for m = {}", render_msg(&m))),
                                }
                                hex(&b)
                            }
                            Ok(Err(e)) => format!("encerr:{e}"),
                            Err(_) => {
                                out.violation("C05", "encode-panic", "to_bytes panicked".into());
                                "panic".into()
                            }
                        };
                        format!("ok {} | {}", render_msg(&m), reenc)
                    }
                }
            }
            // a BEP example: must decode to the expected values and re-encode byte-identically,
            // version and ro fields aside
            ["bep", name, h] => {
                let bytes = unhex(h);
                let r = guarded(|| Msg::from_bytes(&bytes));
                let Ok(Ok(m)) = r else {
                    if name.ends_with("-verbatim") {
                        // BEP44's put arguments are id, token, v (and k, seq, sig, salt, cas): no `target`
                        out.violation("C10", "bep44-put-needs-target", format!("the BEP44 put message {name} (arguments exactly as BEP44 lists them, without a `target` key) does not decode"));
                    } else {
                        out.violation("C10", "bep-not-decoded", format!("BEP example {name} does not decode"));
                    }
                    return "err".into();
                };
                let rendered = render_msg(&m);
                let expect = bep_expected(name);
                if !rendered.ends_with(&expect) || m.transaction_id() != 0x6161 {
                    out.violation("C10", "bep-values", format!("BEP example {name} decodes to `{rendered}`, expected `… {expect}` with t = \"aa\""));
                }
                let re = m.to_bytes().unwrap_or_default();
                // strip the ro field the encoder always writes; the examples carry no version
                let stripped = remove_sub(&re, b"2:roi0e");
                if stripped != bytes {
                    let tid_only = remove_sub(&stripped, b"1:t4:\0\0aa") == remove_sub(&bytes, b"1:t2:aa");
                    if tid_only {
                        out.violation("C10", "tid-width", format!("BEP example {name}: 2-byte transaction id \"aa\" is re-encoded on 4 bytes"));
                    } else {
                        out.violation("C10", "bep-reencode", format!("BEP example {name} does not re-encode byte-identically: {}", String::from_utf8_lossy(&stripped)));
                    }
                }
                format!("ok {} | {}", rendered, hex(&re))
            }
            // typed round trip at the boundaries of the integer fields: signed announce timestamp (u64),
            // mutable seq / cas (i64)
            // a transaction id travels as a byte string: whatever width the encoder picks, the decoder reads the id back
            ["enctid", n] => {
                let n: u32 = n.parse().expect("tid");
                let m = Msg::new(n, None, None, MessageType::Request(dht::RequestSpecific { requester_id: Id::from_bytes([1; 20]).expect("id"), request_type: RequestTypeSpecific::Ping }), false);
                let bytes = m.to_bytes().expect("enc");
                match guarded(|| Msg::from_bytes(&bytes)) {
                    Ok(Ok(m2)) => {
                        if m2.transaction_id() != n {
                            out.violation("C10", "tid-roundtrip", format!("transaction id {n} is encoded as {} and read back as {}", hex(&bytes), m2.transaction_id()));
                        }
                        format!("{} -> {}", hex(&bytes), m2.transaction_id())
                    }
                    _ => {
                        out.violation("C10", "tid-roundtrip", format!("transaction id {n} is encoded as {}, which the decoder rejects", hex(&bytes)));
                        format!("{} -> err", hex(&bytes))
                    }
                }
            }
            // get responses carrying a value of the given length: whatever the storing node may send decodes
            ["encval", n] => {
                let n: usize = n.parse().expect("len");
                let v: Vec<u8> = (0..n).map(|i| (i * 7 + 3) as u8).collect();
                let id = |b: u8| Id::from_bytes([b; 20]).expect("id");
                let m1 = Msg::new(7, None, None, MessageType::Response(ResponseSpecific::GetImmutable(GetImmutableResponseArguments { responder_id: id(1), token: vec![9, 9].into(), nodes: None, v: v.clone().into_boxed_slice() })), false);
                let m2 = Msg::new(7, None, None, MessageType::Response(ResponseSpecific::GetMutable(GetMutableResponseArguments { responder_id: id(1), token: vec![9, 9].into(), nodes: None, v: v.clone().into_boxed_slice(), k: [3; 32], seq: 5, sig: [4; 64] })), false);
                let mut shown = vec![];
                for (what, m) in [("immutable", m1), ("mutable", m2)] {
                    let bytes = m.to_bytes().expect("enc");
                    match guarded(|| Msg::from_bytes(&bytes)) {
                        Ok(Ok(m2)) if render_msg(&m2) == render_msg(&m) => shown.push(format!("{what}:ok:{}", bytes.len())),
                        _ => {
                            out.violation("C10", "roundtrip", format!("a get response carrying a {what} value of {n} bytes does not decode to the message that was encoded"));
                            shown.push(format!("{what}:err"));
                        }
                    }
                }
                shown.join(" ")
            }
            ["encint", t, seq, cas] => {
                let t: u64 = t.parse().expect("t");
                let seq: i64 = seq.parse().expect("seq");
                let cas: Option<i64> = if *cas == "none" { None } else { Some(cas.parse().expect("cas")) };
                let id = |b: u8| Id::from_bytes([b; 20]).expect("id");
                let m1 = Msg::new(7, None, None, MessageType::Request(dht::RequestSpecific { requester_id: id(1), request_type: RequestTypeSpecific::Put(PutRequest { token: vec![9].into(), put_request_type: PutRequestSpecific::AnnounceSignedPeer(AnnounceSignedPeerRequestArguments { info_hash: id(2), t, k: [3; 32], sig: [4; 64] }) }) }), false);
                let m2 = Msg::new(7, None, None, MessageType::Request(dht::RequestSpecific { requester_id: id(1), request_type: RequestTypeSpecific::Put(PutRequest { token: vec![9].into(), put_request_type: PutRequestSpecific::PutMutable(PutMutableRequestArguments { target: id(2), v: vec![1].into(), k: [3; 32], seq, sig: [4; 64], salt: None, cas }) }) }), false);
                let mut outs = vec![];
                for m in [m1, m2] {
                    let b = m.to_bytes().unwrap_or_default();
                    match Msg::from_bytes(&b) {
                        Ok(m2) if render_msg(&m2) == render_msg(&m) => {}
                        other => out.violation("C10", "integer-roundtrip", format!("`{}` does not survive encode/decode: {:?}", render_msg(&m), other.map(|x| render_msg(&x)))),
                    }
                    outs.push(hex(&b));
                }
                outs.join(" ")
            }
            // typed round trip of the compact node / peer formats at the boundaries of the address range
            ["encaddr", ip, port] => {
                let a = SocketAddrV4::new(std::net::Ipv4Addr::from(ip.parse::<u32>().expect("ip")), port.parse().expect("port"));
                let id = |b: u8| Id::from_bytes([b; 20]).expect("id");
                let nodes: Box<[Node]> = vec![Node::new(id(5), a), Node::new(id(6), SocketAddrV4::new(std::net::Ipv4Addr::new(1, 2, 3, 4), 5))].into_boxed_slice();
                let m1 = Msg::new(7, None, Some(a), MessageType::Response(ResponseSpecific::FindNode(FindNodeResponseArguments { responder_id: id(1), nodes: nodes.clone() })), false);
                let m2 = Msg::new(7, None, None, MessageType::Response(ResponseSpecific::GetPeers(GetPeersResponseArguments { responder_id: id(1), token: vec![9].into(), values: vec![a], nodes: Some(nodes) })), false);
                let mut outs = vec![];
                for m in [m1, m2] {
                    let b = m.to_bytes().unwrap_or_default();
                    match Msg::from_bytes(&b) {
                        Ok(m2) if render_msg(&m2) == render_msg(&m) => {}
                        other => out.violation("C10", "address-roundtrip", format!("`{}` does not survive encode/decode: {:?}", render_msg(&m), other.map(|x| render_msg(&x)))),
                    }
                    outs.push(hex(&b));
                }
                outs.join(" ")
            }
            // typed encoding of an announce_peer request with each implied_port value
            ["encann", implied, port] => {
                let m = Msg::new(
                    7,
                    None,
                    None,
                    MessageType::Request(dht::RequestSpecific {
                        requester_id: Id::from_bytes([1u8; 20]).expect("id"),
                        request_type: RequestTypeSpecific::Put(PutRequest {
                            token: vec![9, 9].into(),
                            put_request_type: PutRequestSpecific::AnnouncePeer(AnnouncePeerRequestArguments {
                                info_hash: Id::from_bytes([2u8; 20]).expect("id"),
                                port: port.parse().expect("port"),
                                implied_port: match *implied {
                                    "none" => None,
                                    "0" => Some(false),
                                    _ => Some(true),
                                },
                            }),
                        }),
                    }),
                    false,
                );
                let b = m.to_bytes().unwrap_or_default();
                // oracle: decoding yields an equivalent message (None ~ Some(false))
                match Msg::from_bytes(&b) {
                    Ok(m2) => {
                        let want = if *implied == "1" { " 1" } else { " 0" };
                        if !render_msg(&m2).ends_with(want) {
                            out.violation("C10", "implied-port-flip", format!("announce_peer with implied_port={implied} decodes as `{}`", render_msg(&m2)));
                        }
                    }
                    Err(_) => out.violation("C10", "roundtrip", "encoded announce_peer does not decode".into()),
                }
                hex(&b)
            }
            _ => "bad-op".into(),
        }
    }
}

fn remove_sub(hay: &[u8], needle: &[u8]) -> Vec<u8> {
    if let Some(p) = hay.windows(needle.len()).position(|w| w == needle) {
        [&hay[..p], &hay[p + needle.len()..]].concat()
    } else {
        hay.to_vec()
    }
}

const BEP_EXAMPLES: &[(&str, &str)] = &[
    ("bep5-ping-query", "d1:ad2:id20:abcdefghij0123456789e1:q4:ping1:t2:aa1:y1:qe"),
    ("bep5-ping-response", "d1:rd2:id20:mnopqrstuvwxyz123456e1:t2:aa1:y1:re"),
    ("bep5-find_node-query", "d1:ad2:id20:abcdefghij01234567896:target20:mnopqrstuvwxyz123456e1:q9:find_node1:t2:aa1:y1:qe"),
    ("bep5-find_node-response", "d1:rd2:id20:0123456789abcdefghij5:nodes26:mnopqrstuvwxyz123456axje.ue1:t2:aa1:y1:re"),
    ("bep5-get_peers-query", "d1:ad2:id20:abcdefghij01234567899:info_hash20:mnopqrstuvwxyz123456e1:q9:get_peers1:t2:aa1:y1:qe"),
    ("bep5-get_peers-response-values", "d1:rd2:id20:abcdefghij01234567895:token8:aoeusnth6:valuesl6:axje.u6:idhtnmee1:t2:aa1:y1:re"),
    ("bep5-get_peers-response-nodes", "d1:rd2:id20:abcdefghij01234567895:nodes26:mnopqrstuvwxyz123456axje.u5:token8:aoeusnthe1:t2:aa1:y1:re"),
    ("bep5-announce_peer-query", "d1:ad2:id20:abcdefghij012345678912:implied_porti1e9:info_hash20:mnopqrstuvwxyz1234564:porti6881e5:token8:aoeusnthe1:q13:announce_peer1:t2:aa1:y1:qe"),
    ("bep5-error", "d1:eli201e23:A Generic Error Ocurrede1:t2:aa1:y1:ee"),
    ("bep44-get-query", "d1:ad2:id20:abcdefghij01234567896:target20:mnopqrstuvwxyz123456e1:q3:get1:t2:aa1:y1:qe"),
    ("bep44-get-response-immutable", "d1:rd2:id20:abcdefghij01234567895:nodes26:mnopqrstuvwxyz123456axje.u5:token8:aoeusnth1:v12:Hello World!e1:t2:aa1:y1:re"),
    ("bep44-put-immutable-query", "d1:ad2:id20:abcdefghij01234567896:target20:mnopqrstuvwxyz1234565:token8:aoeusnth1:v12:Hello World!e1:q3:put1:t2:aa1:y1:qe"),
];

/// BEP44's test vectors (public key, signatures of seq 1 / "12:Hello World!" without and with the salt "foobar")
const BEP44_K: [u8; 32] = hex32("77ff84905a91936367c01360803104f92432fcd904a43511876df5cdf3e7e548");
const BEP44_SIG: [u8; 64] = hex64("305ac8aeb6c9c151fa120f120ea2cfb923564e11552d06a5d856091e5e853cff1260d3f39e4999684aa92eb73ffd136e6f4f3ecbfda0ce53a1608ecd7ae21f01");
const BEP44_SIG_SALT: [u8; 64] = hex64("6834284b6b24c3204eb2fea824d82f88883a3d95e8b4a21b8c0ded553d17d17ddf9a8a7104b1258f30bed3787e6cb896fca78c58f8e03b5f18f14951a87d9a08");

const fn hexval(c: u8) -> u8 {
    match c {
        b'0'..=b'9' => c - b'0',
        _ => c - b'a' + 10,
    }
}
const fn hex32(s: &str) -> [u8; 32] {
    let b = s.as_bytes();
    let mut o = [0u8; 32];
    let mut i = 0;
    while i < 32 {
        o[i] = hexval(b[2 * i]) * 16 + hexval(b[2 * i + 1]);
        i += 1;
    }
    o
}
const fn hex64(s: &str) -> [u8; 64] {
    let b = s.as_bytes();
    let mut o = [0u8; 64];
    let mut i = 0;
    while i < 64 {
        o[i] = hexval(b[2 * i]) * 16 + hexval(b[2 * i + 1]);
        i += 1;
    }
    o
}

fn bep44_target(salted: bool) -> [u8; 20] {
    let mut m = BEP44_K.to_vec();
    if salted {
        m.extend_from_slice(b"foobar");
    }
    crate::util::sha1_ref(&m)
}

/// The BEP44 messages, which the BEP gives as schemas, filled in with the BEP's own test vectors.  The
/// `-verbatim` puts carry exactly the arguments BEP44 lists; the others add the `target` key this library
/// puts into (and requires in) every put.
fn bep44_examples() -> Vec<(&'static str, Vec<u8>)> {
    let cat = |parts: &[&[u8]]| parts.concat();
    let put = |cas: bool, salt: bool, target: Option<[u8; 20]>| {
        let mut a = b"d1:ad".to_vec();
        if cas {
            a.extend_from_slice(b"3:casi0e");
        }
        a.extend_from_slice(b"2:id20:abcdefghij01234567891:k32:");
        a.extend_from_slice(&BEP44_K);
        if salt {
            a.extend_from_slice(b"4:salt6:foobar");
        }
        a.extend_from_slice(b"3:seqi1e3:sig64:");
        a.extend_from_slice(if salt { &BEP44_SIG_SALT } else { &BEP44_SIG });
        if let Some(t) = target {
            a.extend_from_slice(b"6:target20:");
            a.extend_from_slice(&t);
        }
        a.extend_from_slice(b"5:token8:aoeusnth1:v12:Hello World!e1:q3:put1:t2:aa1:y1:qe");
        a
    };
    vec![
        ("bep44-put-immutable-verbatim", b"d1:ad2:id20:abcdefghij01234567895:token8:aoeusnth1:v12:Hello World!e1:q3:put1:t2:aa1:y1:qe".to_vec()),
        ("bep44-put-mutable-verbatim", put(true, true, None)),
        ("bep44-put-mutable-salt-cas", put(true, true, Some(bep44_target(true)))),
        ("bep44-put-mutable-plain", put(false, false, Some(bep44_target(false)))),
        ("bep44-get-response-mutable", cat(&[b"d1:rd2:id20:abcdefghij01234567891:k32:", &BEP44_K, b"5:nodes26:mnopqrstuvwxyz123456axje.u3:seqi1e3:sig64:", &BEP44_SIG, b"5:token8:aoeusnth1:v12:Hello World!e1:t2:aa1:y1:re"])),
        ("bep44-get-query-seq", b"d1:ad2:id20:abcdefghij01234567893:seqi5e6:target20:mnopqrstuvwxyz123456e1:q3:get1:t2:aa1:y1:qe".to_vec()),
        ("bep44-get-response-seq-only", b"d1:rd2:id20:abcdefghij01234567895:nodes26:mnopqrstuvwxyz123456axje.u3:seqi7e5:token8:aoeusnthe1:t2:aa1:y1:re".to_vec()),
    ]
}

fn bep_expected(name: &str) -> String {
    let a = hex(b"abcdefghij0123456789");
    let m = hex(b"mnopqrstuvwxyz123456");
    let z = hex(b"0123456789abcdefghij");
    let tok = hex(b"aoeusnth");
    let node = format!("{}@{}:{}", m, u32::from_be_bytes(*b"axje"), u16::from_be_bytes(*b".u"));
    let p1 = format!("{}:{}", u32::from_be_bytes(*b"axje"), u16::from_be_bytes(*b".u"));
    let p2 = format!("{}:{}", u32::from_be_bytes(*b"idht"), u16::from_be_bytes(*b"nm"));
    match name {
        "bep5-ping-query" => format!("q ping {a}"),
        "bep5-ping-response" => format!("r ping {m}"),
        "bep5-find_node-query" => format!("q find_node {a} {m}"),
        "bep5-find_node-response" => format!("r find_node {z} nodes={node}"),
        "bep5-get_peers-query" => format!("q get_peers {a} {m}"),
        "bep5-get_peers-response-values" => format!("r get_peers {a} tok={tok} nodes=none values={p1},{p2}"),
        "bep5-get_peers-response-nodes" => format!("r no_values {a} tok={tok} nodes={node}"),
        "bep5-announce_peer-query" => format!("q announce {a} {tok} {m} 6881 1"),
        "bep5-error" => format!("e 201 {}", hex(b"A Generic Error Ocurred")),
        "bep44-get-query" => format!("q get {a} {m} none"),
        "bep44-get-response-immutable" => format!("r imm {a} tok={tok} nodes={node} v={}", hex(b"Hello World!")),
        "bep44-put-immutable-query" => format!("q put_imm {a} {tok} {m} {}", hex(b"Hello World!")),
        "bep44-put-immutable-verbatim" => format!("q put_imm {a} {tok} {} {}", hex(&crate::util::sha1_ref(b"12:Hello World!")), hex(b"Hello World!")),
        "bep44-put-mutable-verbatim" | "bep44-put-mutable-salt-cas" => format!("q put_mut {a} {tok} {} {} {} 1 {} {} 0", hex(&bep44_target(true)), hex(b"Hello World!"), hex(&BEP44_K), hex(&BEP44_SIG_SALT), hex(b"foobar")),
        "bep44-put-mutable-plain" => format!("q put_mut {a} {tok} {} {} {} 1 {} none none", hex(&bep44_target(false)), hex(b"Hello World!"), hex(&BEP44_K), hex(&BEP44_SIG)),
        "bep44-get-response-mutable" => format!("r mut {a} tok={tok} nodes={node} v={} k={} seq=1 sig={}", hex(b"Hello World!"), hex(&BEP44_K), hex(&BEP44_SIG)),
        "bep44-get-query-seq" => format!("q get {a} {m} 5"),
        "bep44-get-response-seq-only" => format!("r nmr {a} tok={tok} nodes={node} seq=7"),
        _ => "?".into(),
    }
}

pub fn run(out: &mut Out, seed: u64, thorough: bool, replay: Option<&str>) {
    out.stateless = true;
    let mut s = CodecStream;
    if let Some(p) = replay {
        return replay_file(&mut s, out, p);
    }
    let _ = (Ipv4Addr::LOCALHOST, SocketAddrV4::new(Ipv4Addr::LOCALHOST, 0));
    generate(out, seed, thorough);
}

// ------------------------------------------------------------------------------------ generator
#[derive(Clone, Debug)]
pub enum B {
    I(i128),
    S(Vec<u8>),
    L(Vec<B>),
    D(Vec<(Vec<u8>, B)>),
    Raw(Vec<u8>),
}
pub fn ben(b: &B, out: &mut Vec<u8>) {
    match b {
        B::I(i) => out.extend(format!("i{i}e").bytes()),
        B::S(s) => {
            out.extend(format!("{}:", s.len()).bytes());
            out.extend(s);
        }
        B::L(l) => {
            out.push(b'l');
            for x in l {
                ben(x, out);
            }
            out.push(b'e');
        }
        B::D(d) => {
            out.push(b'd');
            for (k, v) in d {
                ben(&B::S(k.clone()), out);
                ben(v, out);
            }
            out.push(b'e');
        }
        B::Raw(r) => out.extend(r),
    }
}
fn enc(b: &B) -> Vec<u8> {
    let mut v = vec![];
    ben(b, &mut v);
    v
}
fn s(x: &str) -> Vec<u8> {
    x.as_bytes().to_vec()
}
fn d(entries: Vec<(&str, B)>) -> B {
    B::D(entries.into_iter().map(|(k, v)| (s(k), v)).collect())
}

struct G {
    rng: Rng,
}
impl G {
    fn id(&mut self) -> B {
        B::S(self.rng.id20().to_vec())
    }
    fn nodes(&mut self, n: usize) -> B {
        let mut v = vec![];
        for _ in 0..n {
            v.extend(self.rng.id20());
            v.extend(self.addr6());
        }
        B::S(v)
    }
    /// a compact address: random, or at a boundary of the ip / port range
    fn addr6(&mut self) -> Vec<u8> {
        let mut a = self.rng.bytes(6);
        match self.rng.below(10) {
            0 => {
                a[4] = 0;
                a[5] = 0;
            }
            1 => {
                a[4] = 255;
                a[5] = 255;
            }
            2 => a[..4].copy_from_slice(&[0, 0, 0, 0]),
            3 => a[..4].copy_from_slice(&[255, 255, 255, 255]),
            _ => {}
        }
        a
    }
    fn tok(&mut self) -> B {
        let n = *self.rng.pick(&[0usize, 1, 4, 4, 4, 8, 20]);
        B::S(self.rng.bytes(n))
    }
    fn i64x(&mut self) -> i128 {
        *self.rng.pick(&[0i128, 1, -1, 2, 3, 1000, i64::MAX as i128, i64::MIN as i128, 4294967296, -4294967297])
    }
    /// the argument/response dict of every message kind, with all optional fields present
    fn bodies(&mut self) -> Vec<(&'static str, &'static str, B)> {
        let vlen = *self.rng.pick(&[0usize, 1, 5, 999, 1000, 1001]);
        let v = B::S(self.rng.bytes(vlen));
        let salt_len = *self.rng.pick(&[0usize, 4, 64, 65]);
        let salt = B::S(self.rng.bytes(salt_len));
        let k = B::S(self.rng.bytes(32));
        let sig = B::S(self.rng.bytes(64));
        let nn = *self.rng.pick(&[0usize, 1, 8, 20, 21]);
        let np = *self.rng.pick(&[0usize, 1, 3, 20, 50]);
        let peers = B::L((0..np).map(|_| B::S(self.addr6())).collect());
        let ns = *self.rng.pick(&[0usize, 1, 2, 10]);
        let speers = B::L((0..ns).map(|_| B::S(self.rng.bytes(104))).collect());
        vec![
            ("q", "ping", d(vec![("id", self.id())])),
            ("q", "find_node", d(vec![("id", self.id()), ("target", self.id())])),
            ("q", "get_peers", d(vec![("id", self.id()), ("info_hash", self.id())])),
            ("q", "get_signed_peers", d(vec![("id", self.id()), ("info_hash", self.id())])),
            ("q", "get", d(vec![("id", self.id()), ("seq", B::I(self.i64x())), ("target", self.id())])),
            ("q", "announce_peer", d(vec![("id", self.id()), ("implied_port", B::I(*self.rng.pick(&[0i128, 1, 1, 2, 255]))), ("info_hash", self.id()), ("port", B::I(*self.rng.pick(&[0i128, 1, 6881, 65535]))), ("token", self.tok())])),
            ("q", "announce_signed_peer", d(vec![("id", self.id()), ("info_hash", self.id()), ("k", k.clone()), ("sig", sig.clone()), ("t", B::I(*self.rng.pick(&[0i128, 1, 1_700_000_000_000_000, i64::MAX as i128, -1]))), ("token", self.tok())])),
            ("q", "put", d(vec![("id", self.id()), ("target", self.id()), ("token", self.tok()), ("v", v.clone())])),
            ("q", "put", d(vec![("cas", B::I(self.i64x())), ("id", self.id()), ("k", k.clone()), ("salt", salt.clone()), ("seq", B::I(self.i64x())), ("sig", sig.clone()), ("target", self.id()), ("token", self.tok()), ("v", v.clone())])),
            ("r", "ping", d(vec![("id", self.id())])),
            ("r", "find_node", d(vec![("id", self.id()), ("nodes", self.nodes(nn))])),
            ("r", "get_peers", d(vec![("id", self.id()), ("nodes", self.nodes(nn)), ("token", self.tok()), ("values", peers)])),
            ("r", "get_signed_peers", d(vec![("id", self.id()), ("nodes", self.nodes(nn)), ("peers", speers), ("token", self.tok())])),
            ("r", "no_values", d(vec![("id", self.id()), ("nodes", self.nodes(nn)), ("token", self.tok())])),
            ("r", "get_immutable", d(vec![("id", self.id()), ("nodes", self.nodes(nn)), ("token", self.tok()), ("v", v.clone())])),
            ("r", "get_mutable", d(vec![("id", self.id()), ("k", k), ("nodes", self.nodes(nn)), ("seq", B::I(self.i64x())), ("sig", sig), ("token", self.tok()), ("v", v)])),
            ("r", "no_more_recent", d(vec![("id", self.id()), ("nodes", self.nodes(nn)), ("seq", B::I(self.i64x())), ("token", self.tok())])),
        ]
    }
    fn envelope(&mut self, y: &str, name: &str, body: B) -> Vec<(Vec<u8>, B)> {
        let mut e: Vec<(Vec<u8>, B)> = vec![];
        match y {
            "q" => {
                e.push((s("a"), body));
                e.push((s("q"), B::S(s(name))));
            }
            "r" => e.push((s("r"), body)),
            _ => e.push((s("e"), body)),
        }
        if self.rng.chance(1, 2) {
            e.push((s("ip"), B::S(self.rng.bytes(6))));
        }
        if self.rng.chance(1, 2) {
            e.push((s("ro"), B::I(*self.rng.pick(&[0i128, 1, 1, 2, -1]))));
        }
        let tl = if self.rng.chance(1, 3) { 2 } else { 4 };
        e.push((s("t"), B::S(self.rng.bytes(tl))));
        if self.rng.chance(1, 2) {
            e.push((s("v"), B::S(vec![b'R', b'S', 0, self.rng.below(8) as u8])));
        }
        e.push((s("y"), B::S(s(y))));
        e.sort_by(|a, b| a.0.cmp(&b.0));
        e
    }
    /// type / length confusions of one value
    fn confusions(&mut self, v: &B) -> Vec<B> {
        let mut out = vec![B::I(0), B::I(-1), B::I(i64::MAX as i128), B::I(i64::MAX as i128 + 1), B::S(vec![]), B::L(vec![]), B::D(vec![]), B::L(vec![B::I(1), B::I(2)]), B::L(vec![B::S(vec![1])]), B::L(vec![B::I(256)])];
        if let B::S(b) = v {
            let n = b.len();
            for m in [n.saturating_sub(1), n + 1, 2 * n, 0] {
                out.push(B::S(self.rng.bytes(m)));
            }
            // the same bytes as a list of small integers
            out.push(B::L(b.iter().take(40).map(|x| B::I(*x as i128)).collect()));
        }
        if let B::I(i) = v {
            out.push(B::I(i + 1));
            out.push(B::I(65536));
            out.push(B::I(256));
            out.push(B::I(i32::MAX as i128 + 1));
            out.push(B::Raw(format!("i+{}e", i.abs()).into_bytes()));
            out.push(B::Raw(format!("i00{}e", i.abs()).into_bytes()));
            out.push(B::Raw(b"i-0e".to_vec()));
            out.push(B::Raw(b"ie".to_vec()));
        }
        if let B::L(l) = v {
            let mut l2 = l.clone();
            l2.push(B::S(vec![]));
            out.push(B::L(l2));
            let mut l3 = l.clone();
            l3.push(B::I(7));
            out.push(B::L(l3));
            if let Some(B::S(first)) = l.first() {
                let mut l4 = l.clone();
                l4[0] = B::S([first.clone(), first.clone()].concat());
                out.push(B::L(l4));
                let mut l5 = l.clone();
                l5[0] = B::S(first[..first.len() - 1].to_vec());
                out.push(B::L(l5));
            }
        }
        out
    }
}

fn emit(out: &mut Out, st: &mut CodecStream, bytes: &[u8], tag: &str) {
    out.count(&format!("gen:{tag}"));
    out.mark_distinct(fnv(bytes));
    out.run(st, format!("dec {}", hexz(bytes)));
}

pub fn generate(out: &mut Out, seed: u64, thorough: bool) {
    let mut st = CodecStream;
    let mut g = G { rng: Rng::new(seed ^ 0xc0dec) };
    out.begin(&mut st, "codec");
    for (name, text) in BEP_EXAMPLES {
        out.run(&mut st, format!("bep {name} {}", hex(text.as_bytes())));
        out.count("gen:bep-example");
    }
    for n in [0u32, 1, 255, 256, 65_535, 65_536, 65_537, 1_000_000, 16_777_215, 16_777_216, 16_777_217, 0x0100_0001, u32::MAX - 1, u32::MAX] {
        out.run(&mut st, format!("enctid {n}"));
        out.count("gen:typed-tid");
    }
    for n in [0usize, 1, 999, 1000] {
        out.run(&mut st, format!("encval {n}"));
        out.count("gen:typed-value-size");
    }
    for (name, bytes) in bep44_examples() {
        out.run(&mut st, format!("bep {name} {}", hex(&bytes)));
        out.count("gen:bep44-example");
    }
    for implied in ["none", "0", "1"] {
        for port in [0u16, 6881, 65535] {
            out.run(&mut st, format!("encann {implied} {port}"));
            out.count("gen:typed-announce");
        }
    }
    for ip in [0u32, 1, 0x7f000001, 0x0a000001, u32::MAX] {
        for port in [0u16, 1, 6881, 65535] {
            out.run(&mut st, format!("encaddr {ip} {port}"));
            out.count("gen:typed-addresses");
        }
    }
    for t in [0u64, 1, (1 << 63) - 1, 1 << 63, u64::MAX] {
        for (seq, cas) in [(0i64, "none".to_string()), (i64::MAX, i64::MIN.to_string()), (i64::MIN, i64::MAX.to_string()), (-1, "0".to_string())] {
            out.run(&mut st, format!("encint {t} {seq} {cas}"));
            out.count("gen:typed-integers");
        }
    }
    let rounds = if thorough { 12 } else { 2 };
    for round in 0..rounds {
        for (y, name, body) in g.bodies() {
            let env = g.envelope(y, name, body.clone());
            let full = enc(&B::D(env.clone()));
            emit(out, &mut st, &full, "valid");
            // the optional `nodes` field of a get-type response may be absent without changing what
            // the response is
            if y == "r" {
                if let (Ok(m), B::D(fields)) = (Msg::from_bytes(&full), &body) {
                    let variant = render_msg(&m).split(" r ").nth(1).and_then(|x| x.split(' ').next().map(|v| v.to_string())).unwrap_or_default();
                    if variant != "find_node" && fields.iter().any(|f| f.0 == s("nodes")) {
                        let sub: Vec<(Vec<u8>, B)> = fields.iter().filter(|f| f.0 != s("nodes")).cloned().collect();
                        let mut env2 = env.clone();
                        for e in env2.iter_mut() {
                            if e.0 == s("r") {
                                e.1 = B::D(sub.clone());
                            }
                        }
                        out.count("gen:optional-nodes-absent");
                        out.run(&mut st, format!("decx {variant} {}", hexz(&enc(&B::D(env2)))));
                    }
                }
            }
            if round == 0 {
                out.sample(format!("dec {} ({y} {name})", String::from_utf8_lossy(&full[..full.len().min(60)]).replace(|c: char| !c.is_ascii_graphic(), ".")));
            }
            // ---- every subset of the body's fields (bounded: <= 2^9)
            if let B::D(fields) = &body {
                let n = fields.len();
                let subsets: Vec<u32> = if n <= 6 || thorough { (0..(1u32 << n)).collect() } else { (0..64).map(|_| g.rng.below(1 << n) as u32).collect() };
                for mask in subsets {
                    let sub: Vec<(Vec<u8>, B)> = fields.iter().enumerate().filter(|(i, _)| mask & (1 << i) != 0).map(|(_, f)| f.clone()).collect();
                    let mut env2 = env.clone();
                    for e in env2.iter_mut() {
                        if e.0 == s("a") || e.0 == s("r") {
                            e.1 = B::D(sub.clone());
                        }
                    }
                    emit(out, &mut st, &enc(&B::D(env2)), "field-subset");
                }
                // ---- per-field type / length confusions
                for (fi, (_, fv)) in fields.iter().enumerate() {
                    for c in g.confusions(fv) {
                        let mut f2 = fields.clone();
                        f2[fi].1 = c;
                        let mut env2 = env.clone();
                        for e in env2.iter_mut() {
                            if e.0 == s("a") || e.0 == s("r") {
                                e.1 = B::D(f2.clone());
                            }
                        }
                        emit(out, &mut st, &enc(&B::D(env2)), "field-confusion");
                    }
                }
                // ---- duplicate / unknown / oddly-keyed entries inside the body
                for extra in [
                    vec![(s("zz"), B::I(1)), (s("zz"), B::I(2))],
                    vec![fields[0].clone()],
                    vec![(vec![0xff, 0xfe], B::I(1))],
                    vec![(s("zzz"), B::Raw(enc(&B::D(vec![(s("a"), B::L(vec![B::I(1), B::D(vec![])]))]))))],
                ] {
                    let mut f2 = fields.clone();
                    f2.extend(extra);
                    let mut env2 = env.clone();
                    for e in env2.iter_mut() {
                        if e.0 == s("a") || e.0 == s("r") {
                            e.1 = B::D(f2.clone());
                        }
                    }
                    emit(out, &mut st, &enc(&B::D(env2)), "body-extra");
                }
            }
            // ---- envelope confusions: each envelope entry dropped, confused, duplicated, reordered
            for i in 0..env.len() {
                let mut e2 = env.clone();
                e2.remove(i);
                emit(out, &mut st, &enc(&B::D(e2)), "envelope-drop");
                for c in g.confusions(&env[i].1.clone()).into_iter().take(if thorough { 40 } else { 14 }) {
                    let mut e3 = env.clone();
                    e3[i].1 = c;
                    emit(out, &mut st, &enc(&B::D(e3)), "envelope-confusion");
                }
                let mut e4 = env.clone();
                e4.push(env[i].clone());
                emit(out, &mut st, &enc(&B::D(e4)), "envelope-dup");
            }
            let mut rev = env.clone();
            rev.reverse();
            emit(out, &mut st, &enc(&B::D(rev)), "envelope-unsorted");
            for yv in ["x", "", "qq", "Q"] {
                let mut e5 = env.clone();
                for e in e5.iter_mut() {
                    if e.0 == s("y") {
                        e.1 = B::S(s(yv));
                    }
                }
                emit(out, &mut st, &enc(&B::D(e5)), "envelope-y");
            }
            // ---- mutational: truncation at every offset (bounded), bit flips, splices
            let step = if thorough { 1 } else { (full.len() / 24).max(1) };
            let mut cut = 0;
            while cut < full.len() {
                emit(out, &mut st, &full[..cut], "truncate");
                cut += step;
            }
            for _ in 0..(if thorough { 200 } else { 30 }) {
                let mut m = full.clone();
                let flips = 1 + g.rng.below(3);
                for _ in 0..flips {
                    let i = g.rng.below(m.len() as u64) as usize;
                    match g.rng.below(3) {
                        0 => m[i] ^= 1 << g.rng.below(8),
                        1 => m[i] = *g.rng.pick(b"dlei0123456789:-+e"),
                        _ => m[i] = g.rng.next() as u8,
                    }
                }
                emit(out, &mut st, &m, "mutate");
            }
            emit(out, &mut st, &[full.clone(), full.clone()].concat(), "trailing");
            emit(out, &mut st, &[full.clone(), b"garbage".to_vec()].concat(), "trailing");
        }
        // ---- errors
        for (code, desc) in [(201i128, s("Generic Error")), (203, s("")), (301, s("cas")), (-5, s("x")), (i32::MAX as i128, s("m")), (i32::MAX as i128 + 1, s("m")), (202, vec![0xff, 0xfe])] {
            let body = B::L(vec![B::I(code), B::S(desc)]);
            let env = g.envelope("e", "", body);
            emit(out, &mut st, &enc(&B::D(env)), "error");
        }
        for body in [B::L(vec![B::I(201)]), B::L(vec![B::I(201), B::S(s("a")), B::I(1)]), B::L(vec![B::S(s("201")), B::S(s("a"))]), B::L(vec![]), B::D(vec![]), B::S(s("err")), B::I(5)] {
            let env = g.envelope("e", "", body);
            emit(out, &mut st, &enc(&B::D(env)), "error-malformed");
        }
        // ---- grammar-random bencode up to the MTU
        for _ in 0..(if thorough { 400 } else { 60 }) {
            let mut depth_budget = 6;
            let b = random_b(&mut g.rng, &mut depth_budget);
            let mut bytes = enc(&b);
            bytes.truncate(2048);
            emit(out, &mut st, &bytes, "random-bencode");
        }
        // ---- syntax corners
        for raw in [&b"d1:ad2:id20:aaaaaaaaaaaaaaaaaaaae1:q4:ping1:t2:aa1:y1:qe"[..], b"d1:ad2:id020:aaaaaaaaaaaaaaaaaaaae1:q4:ping1:t02:aa1:y1:qe", b"d1:ad2:id20:aaaaaaaaaaaaaaaaaaaae1:q4:ping2:roi+1e1:t2:aa1:y1:qe", b"d1:ad2:id20:aaaaaaaaaaaaaaaaaaaae1:q4:ping2:roi-0e1:t2:aa1:y1:qe", b"d1:ad2:id20:aaaaaaaaaaaaaaaaaaaae1:q4:ping2:roi1 e1:t2:aa1:y1:qe", b"di5ei6e1:ad2:id20:aaaaaaaaaaaaaaaaaaaae1:q4:ping1:t2:aa1:y1:qe", b"d1:ad2:id20:aaaaaaaaaaaaaaaaaaaai5ei6ee1:q4:ping1:t2:aa1:y1:qe", b"d1:ad2:id20:aaaaaaaaaaaaaaaaaaaae1:q4:ping1:t2:aa1:y1:q2:zzdi5ei6eee", b"d1:ad2:id20:aaaaaaaaaaaaaaaaaaaae1:q4:ping1:t2:aa1:y1:q2:zzdlelee", b"d1:ad2:id20:aaaaaaaaaaaaaaaaaaaae1:q4:ping1:t2:aa1:y1:q2:zz99999999999999999999:e", b"d1:ad2:id20:aaaaaaaaaaaaaaaaaaaae1:q4:ping1:t2:aa1:y1:q2:zz18446744073709551615:e"] {
            emit(out, &mut st, raw, "syntax-corner");
        }
        for depth in [10usize, 100, 500, 900] {
            let mut raw = b"d1:ad2:id20:aaaaaaaaaaaaaaaaaaaae1:q4:ping1:t2:aa1:y1:q2:zz".to_vec();
            raw.extend(std::iter::repeat(b'l').take(depth));
            raw.extend(std::iter::repeat(b'e').take(depth));
            raw.push(b'e');
            emit(out, &mut st, &raw, "deep-nesting");
        }
    }
}

fn random_b(rng: &mut Rng, budget: &mut i32) -> B {
    *budget -= 1;
    let keys = ["a", "q", "r", "e", "t", "y", "v", "ip", "ro", "id", "token", "nodes", "values", "peers", "seq", "k", "sig", "target", "info_hash", "port", "salt", "cas", "zz"];
    match if *budget <= 0 { rng.below(2) } else { rng.below(5) } {
        0 => B::I(*rng.pick(&[0i128, 1, -1, 255, 256, 65535, 65536, i64::MAX as i128, i64::MIN as i128, i64::MAX as i128 + 1])),
        1 => {
            let n = *rng.pick(&[0usize, 1, 2, 4, 6, 20, 26, 32, 64, 104]);
            if rng.chance(1, 4) {
                B::S(rng.pick(&["q", "r", "e", "ping", "put", "get", "find_node"]).as_bytes().to_vec())
            } else {
                B::S(rng.bytes(n))
            }
        }
        2 => {
            let n = rng.below(4);
            B::L((0..n).map(|_| random_b(rng, budget)).collect())
        }
        _ => {
            let n = 1 + rng.below(7);
            let mut e: Vec<(Vec<u8>, B)> = (0..n).map(|_| (rng.pick(&keys).as_bytes().to_vec(), random_b(rng, budget))).collect();
            if rng.chance(2, 3) {
                e.sort_by(|a, b| a.0.cmp(&b.0));
                e.dedup_by(|a, b| a.0 == b.0);
            }
            B::D(e)
        }
    }
}
