//! `node` stream (C02, C06, C07, C08, C17, C18, C20, C05): ONE real node — its actor thread, the
//! real `Dht`/`AsyncDht` facades, the real socket over the simulated UDP — stepped in lockstep, with
//! every peer played by the harness.  One `step` is one iteration of the actor loop:
//!   [rest of tick k: the datagram (if any) is received and handled, queries advance, finished
//!    calls are answered]  →  [one API message is picked up]  →  [maintenance of tick k+1].
//! The Lean model (`Model/Actor.lean`) executes the same ops; outputs carry no transaction ids
//! (requests are referred to by destination / kind / target) because the order in which a
//! `HashMap` of queries is walked is not part of the model.
use crate::streams::closest::nodes_s;
use crate::streams::codec::{render_request, render_response};
use crate::util::*;
use dht::verif::export::*;
use dht::verif::{self, Msg, Snapshot, StepOutcome};
use dht::{MutableItem, SigningKey};
use futures_core::Stream as FStream;
use std::collections::HashMap;
use std::future::Future;
use std::net::{Ipv4Addr, SocketAddrV4};
use std::pin::Pin;
use std::task::{Context, Poll, RawWaker, RawWakerVTable, Waker};
use std::time::Duration;

pub const MS: u64 = 1_000_000;
pub const SEC: u64 = 1_000_000_000;

fn noop_waker() -> Waker {
    fn noop(_: *const ()) {}
    fn clone(_: *const ()) -> RawWaker {
        RawWaker::new(std::ptr::null(), &VTABLE)
    }
    static VTABLE: RawWakerVTable = RawWakerVTable::new(clone, noop, noop, noop);
    unsafe { Waker::from_raw(RawWaker::new(std::ptr::null(), &VTABLE)) }
}

type Fut<T> = Pin<Box<dyn Future<Output = T>>>;
type Strm<T> = Pin<Box<dyn FStream<Item = T>>>;

/// a request filter that bans one address
#[derive(Debug, Clone)]
struct DenyIp(Ipv4Addr);
impl dht::RequestFilter for DenyIp {
    fn allow_request(&self, _request: &dht::RequestSpecific, from: SocketAddrV4) -> bool {
        *from.ip() != self.0
    }
}

enum CallKind {
    PutQ(Fut<Result<Id, PutQueryError>>),
    PutM(Fut<Result<Id, dht::errors::PutMutableError>>),
    GetImm(Fut<Option<Box<[u8]>>>),
    Nodes(Fut<Box<[Node]>>),
    Info(Fut<Info>),
    Peers(Strm<Vec<SocketAddrV4>>),
    SPeers(Strm<Vec<SignedAnnounce>>),
    Muts(Strm<MutableItem>),
    Recent(Fut<Option<MutableItem>>),
    Boot(Fut<bool>),
    ToBoot(Fut<Vec<String>>),
}

pub struct Call {
    pub no: u32,
    kind: Option<CallKind>,
    pub what: String,
    pub done: bool,
    pub started_at: u64,
    pub finished_at: Option<u64>,
    pub results: Vec<String>,
    /// expectations for the authenticity oracle
    pub expect_target: Option<Id>,
    pub expect_key: Option<[u8; 32]>,
    pub expect_salt: Option<Vec<u8>>,
    /// scripted expectation on the first result (`expect=` of the op), and the property it belongs to
    pub expect: Option<(String, String)>,
    /// `mute=1`: the caller polls its future once (the request is submitted) and then leaves it alone —
    /// neither polled nor dropped — until the end of the case; what it is handed is not shown
    pub muted: bool,
    pub polled: bool,
}

pub fn key_from_seed(seed: u64) -> SigningKey {
    let mut b = [0u8; 32];
    let mut r = Rng::new(seed ^ 0x5eed_5eed);
    for x in b.iter_mut() {
        *x = r.next() as u8;
    }
    SigningKey::from_bytes(&b)
}

pub fn show_put_err(e: &PutError) -> String {
    match e {
        PutError::Query(q) => show_putq_err(q),
        PutError::Concurrency(ConcurrencyError::CasFailed) => "err:cas-failed".into(),
        PutError::Concurrency(ConcurrencyError::NotMostRecent) => "err:not-most-recent".into(),
        PutError::Concurrency(ConcurrencyError::ConflictRisk) => "err:conflict-risk".into(),
    }
}
pub fn show_putq_err(e: &PutQueryError) -> String {
    match e {
        PutQueryError::NoClosestNodes => "err:no-closest-nodes".into(),
        PutQueryError::Timeout => "err:timeout".into(),
        PutQueryError::ErrorResponse(e) => format!("err:response:{}", e.code),
    }
}

fn kv<'a>(toks: &'a [&'a str], key: &str) -> Option<&'a str> {
    toks.iter().find_map(|t| t.strip_prefix(key).and_then(|r| r.strip_prefix('=')))
}

fn id_of(h: &str) -> Id {
    Id::from_bytes(unhex(h)).expect("id")
}

pub fn req_kind_word(r: &RequestTypeSpecific) -> (&'static str, String) {
    match r {
        RequestTypeSpecific::Ping => ("ping", "-".into()),
        RequestTypeSpecific::FindNode(a) => ("find_node", hex(a.target.as_bytes())),
        RequestTypeSpecific::GetPeers(a) => ("get_peers", hex(a.info_hash.as_bytes())),
        RequestTypeSpecific::GetSignedPeers(a) => ("get_signed_peers", hex(a.info_hash.as_bytes())),
        RequestTypeSpecific::GetValue(a) => ("get", hex(a.target.as_bytes())),
        RequestTypeSpecific::Put(p) => ("put", hex(p.put_request_type.target().as_bytes())),
    }
}

/// One datagram the node sent, decoded.
#[derive(Clone)]
pub struct Sent {
    pub to: SocketAddrV4,
    pub msg: Msg,
    pub line: String,
    pub key: Option<String>,
    pub at: u64,
}

pub struct NodeStream {
    pub dht: Option<Dht>,
    pub addr: SocketAddrV4,
    pub own_id: Option<Id>,
    pub alive: bool,
    pub calls: Vec<Call>,
    /// request key -> transaction id of the latest request with that key
    pub reqs: HashMap<String, u32>,
    pub all_sent: Vec<Sent>,
    pub last_sent: Vec<Sent>,
    pub last_events: Vec<String>,
    pub client_mode_cfg: bool,
    pub steps: u64,
    /// the end of the case: parked callers come back to their futures
    pub unmute: bool,
    pub last_snapshot: Option<Snapshot>,
    /// when each request key was last sent
    pub req_sent_at: HashMap<String, u64>,
    /// address -> time of the last in-time answer it gave to one of our requests
    pub answered: HashMap<SocketAddrV4, u64>,
    /// address -> time of the last answer of any kind (possibly late: the socket's timeout adapts
    /// between 0.5 s and several seconds, so a slow answer may or may not count for the node)
    pub any_reply: HashMap<SocketAddrV4, u64>,
    /// addresses that sent us requests flagged read-only / not flagged
    pub ro_requesters: HashMap<SocketAddrV4, bool>,
    /// addresses whose replies carried ro=1
    pub ro_responders: std::collections::HashSet<SocketAddrV4>,
    /// responses and errors the node sent since the last snapshot
    pub replies_since_snap: Vec<String>,
    /// (ro flag, line) of requests the node sent since the last snapshot
    pub requests_since_snap: Vec<(bool, String)>,
    pub first_seen_in_table: HashMap<SocketAddrV4, u64>,
    /// (time, routing-table addresses) of earlier snapshots of this case
    pub table_history: Vec<(u64, Vec<SocketAddrV4>)>,
    pub first_seen_in_signed: HashMap<SocketAddrV4, u64>,
    pub has_bootstrap: bool,
    pub sent_since_snap: usize,
    /// part of a multi-node case: the simulated network and the clock belong to the case
    pub multi: bool,
}

impl NodeStream {
    pub fn new() -> Self {
        NodeStream {
            dht: None,
            addr: SocketAddrV4::new(Ipv4Addr::new(10, 0, 0, 1), 6881),
            own_id: None,
            alive: false,
            calls: vec![],
            reqs: HashMap::new(),
            all_sent: vec![],
            last_sent: vec![],
            last_events: vec![],
            client_mode_cfg: true,
            steps: 0,
            unmute: false,
            last_snapshot: None,
            req_sent_at: HashMap::new(),
            answered: HashMap::new(),
            any_reply: HashMap::new(),
            ro_requesters: HashMap::new(),
            ro_responders: Default::default(),
            replies_since_snap: vec![],
            requests_since_snap: vec![],
            first_seen_in_table: HashMap::new(),
            table_history: vec![],
            first_seen_in_signed: HashMap::new(),
            has_bootstrap: false,
            sent_since_snap: 0,
            multi: false,
        }
    }

    fn canon(&self, to: SocketAddrV4, m: &Msg) -> (String, Option<String>) {
        let ver = m.version().map(|v| hex(&v)).unwrap_or("none".into());
        let ip = m.requester_ip().map(|a| addr_s(&a)).unwrap_or("none".into());
        let ro = if m.read_only() { 1 } else { 0 };
        match m.message_type() {
            MessageType::Request(r) => {
                // put requests carry a random requester id (puts started in one tick draw them in
                // `HashMap` order); every other request shows the id as sent: it changes when the node
                // re-keys (BEP42)
                let mut r2 = r.clone();
                if matches!(r2.request_type, RequestTypeSpecific::Put(_)) {
                    r2.requester_id = Id::from_bytes([0u8; 20]).expect("id");
                }
                let (kind, target) = req_kind_word(&r.request_type);
                (format!("{} v={ver} ip={ip} ro={ro} q {}", addr_s(&to), render_request(&r2)), Some(format!("{}/{}/{}", addr_s(&to), kind, target)))
            }
            MessageType::Response(r) => (format!("{} t={} v={ver} ip={ip} ro={ro} r {}", addr_s(&to), m.transaction_id(), render_response(r)), None),
            MessageType::Error(e) => (format!("{} t={} v={ver} ip={ip} ro={ro} e {}", addr_s(&to), m.transaction_id(), e.code), None),
        }
    }

    fn collect_outbox(&mut self) {
        let now = verif::now_ns();
        for (_from, to, bytes) in verif::drain_outbox() {
            match Msg::from_bytes(&bytes) {
                Ok(m) => {
                    let (line, key) = self.canon(to, &m);
                    self.sent_since_snap += 1;
                    if let Some(k) = &key {
                        self.reqs.insert(k.clone(), m.transaction_id());
                        self.req_sent_at.insert(k.clone(), now);
                        self.requests_since_snap.push((m.read_only(), line.clone()));
                    } else {
                        self.replies_since_snap.push(line.clone());
                    }
                    let s = Sent { to, msg: m, line, key, at: now };
                    self.all_sent.push(s.clone());
                    self.last_sent.push(s);
                }
                Err(e) => {
                    let s = Sent { to, msg: Msg::new(0, None, None, MessageType::Error(ErrorSpecific { code: 0, description: "x".into() }), false), line: format!("{} undecodable({e}) {}", addr_s(&to), hex(&bytes)), key: None, at: now };
                    self.last_sent.push(s);
                }
            }
        }
    }

    fn poll_calls(&mut self, out: &mut Out) {
        let now = verif::now_ns();
        let w = noop_waker();
        let mut cx = Context::from_waker(&w);
        // the known cross-kind finding needs a put_mutable in the same case; without one, a concurrency
        // error in a plain put comes from what remote nodes sent
        let any_put_mut = self.calls.iter().any(|c| c.what.split(' ').nth(2) == Some("put_mut"));
        for c in self.calls.iter_mut() {
            if c.done || (c.muted && c.polled && !self.unmute) {
                continue;
            }
            c.polled = true;
            let no = c.no;
            let mut kind = c.kind.take();
            let mut events: Vec<String> = vec![];
            let mut bad: Vec<String> = vec![];
            let (expect_target, expect_key, expect_salt) = (c.expect_target, c.expect_key, c.expect_salt.clone());
            let mut finished = false;
            let r = std::panic::catch_unwind(std::panic::AssertUnwindSafe(|| {
                match kind.as_mut() {
                    Some(CallKind::PutQ(f)) => {
                        if let Poll::Ready(r) = f.as_mut().poll(&mut cx) {
                            events.push(match r {
                                Ok(t) => format!("c{no}:ok:{}", hex(t.as_bytes())),
                                Err(e) => format!("c{no}:{}", show_putq_err(&e)),
                            });
                            finished = true;
                        }
                    }
                    Some(CallKind::PutM(f)) => {
                        if let Poll::Ready(r) = f.as_mut().poll(&mut cx) {
                            events.push(match r {
                                Ok(t) => format!("c{no}:ok:{}", hex(t.as_bytes())),
                                Err(dht::errors::PutMutableError::Query(e)) => format!("c{no}:{}", show_putq_err(&e)),
                                Err(dht::errors::PutMutableError::Concurrency(e)) => format!("c{no}:{}", show_put_err(&PutError::Concurrency(e))),
                            });
                            finished = true;
                        }
                    }
                    Some(CallKind::GetImm(f)) => {
                        if let Poll::Ready(r) = f.as_mut().poll(&mut cx) {
                            if let (Some(v), Some(t)) = (&r, &expect_target) {
                                if imm_target(v) != *t {
                                    bad.push(format!("get_immutable({}) returned {} whose BEP44 hash is {}", hex(t.as_bytes()), hexz(v), hex(imm_target(v).as_bytes())));
                                }
                            }
                            events.push(match r {
                                Some(v) => format!("c{no}:some:{}", hexz(&v)),
                                None => format!("c{no}:none"),
                            });
                            finished = true;
                        }
                    }
                    Some(CallKind::Nodes(f)) => {
                        if let Poll::Ready(r) = f.as_mut().poll(&mut cx) {
                            events.push(format!("c{no}:nodes:{}", nodes_s(&r)));
                            finished = true;
                        }
                    }
                    Some(CallKind::ToBoot(f)) => {
                        if let Poll::Ready(l) = f.as_mut().poll(&mut cx) {
                            // a set on the implementation side: shown sorted, in the harness's address notation
                            let mut addrs: Vec<String> = l.iter().filter_map(|x| x.parse::<SocketAddrV4>().ok()).map(|a| addr_s(&a)).collect();
                            if addrs.len() != l.len() {
                                bad.push(format!("to_bootstrap yielded something that is not an IPv4 socket address: {:?}", l));
                            }
                            addrs.sort();
                            events.push(format!("c{no}:bootstrap:{}", addrs.join(",")));
                            finished = true;
                        }
                    }
                    Some(CallKind::Boot(f)) => {
                        if let Poll::Ready(b) = f.as_mut().poll(&mut cx) {
                            events.push(format!("c{no}:bootstrapped:{b}"));
                            finished = true;
                        }
                    }
                    Some(CallKind::Recent(f)) => {
                        if let Poll::Ready(r) = f.as_mut().poll(&mut cx) {
                            events.push(match r {
                                Some(i) => format!("c{no}:recent:k={} seq={} v={} sig={} salt={} target={}", hex(i.key()), i.seq(), hexz(i.value()), hex(i.signature()), i.salt().map(hexz).unwrap_or("none".into()), hex(i.target().as_bytes())),
                                None => format!("c{no}:recent:none"),
                            });
                            finished = true;
                        }
                    }
                    Some(CallKind::Info(f)) => {
                        if let Poll::Ready(i) = f.as_mut().poll(&mut cx) {
                            events.push(format!(
                                "c{no}:info:id={} pub={} fw={} mode={} rt={} srt={}",
                                hex(i.id().as_bytes()),
                                i.public_address().map(|a| addr_s(&a)).unwrap_or("none".into()),
                                i.firewalled() as u8,
                                if i.server_mode() { "s" } else { "c" },
                                i.routing_table_size(),
                                i.singing_peers_routing_table_size()
                            ));
                            finished = true;
                        }
                    }
                    Some(CallKind::Peers(s)) => loop {
                        match s.as_mut().poll_next(&mut cx) {
                            Poll::Ready(Some(v)) => events.push(format!("c{no}:item:{}", v.iter().map(addr_s).collect::<Vec<_>>().join(","))),
                            Poll::Ready(None) => {
                                events.push(format!("c{no}:end"));
                                finished = true;
                                break;
                            }
                            Poll::Pending => break,
                        }
                    },
                    Some(CallKind::SPeers(s)) => loop {
                        match s.as_mut().poll_next(&mut cx) {
                            Poll::Ready(Some(v)) => {
                                for p in &v {
                                    let ok = ed25519_dalek::VerifyingKey::from_bytes(p.key()).ok().map(|k| {
                                        let mut m = expect_target.map(|t| t.as_bytes().to_vec()).unwrap_or_default();
                                        m.extend_from_slice(&p.timestamp().to_be_bytes());
                                        k.verify_strict(&m, &ed25519_dalek::Signature::from_bytes(p.signature())).is_ok()
                                    });
                                    if ok != Some(true) {
                                        bad.push(format!("get_signed_peers yielded an announcement by {} whose signature over (info_hash, {}) does not verify", hex(p.key()), p.timestamp()));
                                    }
                                }
                                events.push(format!("c{no}:item:{}", v.iter().map(|p| format!("{}:{}:{}", hex(p.key()), p.timestamp(), hex(p.signature()))).collect::<Vec<_>>().join(",")))
                            }
                            Poll::Ready(None) => {
                                events.push(format!("c{no}:end"));
                                finished = true;
                                break;
                            }
                            Poll::Pending => break,
                        }
                    },
                    Some(CallKind::Muts(s)) => loop {
                        match s.as_mut().poll_next(&mut cx) {
                            Poll::Ready(Some(i)) => {
                                if Some(*i.key()) != expect_key {
                                    bad.push(format!("get_mutable({}) yielded an item whose key is {}", expect_key.map(|k| hex(&k)).unwrap_or_default(), hex(i.key())));
                                }
                                // an empty salt and no salt name the same target (sha1(key ++ salt)): a call with
                                // one may share the lookup of a call with the other
                                let norm = |x: Option<Vec<u8>>| x.filter(|v| !v.is_empty());
                                if norm(i.salt().map(|s| s.to_vec())) != norm(expect_salt.clone()) {
                                    bad.push("get_mutable yielded an item with another salt".into());
                                }
                                let mut signable = vec![];
                                if let Some(salt) = i.salt() {
                                    signable.extend(format!("4:salt{}:", salt.len()).into_bytes());
                                    signable.extend_from_slice(salt);
                                }
                                signable.extend(format!("3:seqi{}e1:v{}:", i.seq(), i.value().len()).into_bytes());
                                signable.extend_from_slice(i.value());
                                let ok = ed25519_dalek::VerifyingKey::from_bytes(i.key()).ok().map(|k| k.verify_strict(&signable, &ed25519_dalek::Signature::from_bytes(i.signature())).is_ok());
                                if ok != Some(true) {
                                    bad.push(format!("get_mutable yielded an item (seq {}) whose signature does not verify", i.seq()));
                                }
                                events.push(format!("c{no}:item:k={} seq={} v={} sig={} salt={} target={}", hex(i.key()), i.seq(), hexz(i.value()), hex(i.signature()), i.salt().map(hexz).unwrap_or("none".into()), hex(i.target().as_bytes())))
                            }
                            Poll::Ready(None) => {
                                events.push(format!("c{no}:end"));
                                finished = true;
                                break;
                            }
                            Poll::Pending => break,
                        }
                    },
                    None => {}
                }
            }));
            if let Err(p) = r {
                let m = p.downcast_ref::<String>().cloned().or_else(|| p.downcast_ref::<&str>().map(|s| s.to_string())).unwrap_or("?".into());
                let plain_put = ["put_imm", "announce", "sannounce"].iter().any(|k| c.what.split(' ').nth(2) == Some(*k));
                if m.contains("concurrency") && plain_put && any_put_mut {
                    // puts are registered by target alone: a put of another kind on the same 20 bytes
                    // replaced this call's query, and this caller was handed that query's outcome
                    out.violation("C06", "cross-kind-put-shares-outcome", format!("call c{no} ({}) got the concurrency error of a put_mutable on the same target, which its facade treats as unreachable: the caller panics ({m})", c.what.chars().take(60).collect::<String>()));
                } else {
                    if m.contains("concurrency") {
                        out.violation("C17", "facade-panic", format!("the API facade panicked in call c{no} ({}): {m}", c.what));
                    }
                    if !m.contains("concurrency") || plain_put {
                        // no put_mutable anywhere in this run: the concurrency error of a plain put was made
                        // from what remote nodes answered
                        out.violation("C05", "facade-panic", format!("the API facade panicked in call c{no} ({}): {m}", c.what.chars().take(80).collect::<String>()));
                    }
                }
                if m.contains("dropped before sending") || m.contains("Disconnected") {
                    // the actor dropped the caller's channel without sending an outcome
                    out.violation("C06", "caller-dropped-without-outcome", format!("call c{no} ({}) was never answered: its channel was dropped by the actor ({m})", c.what));
                }
                events.push(format!("c{no}:panic"));
                finished = true;
                kind = None;
            }
            for b in bad {
                out.violation("C02", "inauthentic-value", b);
            }
            if finished {
                if let Some((want, prop)) = &c.expect {
                    let got = c.results.iter().chain(events.iter()).next().cloned().unwrap_or_default();
                    let got_tail = got.splitn(2, ':').nth(1).unwrap_or("").to_string();
                    let ok = want.split('/').any(|w| match w {
                        "ok" => got_tail.starts_with("ok:"),
                        "some" => got_tail.starts_with("some:") || got_tail.starts_with("item:"),
                        "none" => got_tail == "none" || got_tail == "end",
                        w => got_tail == format!("err:{w}"),
                    });
                    if !ok {
                        out.violation(prop, &format!("unexpected-result-{want}"), format!("call `{}` was expected to yield {want} but yielded {got_tail}", c.what.split(" expect=").next().unwrap_or("")));
                    }
                }
            }
            c.kind = kind;
            if finished {
                c.done = true;
                c.finished_at = Some(now);
                c.kind = None;
            }
            c.results.extend(events.iter().cloned());
            if !c.muted {
                self.last_events.extend(events);
            }
        }
    }

    /// one iteration of the actor loop
    fn step_node(&mut self, datagram: Option<(Vec<u8>, SocketAddrV4)>, out: &mut Out) -> bool {
        if !self.alive {
            return false;
        }
        self.steps += 1;
        let with_datagram = datagram.is_some();
        match verif::step(self.addr, datagram) {
            StepOutcome::Parked => {}
            StepOutcome::Panicked => {
                self.alive = false;
                let msg = LAST_PANIC.lock().map(|l| l.replace('\n', " ")).unwrap_or_default();
                out.violation("C05", "actor-panic", format!("the actor thread panicked: {msg}"));
                if msg.contains("with overflow") && (msg.contains("routing_table.rs") || msg.contains("core.rs")) {
                    out.violation("C20", "stats-underflow", format!("arithmetic on the node's statistics overflowed: {msg}"));
                }
            }
            StepOutcome::Dead => self.alive = false,
            StepOutcome::Stuck => {
                self.alive = false;
                out.violation("C06", "actor-stuck", "the actor thread did not come back to recv_from (infinite loop or blocked)".into());
                if with_datagram {
                    out.violation("C05", "datagram-stalls-node", "the actor thread did not come back to recv_from after it was handed a datagram: the node no longer answers pings or serves its own API".into());
                }
            }
        }
        self.collect_outbox();
        self.poll_calls(out);
        self.alive
    }

    fn render_step(&mut self) -> String {
        let mut s: Vec<String> = self.last_sent.drain(..).map(|x| x.line).collect();
        s.sort();
        let mut e: Vec<String> = self.last_events.drain(..).collect();
        e.sort();
        format!("sent=[{}] ev=[{}]", s.join(" | "), e.join(" | "))
    }

    pub fn snapshot(&mut self, out: &mut Out) -> Option<Snapshot> {
        let dht = self.dht.as_ref()?;
        if !self.alive {
            return None;
        }
        let rx = verif::snapshot_via(dht);
        // the actor picks up one message per iteration: API calls queued earlier come first
        for _ in 0..256 {
            if !self.step_node(None, out) {
                return None;
            }
            if let Ok(s) = rx.try_recv() {
                return Some(s);
            }
        }
        None
    }

    pub fn render_snapshot(s: &Snapshot) -> String {
        let ids = |v: &Vec<Id>| v.iter().map(|i| hex(i.as_bytes())).collect::<Vec<_>>().join(",");
        let cnt = |v: &Vec<(Id, usize)>| v.iter().map(|(i, n)| format!("{}:{}", hex(i.as_bytes()), n)).collect::<Vec<_>>().join(",");
        let table = |t: &Vec<(Id, SocketAddrV4, u64)>| {
            let mut v: Vec<String> = t.iter().map(|(i, a, _)| format!("{}@{}", hex(i.as_bytes()), addr_s(a))).collect();
            v.sort();
            v.join(",")
        };
        format!(
            "iter=[{}] puts=[{}] putsenders=[{}] getsenders=[{}] live={} raw={} cap={} to={} cache=[{}] stats={}/{}/{}/{}/{} sstats={}/{}/{}/{}/{} mode={}{} fw={} pub={} rt=[{}] srt=[{}]",
            ids(&s.iterative_queries),
            ids(&s.put_queries),
            cnt(&s.put_senders),
            cnt(&s.get_senders),
            s.inflight_live,
            s.inflight_raw,
            s.inflight_capacity,
            s.request_timeout_ns,
            {
                // lookups that finish in the same tick are cached in `HashMap` order: sort
                let mut v: Vec<String> = s.cache_kinds.iter().map(|(i, (k, _, _, sub, n))| format!("{}:{}:{}:{}", hex(i.as_bytes()), k, sub, n)).collect();
                v.sort();
                v.join(",")
            },
            s.stats.0,
            s.stats.2,
            s.stats.4,
            (s.stats.1 * 64.0).round() as i64,
            (s.stats.3 * 64.0).round() as i64,
            s.signed_stats.0,
            s.signed_stats.2,
            s.signed_stats.4,
            (s.signed_stats.1 * 64.0).round() as i64,
            (s.signed_stats.3 * 64.0).round() as i64,
            if s.server_mode { "s" } else { "c" },
            if s.socket_server_mode { "s" } else { "c" },
            s.firewalled as u8,
            s.public_address.map(|a| addr_s(&a)).unwrap_or("none".into()),
            table(&s.routing_table),
            table(&s.signed_peers_routing_table)
        )
    }

    /// C20: the statistics equal the aggregate over the cached lookups
    fn check_stats(&self, s: &Snapshot, out: &mut Out) {
        // per table: every cached lookup counts once in the size-estimate sample.  For the responders
        // sample two readings of "the aggregate over the cached lookups" are accepted: all cached
        // lookups of the table, or only those that can have storage responders (not find_node).
        let mut all = [(0usize, 0f64, 0usize, 0f64, 0usize); 2];
        let mut gets = [(0usize, 0f64, 0usize); 2];
        for (_, (kind, est, resp_est, subnets, _)) in &s.cache_kinds {
            let t = if *kind == 3 { 1 } else { 0 };
            all[t].0 += 1;
            all[t].1 += est;
            all[t].2 += 1;
            all[t].3 += resp_est;
            all[t].4 += *subnets as usize;
            if *kind != 1 {
                gets[t].0 += 1;
                gets[t].1 += resp_est;
                gets[t].2 += *subnets as usize;
            }
        }
        for (t, (name, got)) in [("routing_table", s.stats), ("signed_peers_routing_table", s.signed_stats)].iter().enumerate() {
            // an infinite sample poisons the sums for good (inf - inf = NaN once it is withdrawn)
            if !got.1.is_finite() || !got.3.is_finite() {
                out.violation("C20", "non-finite-statistics", format!("{name}: size estimate sum = {:e}, responders estimate sum = {:e} over {} / {} samples", got.1, got.3, got.0, got.2));
                continue;
            }
            let close = |a: f64, b: f64| (a - b).abs() <= 1e-6 * (1.0 + a.abs().max(b.abs()));
            if got.0 != all[t].0 || !close(got.1, all[t].1) {
                out.violation("C20", "size-estimate-stats-drift", format!("{name}: dht_size_estimates count/sum = {}/{:.3e} but the cached lookups aggregate to {}/{:.3e}", got.0, got.1, all[t].0, all[t].1));
            }
            let a_ok = got.2 == all[t].2 && got.4 == all[t].4 && close(got.3, all[t].3);
            let b_ok = got.2 == gets[t].0 && got.4 == gets[t].2 && close(got.3, gets[t].1);
            if !a_ok && !b_ok {
                out.violation("C20", "responders-stats-drift", format!("{name}: responders samples/subnets = {}/{} but the cached lookups aggregate to {}/{} ({}/{} without find_node lookups)", got.2, got.4, all[t].2, all[t].4, gets[t].0, gets[t].2));
            }
        }
        if s.cache_len > 1000 {
            out.violation("C20", "cache-over-capacity", format!("{} cached lookups", s.cache_len));
        }
    }

    /// C18: what was sent between two snapshots that both show the same mode
    fn check_modes(&mut self, s: &Snapshot, out: &mut Out) {
        if let Some(prev) = &self.last_snapshot {
            if !prev.server_mode && !s.server_mode {
                if let Some(r) = self.replies_since_snap.first() {
                    out.violation("C18", "client-replied", format!("a node in client mode sent a reply: {r}"));
                }
                if let Some((_, r)) = self.requests_since_snap.iter().find(|(ro, _)| !*ro) {
                    out.violation("C18", "client-request-not-read-only", format!("a node in client mode sent a request without ro=1: {r}"));
                }
                if s.store_sizes.0 + s.store_sizes.2 + s.store_sizes.4 + s.store_sizes.5 > 0 {
                    out.violation("C18", "client-stored-data", format!("a node in client mode holds stored data: {:?}", s.store_sizes));
                }
            }
            if prev.server_mode && s.server_mode {
                if let Some((_, r)) = self.requests_since_snap.iter().find(|(ro, _)| *ro) {
                    out.violation("C18", "server-request-read-only", format!("a node in server mode sent a request with ro=1: {r}"));
                }
            }
        }
        if s.server_mode != s.socket_server_mode {
            out.violation("C18", "mode-mismatch", "Core and socket disagree about server mode".into());
        }
        // read-only requesters never enter a routing table; read-only responders neither
        for (table, name) in [(&s.routing_table, "routing table"), (&s.signed_peers_routing_table, "signed peers routing table")] {
            for (_, addr, _) in table.iter() {
                if self.ro_requesters.get(addr) == Some(&true) && !self.any_reply.contains_key(addr) {
                    out.violation("C18", "read-only-requester-in-table", format!("{addr} only ever sent read-only requests and never answered us, but is in the {name}"));
                }
                // (a peer that also answered without the flag — however slowly — or sent a request without
                // it may be in the table for that)
                if self.ro_responders.contains(addr) && !self.any_reply.contains_key(addr) && self.ro_requesters.get(addr) != Some(&false) {
                    out.violation("C18", "read-only-responder-in-table", format!("{addr} only answered with ro=1 replies, but is in the {name}"));
                }
            }
        }
        self.replies_since_snap.clear();
        self.requests_since_snap.clear();
    }

    /// C14: responsive peers stay, silent peers leave (evaluated on tables small enough that
    /// capacity and per-IP limits never apply)
    fn check_table_health(&mut self, s: &Snapshot, out: &mut Out) {
        let now = verif::now_ns();
        let in_table: std::collections::HashSet<SocketAddrV4> = s.routing_table.iter().map(|(_, a, _)| *a).collect();
        if let Some(prev) = &self.last_snapshot {
            for (id, addr, _) in prev.routing_table.iter() {
                if let Some(t) = self.answered.get(addr) {
                    // re-keying the table (new own id) may legitimately drop nodes
                    // (the peer is its id: an entry that followed the peer to another port of its IP is the peer)
                    let followed = s.routing_table.iter().any(|(i, a, _)| i == id && a.ip() == addr.ip());
                    if now - *t < 15 * 60 * SEC && !in_table.contains(addr) && !followed && prev.id == s.id {
                        out.violation("C14", "responsive-peer-dropped", format!("{}@{addr} answered one of our requests {} s ago but was removed from the routing table", hex(id.as_bytes()), (now - *t) / SEC));
                    }
                }
            }
        }
        // an empty table is bootstrapped again: a node with a bootstrap list never sits idle on it
        if let Some(prev) = &self.last_snapshot {
            // (a bootstrap lookup that is still waiting for answers sends nothing either: only two
            // snapshots without any lookup count)
            if prev.routing_table.is_empty() && s.routing_table.is_empty() && self.has_bootstrap && self.sent_since_snap == 0 && prev.iterative_queries.is_empty() && s.iterative_queries.is_empty() {
                out.violation("C14", "empty-table-not-bootstrapped", "the routing table was empty at two successive snapshots and the node sent nothing in between: it is not retrying its bootstrap nodes".into());
            }
        }
        self.sent_since_snap = 0;
        // every entry is pinged in every 5-minute round unless it was heard from in the last seconds: an
        // address that sat in the table ten minutes ago and still does was asked something, or heard from,
        // in between
        if let Some((then, addrs)) = self.table_history.iter().rev().find(|(t, _)| now - *t >= 10 * 60 * SEC) {
            for a in addrs.iter().filter(|a| in_table.contains(*a)) {
                // (a ping: lookups ask whoever is close to their target, the ping round asks every entry)
                let asked = self.all_sent.iter().any(|x| x.to == *a && x.at > *then && x.key.as_deref().map(|k| k.contains("/ping/")).unwrap_or(false));
                let heard = self.any_reply.get(a).map(|t| *t > *then).unwrap_or(false) || self.ro_requesters.contains_key(a) && false;
                if !asked && !heard {
                    out.violation("C14", "table-entry-never-pinged", format!("{a} has been in the routing table for the last {} minutes and the node neither pinged it nor heard from it in that time: the ping rounds skip it", (now - *then) / (60 * SEC)));
                    break;
                }
            }
        }
        self.table_history.push((now, in_table.iter().copied().collect()));
        for a in &in_table {
            self.first_seen_in_table.entry(*a).or_insert(now);
        }
        self.first_seen_in_table.retain(|a, _| in_table.contains(a));
        for (id, addr, _) in s.routing_table.iter() {
            // slow answers may have counted for the node: any answer at all resets the clock here
            let last = self.any_reply.get(addr).copied().unwrap_or(0).max(self.first_seen_in_table.get(addr).copied().unwrap_or(now));
            if now - last > 21 * 60 * SEC {
                out.violation("C14", "silent-peer-kept", format!("{}@{addr} has not answered for {} min but is still in the routing table", hex(id.as_bytes()), (now - last) / (60 * SEC)));
            }
        }
        // the same for the table of the peers that support signed announcements
        let in_signed: std::collections::HashSet<SocketAddrV4> = s.signed_peers_routing_table.iter().map(|(_, a, _)| *a).collect();
        for a in &in_signed {
            self.first_seen_in_signed.entry(*a).or_insert(now);
        }
        self.first_seen_in_signed.retain(|a, _| in_signed.contains(a));
        for (id, addr, _) in s.signed_peers_routing_table.iter() {
            let last = self.any_reply.get(addr).copied().unwrap_or(0).max(self.first_seen_in_signed.get(addr).copied().unwrap_or(now));
            if now - last > 21 * 60 * SEC {
                out.violation("C14", "silent-peer-kept", format!("{}@{addr} has not answered for {} min but is still in the signed-peers routing table", hex(id.as_bytes()), (now - last) / (60 * SEC)));
            }
        }
    }

    /// C06 / C20: nothing is left once every call returned and every request expired
    fn check_quiescent(&self, s: &Snapshot, out: &mut Out) {
        let pending: Vec<String> = self.calls.iter().filter(|c| !c.done).map(|c| c.what.clone()).collect();
        if !pending.is_empty() {
            out.violation("C06", "call-hangs", format!("all requests expired and the node was idle for a minute, but these calls have not returned: {}", pending.join(" ; ")));
        }
        // the lookup of the own id (bootstrap retry, 15-minute refresh) is maintenance, not a leak
        let retrying = s.iterative_queries.iter().all(|t| *t == s.id);
        if (!s.iterative_queries.is_empty() && !retrying) || !s.put_queries.is_empty() {
            out.violation("C20", "query-leak", format!("at quiescence {} lookups and {} puts are still registered", s.iterative_queries.len(), s.put_queries.len()));
        }
        if !s.put_senders.is_empty() || !s.get_senders.is_empty() {
            out.violation("C20", "caller-leak", format!("at quiescence {} put callers and {} get callers are still parked", s.put_senders.len(), s.get_senders.len()));
        }
        // periodic maintenance (pings, lookups of the own id) is not call state
        let now = verif::now_ns();
        let call_related: Vec<String> = s
            .inflight
            .iter()
            .filter(|(_, _, at)| now - at < s.request_timeout_ns)
            .filter_map(|(tid, _, _)| self.all_sent.iter().rev().find(|x| x.msg.transaction_id() == *tid && x.key.is_some()))
            .filter(|x| match x.msg.message_type() {
                MessageType::Request(r) => match &r.request_type {
                    RequestTypeSpecific::Ping => false,
                    RequestTypeSpecific::FindNode(a) => a.target != s.id,
                    _ => true,
                },
                _ => false,
            })
            .map(|x| x.line.clone())
            .collect();
        if !call_related.is_empty() {
            out.violation("C20", "inflight-leak", format!("at quiescence {} call-related requests are still in flight, e.g. {}", call_related.len(), call_related[0]));
        }
    }

    pub fn pending_calls(&self) -> Vec<u32> {
        self.calls.iter().filter(|c| !c.done && (!c.muted || self.unmute)).map(|c| c.no).collect()
    }

    pub fn shutdown(&mut self) {
        self.calls.clear();
        if let Some(d) = self.dht.take() {
            drop(d);
            for _ in 0..3 {
                if verif::step(self.addr, None) != StepOutcome::Parked {
                    break;
                }
            }
        }
        verif::drain_outbox();
        self.alive = false;
    }
}

impl Stream for NodeStream {
    fn reset(&mut self, args: &[&str], _out: &mut Out) {
        // node mode=<c|s> boot=<a,b|-> pub=<ip|-> seed=<n> t0=<ns> [caps=<a,b,c,d>]
        self.shutdown();
        if !self.multi {
            verif::reset_net();
            let t0: u64 = kv(args, "t0").expect("t0").parse().expect("t0");
            verif::set_now_ns(t0);
        }
        let seed: u64 = kv(args, "seed").expect("seed").parse().expect("seed");
        let server_mode = kv(args, "mode") == Some("s");
        let boot: Vec<String> = match kv(args, "boot") {
            Some("-") | None => vec![],
            // `bad1`..`bad4` stand for entries of the bootstrap list that do not resolve (no DNS is
            // involved: they fail to parse as host:port); the builder skips them
            Some(l) => l
                .split(',')
                .map(|a| match a {
                    "bad1" => "not an address".to_string(),
                    "bad2" => "10.1.0.1".to_string(),
                    "bad3" => "10.1.0.1:99999".to_string(),
                    "bad4" => String::new(),
                    a => parse_addr(a).to_string(),
                })
                .collect(),
        };
        let public_ip: Option<Ipv4Addr> = match kv(args, "pub") {
            Some("-") | None => None,
            Some(ip) => Some(Ipv4Addr::from(ip.parse::<u32>().expect("ip"))),
        };
        let ip = match kv(args, "ip") {
            Some(ip) => Ipv4Addr::from(ip.parse::<u32>().expect("ip")),
            None => public_ip.unwrap_or(Ipv4Addr::new(10, 0, 0, 1)),
        };
        self.addr = SocketAddrV4::new(ip, 6881);
        let mut settings = ServerSettings::default();
        if let Some(c) = kv(args, "caps") {
            let v: Vec<usize> = c.split(',').map(|x| x.parse().expect("cap")).collect();
            settings.max_info_hashes = v[0];
            settings.max_peers_per_info_hash = v[1];
            settings.max_immutable_values = v[2];
            settings.max_mutable_values = v[3];
        }
        // deny=<ip>: the configured request filter vetoes every request from this address
        if let Some(ip) = kv(args, "deny") {
            settings.filter = Box::new(DenyIp(Ipv4Addr::from(ip.parse::<u32>().expect("ip"))));
        }
        // tid0=<n>: the socket's transaction id counter starts at n (wrap-around cases)
        verif::set_first_tid(kv(args, "tid0").map(|t| t.parse().expect("tid0")).unwrap_or(0));
        verif::prepare_bind(ip, seed | 1, false);
        let cfg = Config { bootstrap: boot, port: Some(6881), server_settings: settings, server_mode, public_ip };
        self.client_mode_cfg = !server_mode;
        let dht = Dht::new(cfg).expect("node");
        assert_eq!(verif::wait_parked(self.addr), StepOutcome::Parked);
        self.dht = Some(dht);
        self.alive = true;
        self.calls.clear();
        self.table_history.clear();
        self.unmute = false;
        self.reqs.clear();
        self.all_sent.clear();
        self.last_sent.clear();
        self.last_events.clear();
        self.own_id = None;
        self.steps = 0;
        self.last_snapshot = None;
        self.req_sent_at.clear();
        self.answered.clear();
        self.any_reply.clear();
        self.ro_requesters.clear();
        self.ro_responders.clear();
        self.replies_since_snap.clear();
        self.requests_since_snap.clear();
        self.first_seen_in_table.clear();
        self.first_seen_in_signed.clear();
        self.has_bootstrap = !matches!(kv(args, "boot"), Some("-") | None);
        self.sent_since_snap = 0;
        // the first maintenance ran inside `wait_parked`; learn our id through a snapshot-free path:
        // the bootstrap find_node (if any) carries it, otherwise `init` reports it
    }

    fn exec(&mut self, op: &str, out: &mut Out) -> String {
        let t: Vec<&str> = op.split(' ').collect();
        match t[0] {
            // report the node's id and what the first maintenance sent
            "init" => {
                // peek the id from the first outgoing request, else from Info
                let raw = verif::drain_outbox();
                let mut id = None;
                for (_, _, b) in &raw {
                    if let Ok(m) = Msg::from_bytes(b) {
                        if let MessageType::Request(r) = m.message_type() {
                            id = Some(r.requester_id);
                        }
                    }
                }
                if id.is_none() {
                    let d = self.dht.as_ref().expect("dht").clone().as_async();
                    let mut f: Fut<Info> = Box::pin(async move { d.info().await });
                    let w = noop_waker();
                    let mut cx = Context::from_waker(&w);
                    let _ = f.as_mut().poll(&mut cx);
                    // the Info message is consumed by one loop iteration; that iteration is part of
                    // `init` on the model side too (idle step)
                    verif::step(self.addr, None);
                    if let Poll::Ready(i) = f.as_mut().poll(&mut cx) {
                        id = Some(*i.id());
                    }
                    self.own_id = id;
                    self.collect_outbox();
                    self.last_sent.clear();
                    return format!("id={} via=info", id.map(|i| hex(i.as_bytes())).unwrap_or("?".into()));
                }
                self.own_id = id;
                // re-inject the drained datagrams into our bookkeeping
                let now = verif::now_ns();
                for (_, to, bytes) in raw {
                    if let Ok(m) = Msg::from_bytes(&bytes) {
                        let (line, key) = self.canon(to, &m);
                        if let Some(k) = &key {
                            self.reqs.insert(k.clone(), m.transaction_id());
                            self.req_sent_at.insert(k.clone(), now);
                            self.requests_since_snap.push((m.read_only(), line.clone()));
                        }
                        let s = Sent { to, msg: m, line, key, at: now };
                        self.all_sent.push(s.clone());
                        self.last_sent.push(s);
                    }
                }
                let r = self.render_step();
                format!("id={} {}", id.map(|i| hex(i.as_bytes())).unwrap_or("?".into()), r)
            }
            "adv" => {
                verif::advance(Duration::from_nanos(t[1].parse().expect("ns")));
                verif::now_ns().to_string()
            }
            "dbgrt" => match self.snapshot(out) {
                Some(s) => {
                    let now = verif::now_ns();
                    format!("rt={:?}", s.routing_table.iter().map(|(_, a, at)| (a.ip().octets()[3], (now - at) / 1_000_000_000)).collect::<Vec<_>>())
                }
                None => "dead".into(),
            },
            // debugging aid (not generated): the retained in-flight requests, through a snapshot
            "dbgreqs" => match self.snapshot(out) {
                Some(s) => {
                    let now = verif::now_ns();
                    format!("cap={} reqs={:?}", s.inflight_capacity, s.inflight.iter().map(|(t, a, at)| (*t, a.ip().octets()[3], (now - at) / 1_000_000)).collect::<Vec<_>>())
                }
                None => "dead".into(),
            },
            // know <k> <msg> <sig>: tells the model that this Ed25519 signature verifies (checked here)
            "know" => {
                let ok = (|| {
                    let k: [u8; 32] = unhex(t[1]).try_into().ok()?;
                    let sig: [u8; 64] = unhex(t[3]).try_into().ok()?;
                    let key = ed25519_dalek::VerifyingKey::from_bytes(&k).ok()?;
                    key.verify_strict(&unhex(t[2]), &ed25519_dalek::Signature::from_bytes(&sig)).ok()
                })();
                if ok.is_some() { "ok".into() } else { "invalid".into() }
            }
            // `quiet` is `snap` plus the assertion that the node is quiescent (C06, C20)
            "snap" | "quiet" => match self.snapshot(out) {
                Some(s) => {
                    let r = format!("{} {}", Self::render_snapshot(&s), self.render_step());
                    self.check_stats(&s, out);
                    self.check_modes(&s, out);
                    self.check_table_health(&s, out);
                    if t[0] == "quiet" {
                        self.check_quiescent(&s, out);
                    }
                    self.last_snapshot = Some(s);
                    r
                }
                None => "dead".into(),
            },
            "step" => {
                let toks = &t[1..];
                let datagram = if toks.is_empty() {
                    None
                } else {
                    let from = parse_addr(kv(toks, "from").expect("from"));
                    if let Some(raw) = kv(toks, "raw") {
                        Some((unhex(raw), from))
                    } else {
                        let bytes = unhex(kv(toks, "msg").expect("msg"));
                        let tid: Option<u32> = match (kv(toks, "re"), kv(toks, "tid")) {
                            (Some(k), _) => self.reqs.get(k).copied(),
                            (None, Some(n)) => n.parse().ok(),
                            _ => None,
                        };
                        let Some(tid) = tid else { return "no-such-request".into() };
                        match Msg::from_bytes(&bytes) {
                            Ok(m) => {
                                let now = verif::now_ns();
                                match m.message_type() {
                                    MessageType::Request(_) => {
                                        let e = self.ro_requesters.entry(from).or_insert(true);
                                        *e = *e && m.read_only();
                                    }
                                    MessageType::Response(_) => {
                                        // the request this answers: named by its key, or (an answer to a request
                                        // the node has since repeated) by its transaction id
                                        let by_tid = if kv(toks, "re").is_none() {
                                            self.all_sent.iter().rev().find(|x| x.key.is_some() && x.msg.transaction_id() == tid).map(|x| (x.key.clone().unwrap_or_default(), x.at))
                                        } else {
                                            None
                                        };
                                        let named: Option<(String, Option<u64>)> = match (kv(toks, "re"), by_tid) {
                                            (Some(k), _) => Some((k.to_string(), self.req_sent_at.get(k).copied())),
                                            (None, Some((k, at))) => Some((k, Some(at))),
                                            _ => None,
                                        };
                                        if let Some((k, sent_at)) = named {
                                            let k = k.as_str();
                                            let in_time = sent_at.map(|t| now - t < 450 * MS).unwrap_or(false);
                                            let right_addr = k.starts_with(&format!("{}/", addr_s(&from)));
                                            if right_addr && !m.read_only() {
                                                self.any_reply.insert(from, now);
                                            }
                                            if in_time && right_addr {
                                                if m.read_only() {
                                                    self.ro_responders.insert(from);
                                                } else {
                                                    self.answered.insert(from, now);
                                                }
                                            }
                                        }
                                    }
                                    _ => {}
                                }
                                let m2 = Msg::new(tid, m.version(), m.requester_ip(), m.message_type().clone(), m.read_only());
                                Some((m2.to_bytes().expect("enc"), from))
                            }
                            Err(_) => Some((bytes, from)),
                        }
                    }
                };
                if !self.step_node(datagram, out) {
                    return "dead".into();
                }
                self.render_step()
            }
            "api" => {
                if !self.alive {
                    // the actor thread is gone (its panic was reported when it happened)
                    return "node-dead".into();
                }
                let no: u32 = t[1].trim_start_matches('c').parse().expect("call no");
                let toks = &t[3..];
                let d = self.dht.as_ref().expect("dht").clone().as_async();
                let now = verif::now_ns();
                let mut call = Call { no, kind: None, what: op.to_string(), done: false, started_at: now, finished_at: None, results: vec![], expect_target: None, expect_key: None, expect_salt: None, expect: kv(toks, "expect").map(|e| (e.to_string(), kv(toks, "prop").unwrap_or("C17").to_string())), muted: kv(toks, "mute") == Some("1"), polled: false };
                let kind = match t[2] {
                    "put_imm" => {
                        let v = unhex(kv(toks, "v").expect("v"));
                        CallKind::PutQ(Box::pin(async move { d.put_immutable(&v).await }))
                    }
                    "put_mut" => {
                        let ks: u64 = kv(toks, "ks").expect("ks").parse().expect("ks");
                        let seq: i64 = kv(toks, "seq").expect("seq").parse().expect("seq");
                        let v = unhex(kv(toks, "v").expect("v"));
                        let salt = kv(toks, "salt").filter(|s| *s != "none").map(unhex);
                        let cas: Option<i64> = kv(toks, "cas").filter(|s| *s != "none").map(|c| c.parse().expect("cas"));
                        let item = MutableItem::new(&key_from_seed(ks), &v, seq, salt.as_deref());
                        CallKind::PutM(Box::pin(async move { d.put_mutable(item, cas).await }))
                    }
                    "announce" => {
                        let ih = id_of(kv(toks, "ih").expect("ih"));
                        let port: Option<u16> = kv(toks, "port").filter(|s| *s != "implied").map(|p| p.parse().expect("port"));
                        CallKind::PutQ(Box::pin(async move { d.announce_peer(ih, port).await }))
                    }
                    "sannounce" => {
                        let ih = id_of(kv(toks, "ih").expect("ih"));
                        let ks: u64 = kv(toks, "ks").expect("ks").parse().expect("ks");
                        let key = key_from_seed(ks);
                        CallKind::PutQ(Box::pin(async move { d.announce_signed_peer(ih, &key).await }))
                    }
                    "get_imm" => {
                        let target = id_of(kv(toks, "t").expect("t"));
                        call.expect_target = Some(target);
                        CallKind::GetImm(Box::pin(async move { d.get_immutable(target).await }))
                    }
                    "get_mut" => {
                        let k: [u8; 32] = unhex(kv(toks, "k").expect("k")).try_into().expect("k32");
                        let salt = kv(toks, "salt").filter(|s| *s != "none").map(unhex);
                        let seq: Option<i64> = kv(toks, "seq").filter(|s| *s != "none").map(|c| c.parse().expect("seq"));
                        call.expect_key = Some(k);
                        call.expect_salt = salt.clone();
                        CallKind::Muts(Box::pin(d.get_mutable(&k, salt.as_deref(), seq)))
                    }
                    "get_mut_recent" => {
                        let k: [u8; 32] = unhex(kv(toks, "k").expect("k")).try_into().expect("k32");
                        let salt = kv(toks, "salt").filter(|s| *s != "none").map(unhex);
                        call.expect_key = Some(k);
                        call.expect_salt = salt.clone();
                        CallKind::Recent(Box::pin(async move { d.get_mutable_most_recent(&k, salt.as_deref()).await }))
                    }
                    "get_peers" => {
                        let ih = id_of(kv(toks, "ih").expect("ih"));
                        CallKind::Peers(Box::pin(d.get_peers(ih)))
                    }
                    "get_speers" => {
                        let ih = id_of(kv(toks, "ih").expect("ih"));
                        call.expect_target = Some(ih);
                        let mut f: Fut<dht::async_dht::GetStream<Vec<SignedAnnounce>>> = Box::pin(async move { d.get_signed_peers(ih).await });
                        let w = noop_waker();
                        let mut cx = Context::from_waker(&w);
                        match f.as_mut().poll(&mut cx) {
                            Poll::Ready(s) => CallKind::SPeers(Box::pin(s)),
                            Poll::Pending => return "bad-op".into(),
                        }
                    }
                    "bootstrapped" => CallKind::Boot(Box::pin(async move { d.bootstrapped().await })),
                    "to_bootstrap" => CallKind::ToBoot(Box::pin(async move { d.to_bootstrap().await })),
                    "find_node" => {
                        let target = id_of(kv(toks, "t").expect("t"));
                        CallKind::Nodes(Box::pin(async move { d.find_node(target).await }))
                    }
                    "closest" => {
                        let target = id_of(kv(toks, "t").expect("t"));
                        CallKind::Nodes(Box::pin(async move { d.get_closest_nodes(target).await }))
                    }
                    "info" => CallKind::Info(Box::pin(async move { d.info().await })),
                    _ => return "bad-op".into(),
                };
                call.kind = Some(kind);
                self.calls.push(call);
                // first poll sends the message to the actor
                self.poll_calls(out);
                self.last_events.clear();
                "ok".into()
            }
            _ => "bad-op".into(),
        }
    }
}

// =====================================================================================================
// generator: a virtual network of scripted peers

#[derive(Clone)]
pub struct VPeer {
    pub id: Id,
    pub addr: SocketAddrV4,
    pub alive: bool,
    /// how this peer answers: 0 honest, 1 silent, 2 answers twice, 3 slow (late), 4 byzantine values
    pub mode: u8,
    pub read_only: bool,
    pub imm: HashMap<Id, Vec<u8>>,
    pub muts: HashMap<Id, (Vec<u8>, [u8; 32], i64, [u8; 64])>,
    pub peers: HashMap<Id, Vec<SocketAddrV4>>,
    pub speers: HashMap<Id, Vec<([u8; 32], u64, [u8; 64])>>,
    pub put_reply: i32, // 0 = ack, else error code
    /// 0 honest; byzantine answers to get requests: 1 item validly signed by another key, 2 value with
    /// another hash, 3 signed peers with one bad signature among good ones, 4 item signed for another
    /// salt, 5 bit-flipped value, 6 all-bad signed peers, 7 the genuine (key, seq, signature) of an
    /// item some honest peer holds, with another value, 8 the genuine item of the key under a salt that
    /// differs from the requested one in a non-UTF-8 byte, 9 answers every kind of lookup request with a
    /// mutable item signed by its own key
    pub forge: u8,
    /// added to the network latency for this peer's replies
    pub extra_delay: u64,
    /// added to the latency of this peer's replies to put requests only
    pub put_delay: u64,
    /// never answers lookups (find_node / get_* requests), still answers pings and puts
    pub ignore_gets: bool,
    /// never answers put requests
    pub ignore_puts: bool,
    /// flags its answers to put requests read-only (ro = 1)
    pub ro_puts: bool,
    /// lists the requester itself among the closer nodes (what a first node does: it adds the requester
    /// to its table before it answers)
    pub echo_requester: bool,
    /// a peer with a narrow view: asked about this target it lists exactly these peers, asked about
    /// anything else it lists nobody
    pub chain_for: Option<(Id, Vec<usize>)>,
    /// a client that sends no version field (most of the real network): it does not support signed
    /// announcements, so it never enters the signed-peers routing table
    pub legacy: bool,
}

pub struct VNet {
    pub peers: Vec<VPeer>,
    pub by_addr: HashMap<SocketAddrV4, usize>,
    /// how many closer nodes an answer lists (8 like most of the real network; 20 is what this
    /// library's own server sends; more than 20 is legal KRPC too)
    pub list_k: usize,
    /// list them farthest first
    pub list_rev: bool,
    /// list `list_k` nodes picked at random (a function of the responder and the target) instead of the closest
    pub list_random: bool,
}

fn xor_cmp(t: &Id, a: &Id, b: &Id) -> std::cmp::Ordering {
    let ta = t.as_bytes();
    for i in 0..20 {
        let (x, y) = (a.as_bytes()[i] ^ ta[i], b.as_bytes()[i] ^ ta[i]);
        if x != y {
            return x.cmp(&y);
        }
    }
    std::cmp::Ordering::Equal
}

impl VNet {
    pub fn new(rng: &mut Rng, n: usize, private: bool) -> VNet {
        let mut peers = vec![];
        let mut by_addr = HashMap::new();
        for i in 0..n {
            let ip = if private { Ipv4Addr::new(10, 1, (i / 200) as u8, 1 + (i % 200) as u8) } else { Ipv4Addr::new(50 + (i % 150) as u8, (i / 150) as u8, rng.below(250) as u8, 1 + rng.below(250) as u8) };
            let addr = SocketAddrV4::new(ip, 6881);
            let id = Id::from_bytes(rng.id20()).expect("id");
            by_addr.insert(addr, i);
            peers.push(VPeer { id, addr, alive: true, mode: 0, read_only: false, imm: HashMap::new(), muts: HashMap::new(), peers: HashMap::new(), speers: HashMap::new(), put_reply: 0, forge: 0, extra_delay: 0, put_delay: 0, ignore_gets: false, ignore_puts: false, ro_puts: false, echo_requester: false, chain_for: None, legacy: false });
        }
        VNet { peers, by_addr, list_k: 8, list_rev: false, list_random: false }
    }
    pub fn closest(&self, target: &Id, k: usize) -> Vec<Node> {
        let mut v: Vec<&VPeer> = self.peers.iter().collect();
        v.sort_by(|a, b| xor_cmp(target, &a.id, &b.id));
        v.iter().take(k).map(|p| Node::new(p.id, p.addr)).collect()
    }
    pub fn token_of(p: &VPeer) -> Vec<u8> {
        let o = p.addr.ip().octets();
        vec![0x70, o[1], o[2], o[3]]
    }
    /// the honest reply of peer `i` to a request
    pub fn reply(&mut self, i: usize, req: &dht::RequestSpecific, from: SocketAddrV4) -> MessageType {
        let echo = if self.peers[i].echo_requester { Some(Node::new(req.requester_id, from)) } else { None };
        let nodes = |s: &VNet, t: &Id| -> Box<[Node]> {
            if let Some((ct, list)) = &s.peers[i].chain_for {
                let v: Vec<Node> = if ct == t { list.iter().map(|&j| Node::new(s.peers[j].id, s.peers[j].addr)).collect() } else { vec![] };
                return v.into_boxed_slice();
            }
            let mut v = if s.list_random {
                let mut r = Rng::new(fnv(t.as_bytes()) ^ (i as u64).wrapping_mul(0x9e37_79b9_7f4a_7c15));
                (0..s.list_k).map(|_| { let p = &s.peers[r.below(s.peers.len() as u64) as usize]; Node::new(p.id, p.addr) }).collect::<Vec<Node>>()
            } else {
                s.closest(t, s.list_k)
            };
            if s.list_rev {
                v.reverse();
            }
            if let Some(e) = &echo {
                v.retain(|n| n.address() != s.peers[i].addr || s.peers.len() > 1);
                v.push(e.clone());
            }
            v.into_boxed_slice()
        };
        let me = self.peers[i].id;
        let token: Box<[u8]> = Self::token_of(&self.peers[i]).into_boxed_slice();
        let forge = self.peers[i].forge;
        if forge == 9 {
            // whatever the lookup asks, answer with a mutable item validly signed by the responder's own
            // key (no salt), plus honest closer nodes
            let t = match &req.request_type {
                RequestTypeSpecific::FindNode(a) => Some(a.target),
                RequestTypeSpecific::GetPeers(a) => Some(a.info_hash),
                RequestTypeSpecific::GetSignedPeers(a) => Some(a.info_hash),
                RequestTypeSpecific::GetValue(a) => Some(a.target),
                _ => None,
            };
            if let Some(t) = t {
                let item = MutableItem::new(&key_from_seed(777), b"signed by the responder", 50, None);
                return MessageType::Response(ResponseSpecific::GetMutable(GetMutableResponseArguments { responder_id: me, token, nodes: Some(nodes(self, &t)), v: item.value().to_vec().into_boxed_slice(), k: *item.key(), seq: item.seq(), sig: *item.signature() }));
            }
        }
        if forge == 10 || forge == 11 {
            // a node that answers every lookup request with a KRPC error, or with a bare ping-shaped
            // response (no nodes, no token): the lookup takes note of the answer and goes on
            let is_lookup = matches!(req.request_type, RequestTypeSpecific::FindNode(_) | RequestTypeSpecific::GetPeers(_) | RequestTypeSpecific::GetSignedPeers(_) | RequestTypeSpecific::GetValue(_));
            if is_lookup {
                return if forge == 10 {
                    MessageType::Error(ErrorSpecific { code: 202, description: "Server Error".into() })
                } else {
                    MessageType::Response(ResponseSpecific::Ping(PingResponseArguments { responder_id: me }))
                };
            }
        }
        if forge != 0 && forge < 10 {
            match &req.request_type {
                RequestTypeSpecific::GetValue(a) => {
                    let n = Some(nodes(self, &a.target));
                    let other = key_from_seed(777);
                    match forge {
                        1 | 4 | 5 => {
                            // a perfectly valid item ... of another key / salt, or corrupted
                            let salt = a.salt.as_deref();
                            let item = match forge {
                                1 => MutableItem::new(&other, b"forged", 99, salt),
                                4 => MutableItem::new(&key_from_seed(9), b"other-salt", 99, Some(b"another")),
                                _ => MutableItem::new(&key_from_seed(9), b"flipped", 99, salt),
                            };
                            let mut v = item.value().to_vec();
                            if forge == 5 {
                                v[0] ^= 1;
                            }
                            return MessageType::Response(ResponseSpecific::GetMutable(GetMutableResponseArguments { responder_id: me, token, nodes: n, v: v.into_boxed_slice(), k: *item.key(), seq: item.seq(), sig: *item.signature() }));
                        }
                        7 => {
                            if let Some((_, k, seq, sig)) = self.peers.iter().find_map(|p| p.muts.get(&a.target)).cloned() {
                                return MessageType::Response(ResponseSpecific::GetMutable(GetMutableResponseArguments { responder_id: me, token, nodes: n, v: b"FORGED value".to_vec().into_boxed_slice(), k, seq, sig }));
                            }
                        }
                        8 => {
                            // the genuine item of the same key under ANOTHER salt, which differs from
                            // the requested one only in a byte that is not valid UTF-8
                            let item = MutableItem::new(&key_from_seed(9), b"signed under the other salt", 4, Some(b"\x80profile"));
                            return MessageType::Response(ResponseSpecific::GetMutable(GetMutableResponseArguments { responder_id: me, token, nodes: n, v: item.value().to_vec().into_boxed_slice(), k: *item.key(), seq: item.seq(), sig: *item.signature() }));
                        }
                        2 => return MessageType::Response(ResponseSpecific::GetImmutable(GetImmutableResponseArguments { responder_id: me, token, nodes: n, v: b"not what you asked for".to_vec().into_boxed_slice() })),
                        _ => {}
                    }
                }
                RequestTypeSpecific::GetSignedPeers(a) => {
                    let n = Some(nodes(self, &a.info_hash));
                    let good = SignedAnnounce::new(&key_from_seed(31), &a.info_hash);
                    let wrong_ih = SignedAnnounce::new(&key_from_seed(32), &me);
                    let peers = match forge {
                        3 => vec![(*good.key(), good.timestamp(), *good.signature()), (*wrong_ih.key(), wrong_ih.timestamp(), *wrong_ih.signature())],
                        // a forged record first, a genuine one last: no position in the list decides alone
                        6 => vec![(*wrong_ih.key(), wrong_ih.timestamp(), *wrong_ih.signature()), (*good.key(), good.timestamp(), *good.signature())],
                        _ => vec![(*wrong_ih.key(), wrong_ih.timestamp(), *wrong_ih.signature()), (*good.key(), good.timestamp() + 1, *good.signature())],
                    };
                    return MessageType::Response(ResponseSpecific::GetSignedPeers(GetSignedPeersResponseArguments { responder_id: me, token, peers, nodes: n }));
                }
                _ => {}
            }
        }
        match &req.request_type {
            RequestTypeSpecific::Ping => MessageType::Response(ResponseSpecific::Ping(PingResponseArguments { responder_id: me })),
            RequestTypeSpecific::FindNode(a) => MessageType::Response(ResponseSpecific::FindNode(FindNodeResponseArguments { responder_id: me, nodes: nodes(self, &a.target) })),
            RequestTypeSpecific::GetPeers(a) => match self.peers[i].peers.get(&a.info_hash) {
                Some(v) if !v.is_empty() => MessageType::Response(ResponseSpecific::GetPeers(GetPeersResponseArguments { responder_id: me, token, values: v.clone(), nodes: Some(nodes(self, &a.info_hash)) })),
                _ => MessageType::Response(ResponseSpecific::NoValues(NoValuesResponseArguments { responder_id: me, token, nodes: Some(nodes(self, &a.info_hash)) })),
            },
            RequestTypeSpecific::GetSignedPeers(a) => match self.peers[i].speers.get(&a.info_hash) {
                Some(v) if !v.is_empty() => MessageType::Response(ResponseSpecific::GetSignedPeers(GetSignedPeersResponseArguments { responder_id: me, token, peers: v.clone(), nodes: Some(nodes(self, &a.info_hash)) })),
                _ => MessageType::Response(ResponseSpecific::NoValues(NoValuesResponseArguments { responder_id: me, token, nodes: Some(nodes(self, &a.info_hash)) })),
            },
            RequestTypeSpecific::GetValue(a) => {
                if let Some(v) = self.peers[i].imm.get(&a.target) {
                    MessageType::Response(ResponseSpecific::GetImmutable(GetImmutableResponseArguments { responder_id: me, token, nodes: Some(nodes(self, &a.target)), v: v.clone().into_boxed_slice() }))
                } else if let Some((v, k, seq, sig)) = self.peers[i].muts.get(&a.target) {
                    if a.seq.map(|s| *seq <= s).unwrap_or(false) {
                        MessageType::Response(ResponseSpecific::NoMoreRecentValue(NoMoreRecentValueResponseArguments { responder_id: me, token, nodes: Some(nodes(self, &a.target)), seq: *seq }))
                    } else {
                        MessageType::Response(ResponseSpecific::GetMutable(GetMutableResponseArguments { responder_id: me, token, nodes: Some(nodes(self, &a.target)), v: v.clone().into_boxed_slice(), k: *k, seq: *seq, sig: *sig }))
                    }
                } else {
                    MessageType::Response(ResponseSpecific::NoValues(NoValuesResponseArguments { responder_id: me, token, nodes: Some(nodes(self, &a.target)) }))
                }
            }
            RequestTypeSpecific::Put(p) => {
                let code = self.peers[i].put_reply;
                if p.token.as_ref() != token.as_ref() {
                    return MessageType::Error(ErrorSpecific { code: 203, description: "Bad token".into() });
                }
                if code == -1 || code == -2 {
                    // neither an acknowledgement nor an error: a response of another shape to a put request
                    return if code == -1 {
                        MessageType::Response(ResponseSpecific::FindNode(FindNodeResponseArguments { responder_id: me, nodes: nodes(self, &me) }))
                    } else {
                        MessageType::Response(ResponseSpecific::NoValues(NoValuesResponseArguments { responder_id: me, token: token.clone(), nodes: None }))
                    };
                }
                if code != 0 {
                    // free text of every length and shape: short, multi-byte characters straddling the
                    // 128th / 256th byte, long ASCII
                    let description = match (self.peers[i].addr.ip().octets()[3] as usize + code as usize) % 5 {
                        0 => "scripted".to_string(),
                        1 => format!("{}é tail", "a".repeat(127)),
                        2 => "é".repeat(150),
                        3 => format!("{}€{}", "b".repeat(254), "c".repeat(40)),
                        _ => "long ".repeat(80),
                    };
                    return MessageType::Error(ErrorSpecific { code, description });
                }
                match &p.put_request_type {
                    PutRequestSpecific::PutImmutable(a) => {
                        self.peers[i].imm.insert(a.target, a.v.to_vec());
                    }
                    PutRequestSpecific::PutMutable(a) => {
                        self.peers[i].muts.insert(a.target, (a.v.to_vec(), a.k, a.seq, a.sig));
                    }
                    PutRequestSpecific::AnnouncePeer(a) => {
                        let port = if a.implied_port == Some(true) { from.port() } else { a.port };
                        self.peers[i].peers.entry(a.info_hash).or_default().push(SocketAddrV4::new(*from.ip(), port));
                    }
                    PutRequestSpecific::AnnounceSignedPeer(a) => {
                        self.peers[i].speers.entry(a.info_hash).or_default().push((a.k, a.t, a.sig));
                    }
                }
                MessageType::Response(ResponseSpecific::Ping(PingResponseArguments { responder_id: me }))
            }
        }
    }
}

/// A datagram waiting to be delivered to the node.
pub struct InFlight {
    pub due: u64,
    pub from: SocketAddrV4,
    pub re: Option<String>,
    pub mt: MessageType,
    pub ro: bool,
    pub ip: Option<SocketAddrV4>,
    pub seq: u64,
    /// the transaction id of the request this answers (of the message itself, for a looped-back
    /// datagram): when the node has meanwhile sent the same request again, `re=` would name the newer one
    pub tid: Option<u32>,
    /// sent without a version field
    pub legacy: bool,
}

fn signable_mut(seq: i64, v: &[u8], salt: Option<&[u8]>) -> Vec<u8> {
    let mut s = vec![];
    if let Some(salt) = salt {
        s.extend(format!("4:salt{}:", salt.len()).into_bytes());
        s.extend_from_slice(salt);
    }
    s.extend(format!("3:seqi{}e1:v{}:", seq, v.len()).into_bytes());
    s.extend_from_slice(v);
    s
}

/// salts named by `salt=` in the API calls of this run (the answer to a get does not carry the salt)
pub static CALL_SALTS: std::sync::Mutex<Vec<Vec<u8>>> = std::sync::Mutex::new(Vec::new());

/// `know` ops for every signature in the datagram that really verifies (the model's verification
/// oracle is the set of registered triples)
pub fn known_signatures(f: &InFlight) -> Vec<String> {
    let mut out = vec![];
    let mut check = |k: &[u8; 32], msg: Vec<u8>, sig: &[u8; 64]| {
        if let Ok(key) = ed25519_dalek::VerifyingKey::from_bytes(k) {
            if key.verify_strict(&msg, &ed25519_dalek::Signature::from_bytes(sig)).is_ok() {
                out.push(format!("know {} {} {}", hex(k), hexz(&msg), hex(sig)));
            }
        }
    };
    let salts: [Option<&[u8]>; 7] = [None, Some(b"salt"), Some(b"s"), Some(b"another"), Some(b""), Some(b"\x80profile"), Some(b"\x81profile")];
    match &f.mt {
        MessageType::Response(ResponseSpecific::GetMutable(a)) => {
            for salt in salts {
                check(&a.k, signable_mut(a.seq, &a.v, salt), &a.sig);
            }
            // and the salts the calls of this run named
            for salt in CALL_SALTS.lock().unwrap().iter() {
                check(&a.k, signable_mut(a.seq, &a.v, Some(salt)), &a.sig);
            }
        }
        MessageType::Response(ResponseSpecific::GetSignedPeers(a)) => {
            // the info hash is the target of the request this answers
            if let Some(t) = f.re.as_ref().and_then(|k| k.rsplit('/').next()) {
                let ih = unhex(t);
                for (k, ts, sig) in a.peers.iter() {
                    let mut m = ih.clone();
                    m.extend_from_slice(&ts.to_be_bytes());
                    check(k, m, sig);
                }
            }
        }
        MessageType::Request(r) => {
            if let RequestTypeSpecific::Put(p) = &r.request_type {
                match &p.put_request_type {
                    PutRequestSpecific::PutMutable(a) => check(&a.k, signable_mut(a.seq, &a.v, a.salt.as_deref()), &a.sig),
                    PutRequestSpecific::AnnounceSignedPeer(a) => {
                        let mut m = a.info_hash.as_bytes().to_vec();
                        m.extend_from_slice(&a.t.to_be_bytes());
                        check(&a.k, m, &a.sig);
                    }
                    _ => {}
                }
            }
        }
        _ => {}
    }
    out
}

pub fn step_line(f: &InFlight) -> String {
    let m = Msg::new(0, if f.legacy { None } else { Some([82, 83, 0, 6]) }, f.ip, f.mt.clone(), f.ro);
    let bytes = m.to_bytes().expect("enc");
    match &f.re {
        Some(k) => format!("step from={} re={} msg={}", addr_s(&f.from), k, hex(&bytes)),
        None => format!("step from={} tid={} msg={}", addr_s(&f.from), f.tid.map(|t| t as u64).unwrap_or(1000 + f.seq), hex(&bytes)),
    }
}

pub struct Driver<'a> {
    pub s: NodeStream,
    pub out: &'a mut Out,
    pub rng: Rng,
    pub net: VNet,
    pub queue: Vec<InFlight>,
    pub latency: u64,
    /// unresolvable entries of the bootstrap list: (position among the entries, token `bad1`..`bad4`)
    pub boot_bad: Vec<(usize, &'static str)>,
    pub seq: u64,
    pub next_call: u32,
    pub drop_pct: u64,
    pub dup_pct: u64,
    pub late_pct: u64,
    /// datagrams the node sends to its own address come back (it is publicly reachable)
    pub reachable: bool,
    pub known: std::collections::HashSet<String>,
    /// the address the peers report seeing the node at (default: its real address)
    pub report_ip: Option<SocketAddrV4>,
    /// what accompanies every request the node sends to a live peer, one millisecond after it (before the
    /// peer's own reply): 1 a bare response under the same transaction id from ANOTHER address, 2 a ping REQUEST
    /// of the peer itself under the same transaction id, 3 (get requests only) a PUT request of the peer for the
    /// requested target carrying a forged value, under the same transaction id
    pub shadow: u8,
    /// first transaction id of the node's socket (default 0)
    pub tid0: Option<u32>,
    /// the node's request filter vetoes every request from this address
    pub deny: Option<Ipv4Addr>,
    /// (request key, sender, message) of every answer delivered to the node
    pub delivered: Vec<(String, SocketAddrV4, MessageType)>,
}

impl<'a> Driver<'a> {
    pub fn new(out: &'a mut Out, seed: u64, net: VNet) -> Self {
        Driver { s: NodeStream::new(), out, rng: Rng::new(seed), net, queue: vec![], latency: 5 * MS, seq: 0, next_call: 0, drop_pct: 0, dup_pct: 0, late_pct: 0, reachable: false, known: Default::default(), report_ip: None, shadow: 0, tid0: None, deny: None, delivered: vec![], boot_bad: vec![] }
    }
    /// a peer sends a request to the node
    pub fn inject_request(&mut self, from: SocketAddrV4, requester: Id, rt: RequestTypeSpecific, ro: bool) {
        self.seq += 1;
        self.queue.push(InFlight { due: verif::now_ns(), from, re: None, mt: MessageType::Request(dht::RequestSpecific { requester_id: requester, request_type: rt }), ro, ip: None, seq: self.seq, tid: None, legacy: false });
    }
    pub fn begin(&mut self, mode: &str, boot: &[SocketAddrV4], public: Option<Ipv4Addr>, seed: u64, t0: u64) {
        self.begin_at(mode, boot, public, None, seed, t0)
    }
    /// `ip`: the node's real address when it is not the configured public one
    pub fn begin_at(&mut self, mode: &str, boot: &[SocketAddrV4], public: Option<Ipv4Addr>, ip: Option<Ipv4Addr>, seed: u64, t0: u64) {
        let mut entries: Vec<String> = boot.iter().map(addr_s).collect();
        for (pos, tok) in self.boot_bad.iter() {
            entries.insert((*pos).min(entries.len()), tok.to_string());
        }
        let b = if entries.is_empty() { "-".to_string() } else { entries.join(",") };
        let p = public.map(|ip| u32::from(ip).to_string()).unwrap_or("-".into());
        self.queue.clear();
        self.known.clear();
        self.next_call = 0;
        let ip = ip.map(|ip| format!(" ip={}", u32::from(ip))).unwrap_or_default();
        let tid0 = self.tid0.map(|t| format!(" tid0={t}")).unwrap_or_default();
        let deny = self.deny.map(|d| format!(" deny={}", u32::from(d))).unwrap_or_default();
        self.out.begin(&mut self.s, &format!("node mode={mode} boot={b} pub={p}{ip}{tid0}{deny} seed={seed} t0={t0}"));
        self.run("init".into());
    }
    pub fn handle_sent(&mut self, sent: &[Sent]) {
        let now = verif::now_ns();
        for s in sent {
            if s.to == self.s.addr && self.reachable {
                // the node's own datagram loops back to it
                self.seq += 1;
                self.queue.push(InFlight { due: now + self.latency, from: self.s.addr, re: s.key.clone(), mt: s.msg.message_type().clone(), ro: s.msg.read_only(), ip: s.msg.requester_ip(), seq: self.seq, tid: Some(s.msg.transaction_id()), legacy: false });
                continue;
            }
            let MessageType::Request(req) = s.msg.message_type() else { continue };
            // (0.0.0.0:port — what `local_addr()` of a node bound to every interface reports — reaches the local
            // peer on that port, which answers from its own address)
            let found = self.net.by_addr.get(&s.to).copied().or_else(|| if s.to.ip().is_unspecified() { self.net.peers.iter().position(|p| p.addr.port() == s.to.port()) } else { None });
            let Some(i) = found else { continue };
            let peer_addr = self.net.peers[i].addr;
            if !self.net.peers[i].alive || self.net.peers[i].mode == 1 {
                continue;
            }
            let from = peer_addr;
            let mt = self.net.reply(i, req, self.s.addr);
            let is_put = matches!(req.request_type, RequestTypeSpecific::Put(_));
            let ro = self.net.peers[i].read_only || (is_put && self.net.peers[i].ro_puts);
            let is_ping = matches!(req.request_type, RequestTypeSpecific::Ping);
            if (is_put && self.net.peers[i].ignore_puts) || (!is_put && !is_ping && self.net.peers[i].ignore_gets) {
                continue;
            }
            let mut due = now + self.latency + self.net.peers[i].extra_delay + if is_put { self.net.peers[i].put_delay } else { 0 };
            if self.rng.below(100) < self.drop_pct {
                continue;
            }
            if self.net.peers[i].mode == 3 || self.rng.below(100) < self.late_pct {
                due = now + 600 * MS;
            }
            self.seq += 1;
            let seen_as = Some(self.report_ip.unwrap_or(self.s.addr));
            if self.shadow != 0 {
                let tid = Some(s.msg.transaction_id());
                let pid = self.net.peers[i].id;
                let extra: Option<(SocketAddrV4, MessageType)> = match self.shadow {
                    1 => Some((SocketAddrV4::new(Ipv4Addr::new(10, 88, 8, 8), 8888), MessageType::Response(ResponseSpecific::Ping(PingResponseArguments { responder_id: pid })))),
                    2 => Some((from, MessageType::Request(dht::RequestSpecific { requester_id: pid, request_type: RequestTypeSpecific::Ping }))),
                    _ => match &req.request_type {
                        RequestTypeSpecific::GetValue(g) => {
                            let forged = if g.salt.is_some() || self.seq % 2 == 0 {
                                PutRequestSpecific::PutMutable(PutMutableRequestArguments { target: g.target, v: b"forged value".to_vec().into_boxed_slice(), k: [7; 32], seq: 1000, sig: [9; 64], salt: g.salt.clone(), cas: None })
                            } else {
                                PutRequestSpecific::PutImmutable(PutImmutableRequestArguments { target: g.target, v: b"forged value".to_vec().into_boxed_slice() })
                            };
                            Some((from, MessageType::Request(dht::RequestSpecific { requester_id: pid, request_type: RequestTypeSpecific::Put(PutRequest { token: vec![1, 2, 3, 4].into_boxed_slice(), put_request_type: forged }) })))
                        }
                        _ => None,
                    },
                };
                if let Some((sfrom, smt)) = extra {
                    self.queue.push(InFlight { due: now + MS, from: sfrom, re: None, mt: smt, ro: false, ip: None, seq: self.seq, tid, legacy: false });
                    self.seq += 1;
                }
            }
            self.queue.push(InFlight { due, from, re: s.key.clone(), mt: mt.clone(), ro, ip: seen_as, seq: self.seq, tid: Some(s.msg.transaction_id()), legacy: self.net.peers[i].legacy });
            if self.net.peers[i].mode == 2 || self.rng.below(100) < self.dup_pct {
                self.seq += 1;
                self.queue.push(InFlight { due: due + MS, from, re: s.key.clone(), mt, ro, ip: seen_as, seq: self.seq, tid: Some(s.msg.transaction_id()), legacy: self.net.peers[i].legacy });
            }
        }
    }
    /// run one op and feed what the node sent to the virtual peers
    pub fn run(&mut self, op: String) -> String {
        let before = self.s.all_sent.len();
        let r = self.out.run(&mut self.s, op);
        let sent: Vec<Sent> = self.s.all_sent[before..].to_vec();
        self.handle_sent(&sent);
        r
    }
    /// deliver the next due datagram, or idle and let `dt` pass
    pub fn pump(&mut self, dt: u64) {
        let now = verif::now_ns();
        if self.queue.len() > 20_000 && std::env::var("MVH_TRACE").is_ok() {
            eprintln!("mvh: queue of {} datagrams at {now}", self.queue.len());
            for f in self.queue.iter().take(6) {
                eprintln!("  due={} from={} re={:?} {}", f.due, f.from, f.re, step_line(f).chars().take(160).collect::<String>());
            }
            let lines = self.out.case_lines();
            for l in lines.iter().rev().take(12).rev() {
                eprintln!("  op: {}", l.chars().take(200).collect::<String>());
            }
            eprintln!("  case has {} ops; header: {}", lines.len(), lines.first().cloned().unwrap_or_default());
            std::process::exit(3);
        }
        self.queue.sort_by_key(|f| (f.due, f.seq));
        if let Some(pos) = self.queue.iter().position(|f| f.due <= now) {
            let f = self.queue.remove(pos);
            for k in known_signatures(&f) {
                if self.known.insert(k.clone()) {
                    self.run(k);
                }
            }
            // an answer to a request the node has since sent again (same destination, kind and target) is
            // delivered under its own transaction id, not under the newer request's
            let mut f = f;
            let key = f.re.clone();
            if let (Some(k), Some(t)) = (&f.re, f.tid) {
                if self.s.reqs.get(k) != Some(&t) {
                    f.re = None;
                }
            }
            let line = step_line(&f);
            if let Some(k) = &key {
                self.delivered.push((k.clone(), f.from, f.mt.clone()));
            }
            self.run(line);
        } else {
            self.run("step".into());
            // what that step sent may already have queued replies: never jump over them
            let now = verif::now_ns();
            let next_due = self.queue.iter().map(|f| f.due).min();
            let dt = match next_due {
                Some(due) if due > now => dt.min(due - now),
                Some(_) => 0,
                None => dt,
            };
            if dt > 0 {
                self.run(format!("adv {dt}"));
            }
        }
    }
    pub fn run_for(&mut self, total: u64, dt: u64) {
        let end = verif::now_ns() + total;
        while verif::now_ns() < end && self.s.alive {
            self.pump(dt);
        }
    }
    /// until every call returned and nothing is queued (or `limit` passed)
    pub fn settle(&mut self, limit: u64, dt: u64) -> bool {
        let end = verif::now_ns() + limit;
        while verif::now_ns() < end && self.s.alive {
            if self.s.pending_calls().is_empty() && self.queue.is_empty() {
                return true;
            }
            self.pump(dt);
        }
        self.s.pending_calls().is_empty()
    }
    pub fn api(&mut self, call: String) -> u32 {
        self.next_call += 1;
        let no = self.next_call;
        if let Some(h) = call.split(' ').find_map(|t| t.strip_prefix("salt=")) {
            if h != "none" && h != "-" {
                let salt = unhex(h);
                let mut known = CALL_SALTS.lock().unwrap();
                if !known.contains(&salt) {
                    if known.len() >= 16 {
                        known.remove(0);
                    }
                    known.push(salt);
                }
            }
        }
        self.run(format!("api c{no} {call}"));
        no
    }
    pub fn results(&self, no: u32) -> Vec<String> {
        self.s.calls.iter().find(|c| c.no == no).map(|c| c.results.clone()).unwrap_or_default()
    }
    /// let every request expire, idle for a minute, and assert quiescence
    pub fn finish(&mut self) {
        // parked callers come back to their futures now (nothing of what they are handed is shown)
        self.s.unmute = true;
        self.settle(30 * SEC, 20 * MS);
        self.queue.clear();
        self.run("adv 60000000000".into());
        for _ in 0..4 {
            self.run("step".into());
        }
        self.run("quiet".into());
    }
}

/// responder id and listed nodes of an answer
pub fn resp_nodes(r: &ResponseSpecific) -> (Id, Vec<Node>) {
    let on = |n: &Option<Box<[Node]>>| n.as_ref().map(|n| n.to_vec()).unwrap_or_default();
    match r {
        ResponseSpecific::Ping(a) => (a.responder_id, vec![]),
        ResponseSpecific::FindNode(a) => (a.responder_id, a.nodes.to_vec()),
        ResponseSpecific::GetPeers(a) => (a.responder_id, on(&a.nodes)),
        ResponseSpecific::GetSignedPeers(a) => (a.responder_id, on(&a.nodes)),
        ResponseSpecific::GetImmutable(a) => (a.responder_id, on(&a.nodes)),
        ResponseSpecific::GetMutable(a) => (a.responder_id, on(&a.nodes)),
        ResponseSpecific::NoValues(a) => (a.responder_id, on(&a.nodes)),
        ResponseSpecific::NoMoreRecentValue(a) => (a.responder_id, on(&a.nodes)),
    }
}

impl<'a> Driver<'a> {
    /// C07, in a loss-free network of honest, responsive peers with one node per IP: run one lookup
    /// to its end and check the Kademlia closure.  Among the nodes that answered it or were listed
    /// in the answers, the 20 first ones in the lookup's order (BEP42-secure ids first, then XOR
    /// distance to the target) must all have been queried.
    pub fn lookup_and_check_closure(&mut self, call: String, target: &Id) {
        self.lookup_and_check_closure_from(call, target, false)
    }
    /// `attached`: the call joins a lookup of the target that is already running (the bootstrap
    /// lookup), so the trace of that lookup starts at the beginning of the case
    pub fn lookup_and_check_closure_from(&mut self, call: String, target: &Id, attached: bool) {
        let sent_before = if attached { 0 } else { self.s.all_sent.len() };
        let delivered_before = if attached { 0 } else { self.delivered.len() };
        let call_no = self.api(call.clone());
        self.settle(30 * SEC, 10 * MS);
        let suffix = format!("/{}", hex(target.as_bytes()));
        let queried: std::collections::HashSet<SocketAddrV4> = self.s.all_sent[sent_before..].iter().filter(|x| x.key.as_deref().map(|k| k.ends_with(&suffix) && !k.contains("/put/")).unwrap_or(false)).map(|x| x.to).collect();
        let mut seen: Vec<Node> = vec![];
        for (k, from, mt) in &self.delivered[delivered_before..] {
            if !k.ends_with(&suffix) || k.contains("/put/") {
                continue;
            }
            if let MessageType::Response(r) = mt {
                let (rid, nodes) = resp_nodes(r);
                for n in std::iter::once(Node::new(rid, *from)).chain(nodes.into_iter()) {
                    if n.address() != self.s.addr && !seen.iter().any(|e| e.address() == n.address()) {
                        seen.push(n);
                    }
                }
            }
        }
        let t = *target.as_bytes();
        seen.sort_by_key(|n| (!crate::streams::id::valid_ref(n.id().as_bytes(), *n.address().ip()), n.id().as_bytes().iter().zip(t.iter()).map(|(a, b)| a ^ b).collect::<Vec<u8>>()));
        self.out.count(&format!("closure-checked:seen>20={}", seen.len() > 20));
        // find_node reports the closest entries: every listed node among the first 20 (in the lookup's
        // order) of the listed nodes is reported, unless 20 reported nodes precede it
        if call.starts_with("find_node") {
            let key = |n: &Node| (!crate::streams::id::valid_ref(n.id().as_bytes(), *n.address().ip()), n.id().as_bytes().iter().zip(t.iter()).map(|(a, b)| a ^ b).collect::<Vec<u8>>());
            let mut listed_only: Vec<Node> = vec![];
            for (k, _, mt) in &self.delivered[delivered_before..] {
                if !k.ends_with(&suffix) || k.contains("/put/") {
                    continue;
                }
                if let MessageType::Response(r) = mt {
                    for n in resp_nodes(r).1 {
                        if n.address() != self.s.addr && !listed_only.iter().any(|e| e.address() == n.address()) {
                            listed_only.push(n);
                        }
                    }
                }
            }
            listed_only.sort_by_key(|n| key(n));
            let reported: Vec<(String, String)> = self
                .results(call_no)
                .iter()
                .filter_map(|r| r.split_once(":nodes:").map(|(_, l)| l.to_string()))
                .flat_map(|l| l.split(',').filter(|x| !x.is_empty()).filter_map(|x| x.split_once('@').map(|(i, a)| (i.to_string(), a.to_string()))).filter(|(i, _)| i.len() == 40).collect::<Vec<_>>())
                .collect();
            for (rank, n) in listed_only.iter().take(20).enumerate() {
                let me = (hex(n.id().as_bytes()), addr_s(&n.address()));
                if !reported.contains(&me) {
                    let before = reported.iter().filter(|(i, a)| key(&Node::new(id_of(i), parse_addr(a))) < key(n)).count();
                    if before < 20 {
                        self.out.violation("C07", "closest-entry-not-reported", format!("`{call}` reported {} nodes without {}@{}, which is entry {} of the {} nodes listed in the answers (only {before} reported nodes precede it)", reported.len(), me.0, me.1, rank + 1, listed_only.len()));
                        break;
                    }
                }
            }
        }
        for (rank, n) in seen.iter().take(20).enumerate() {
            if !queried.contains(&n.address()) {
                self.out.violation("C07", "closest-entry-not-queried", format!("`{call}` finished without querying {}@{}, which is entry {} of {} (secure ids first, then XOR distance) among the nodes that answered or were listed in the answers", hex(n.id().as_bytes()), addr_s(&n.address()), rank + 1, seen.len()));
                break;
            }
        }
    }
}

fn d_bytes(rng: &mut Rng, n: usize) -> Vec<u8> {
    (0..n).map(|_| rng.below(256) as u8).collect()
}

pub fn put_mut_call(ks: u64, seq: i64, v: &[u8], salt: Option<&[u8]>, cas: Option<i64>) -> String {
    let item = MutableItem::new(&key_from_seed(ks), v, seq, salt);
    format!(
        "put_mut ks={ks} k={} seq={seq} v={} salt={} sig={} cas={}",
        hex(item.key()),
        hexz(v),
        salt.map(hexz).unwrap_or("none".into()),
        hex(item.signature()),
        cas.map(|c| c.to_string()).unwrap_or("none".into())
    )
}

pub fn sannounce_call(ih: &Id, ks: u64) -> String {
    // the facade signs (info_hash, now) with the virtual wall clock: precompute the same record
    let sa = SignedAnnounce::new(&key_from_seed(ks), ih);
    format!("sannounce ih={} ks={ks} k={} t={} sig={}", hex(ih.as_bytes()), hex(sa.key()), sa.timestamp(), hex(sa.signature()))
}

pub fn imm_target(v: &[u8]) -> Id {
    let mut enc = format!("{}:", v.len()).into_bytes();
    enc.extend_from_slice(v);
    Id::from_bytes(sha1_ref(&enc)).expect("id")
}

// ---- R: everything at once, at random: address plan, id security, peer behaviour (silent, slow,
//         duplicating, forging, read-only, rejecting), loss, transaction id wrap, node mode, reachability,
//         time gaps, every API call with salts (also binary) on few targets.  The model and the
//         generic oracles (authenticity, no panic, every call returns, statistics, quiescence) judge.
pub fn chaos_round(out: &mut Out, rng: &mut Rng, t0: u64, round: usize) {
        let n = *rng.pick(&[1usize, 2, 4, 9, 22, 45]);
    let public = rng.chance(1, 2);
    let mut net = VNet::new(rng, n, !public);
    let item_salts: [Option<&[u8]>; 4] = [None, Some(b"salt"), Some(b"\x80profile"), Some(b"")];
    for (i, p) in net.peers.iter_mut().enumerate() {
        if public && rng.chance(1, 2) {
            let r = rng.below(256) as u8;
            p.id = Id::from_bytes(crate::streams::closest::secure_id(rng, *p.addr.ip(), r)).expect("id");
        }
        if i > 0 || rng.chance(1, 3) {
            p.mode = *rng.pick(&[0u8, 0, 0, 0, 1, 2, 3]);
            p.put_reply = *rng.pick(&[0i32, 0, 0, 0, 0, 203, 205, 301, 302, -1, -2]);
            p.forge = *rng.pick(&[0u8, 0, 0, 0, 0, 0, 1, 2, 3, 5, 7, 8, 10, 11]);
            p.extra_delay = *rng.pick(&[0u64, 0, 0, 20, 510, 700, 1300]) * MS;
            p.put_delay = *rng.pick(&[0u64, 0, 100, 600]) * MS;
            p.read_only = rng.chance(1, 12);
            p.ro_puts = rng.chance(1, 12);
            p.ignore_gets = rng.chance(1, 15);
            p.ignore_puts = rng.chance(1, 15);
        }
        // some peers already hold items of the key the calls below use
        if rng.chance(1, 3) {
            let salt = *rng.pick(&item_salts);
            let item = MutableItem::new(&key_from_seed(9), b"held", rng.below(4) as i64 + 1, salt);
            p.muts.insert(*item.target(), (item.value().to_vec(), *item.key(), item.seq(), *item.signature()));
        }
    }
    // the shape of the answers: how many closer nodes are listed, in which order, which clients send a version
    net.list_k = *rng.pick(&[8usize, 8, 8, 20, 20, 30]);
    net.list_rev = rng.chance(1, 6);
    net.list_random = n >= 9 && rng.chance(1, 8);
    for p in net.peers.iter_mut() {
        p.legacy = rng.chance(1, 4);
    }
    let mut boot: Vec<SocketAddrV4> = if rng.chance(1, 8) { vec![] } else { net.peers.iter().take(1 + rng.below(2) as usize).map(|p| p.addr).collect() };
    if !boot.is_empty() && rng.chance(1, 8) {
        // an address nothing can be sent to
        boot.push(SocketAddrV4::new(Ipv4Addr::new(10, 1, 9, 9), 0));
    }
    let bad_boot = !boot.is_empty() && rng.chance(1, 8);
    let mut d = Driver::new(out, rng.next(), net);
    if bad_boot {
        d.boot_bad = vec![(rng.below(2) as usize, *rng.pick(&["bad1", "bad2", "bad3", "bad4"]))];
    }
    d.drop_pct = *rng.pick(&[0u64, 0, 0, 10, 40]);
    d.dup_pct = *rng.pick(&[0u64, 0, 15]);
    d.late_pct = *rng.pick(&[0u64, 0, 15]);
    d.reachable = rng.chance(1, 2);
    if rng.chance(1, 3) {
        // just below a wrap-around of the counter or of one of the byte lengths ids are written with
        let edge = *rng.pick(&[u32::MAX, u32::MAX, 65_536, 16_777_216, 256]);
        d.tid0 = Some(edge - rng.below(30) as u32);
    }
    let mode = if rng.chance(1, 4) { "s" } else { "c" };
    let (cfg_pub, real_ip) = if public {
        let ip = Ipv4Addr::new(45, 9, rng.below(200) as u8, 1 + rng.below(200) as u8);
        if rng.chance(1, 2) { (Some(ip), None) } else { (None, Some(ip)) }
    } else {
        (None, None)
    };
    d.begin_at(mode, &boot, cfg_pub, real_ip, rng.next() % 1_000_000 + 1, t0);
    d.run_for(SEC, 10 * MS);
    // few targets, shared by calls of different kinds: two random ones, the immutable value's, and the
    // targets of the mutable items (lookups are keyed by the 20 bytes alone)
    let v = if rng.chance(1, 6) { let mut b = format!("chaos {}", round % 3).into_bytes(); b.resize(1000, b'x'); b } else { format!("chaos {}", round % 3).into_bytes() };
    let vt = imm_target(&v);
    let mut targets: Vec<Id> = (0..2).map(|_| Id::from_bytes(rng.id20()).expect("id")).collect();
    targets.push(vt);
    for salt in item_salts.iter().take(2) {
        targets.push(*MutableItem::new(&key_from_seed(9), b"x", 1, *salt).target());
    }
    let pk = hex(key_from_seed(9).verifying_key().as_bytes());
    let sh = |s: Option<&[u8]>| s.map(hex).unwrap_or("none".into());
    for _ in 0..(8 + rng.below(14)) {
        let t = *rng.pick(&targets);
        let salt = *rng.pick(&item_salts);
        let call = match rng.below(14) {
            0 => format!("find_node t={}", hex(t.as_bytes())),
            1 => format!("closest t={}", hex(t.as_bytes())),
            2 => format!("get_imm t={}", hex(vt.as_bytes())),
            3 => format!("put_imm v={}", hex(&v)),
            4 => format!("get_peers ih={}", hex(t.as_bytes())),
            5 => format!("announce ih={} port={}", hex(t.as_bytes()), if rng.chance(1, 2) { "implied".to_string() } else { "7001".to_string() }),
            6 | 7 => put_mut_call(9, rng.below(6) as i64, if rng.chance(1, 2) { b"m1" } else { b"m2" }, salt, if rng.chance(1, 3) { Some(rng.below(6) as i64) } else { None }),
            8 | 9 => format!("get_mut k={pk} salt={} seq={}", sh(salt), if rng.chance(1, 3) { rng.below(5).to_string() } else { "none".into() }),
            10 => sannounce_call(&t, 5),
            11 => format!("get_speers ih={}", hex(t.as_bytes())),
            12 => if rng.chance(1, 2) { "info".to_string() } else { "to_bootstrap".to_string() },
            _ => format!("find_node t={}", hex(vt.as_bytes())),
        };
        // now and then a caller that submits its get and then leaves its future alone
        let call = if (call.starts_with("get_imm") || call.starts_with("get_mut")) && rng.chance(1, 10) { format!("{call} mute=1") } else { call };
        d.api(call);
        match rng.below(6) {
            0 => d.run_for(*rng.pick(&[61u64, 310, 905]) * SEC, SEC),
            1 => { d.settle(20 * SEC, 10 * MS); }
            _ => {
                for _ in 0..rng.below(15) {
                    d.pump(5 * MS);
                }
            }
        }
        if rng.chance(1, 6) {
            // an unsolicited request from a stranger, sometimes from the node's own IP
            let from = if rng.chance(1, 4) { SocketAddrV4::new(*d.s.addr.ip(), 7000) } else { SocketAddrV4::new(Ipv4Addr::new(10, 9, 0, 1 + rng.below(5) as u8), 6881) };
            let rid = Id::from_bytes(rng.id20()).expect("id");
            let rt = match rng.below(4) {
                0 => RequestTypeSpecific::Ping,
                1 => RequestTypeSpecific::FindNode(FindNodeRequestArguments { target: rid }),
                2 => RequestTypeSpecific::GetValue(GetValueRequestArguments { target: vt, seq: None, salt: None }),
                _ => RequestTypeSpecific::GetPeers(GetPeersRequestArguments { info_hash: t }),
            };
            d.inject_request(from, rid, rt, rng.chance(1, 3));
        }
        if rng.chance(1, 5) {
            d.run("snap".into());
        }
    }
    d.run("snap".into());
    d.finish();
    d.out.mark_distinct(d.rng.0 ^ 0x4a05 ^ round as u64);
    d.out.count("chaos-round");
    d.s.shutdown();
}

pub fn run(out: &mut Out, seed: u64, thorough: bool, replay: Option<&str>) {
    if let Some(p) = replay {
        let mut s = NodeStream::new();
        replay_file(&mut s, out, p);
        s.shutdown();
        return;
    }
    let mut rng = Rng::new(seed ^ 0x40de);
    let mut t0 = 8_000_000_000_000_000u64;
    // hunting mode (not used by the registered checks): only the random scenario, many rounds
    if let Some(n) = std::env::var("MVH_CHAOS").ok().and_then(|n| n.parse::<usize>().ok()) {
        for round in 0..n {
            t0 += 10_000_000_000_000;
            chaos_round(out, &mut rng, t0, round);
        }
        return;
    }
    let sizes: &[usize] = if thorough { &[1, 2, 3, 8, 25, 60] } else { &[1, 3, 25] };
    // ---- A: honest network, every API once, client mode
    for &n in sizes {
        t0 += 10_000_000_000_000;
        let net = VNet::new(&mut rng, n, true);
        let boot = vec![net.peers[0].addr];
        let mut d = Driver::new(out, rng.next(), net);
        d.begin("c", &boot, None, rng.next() % 1_000_000 + 1, t0);
        d.run_for(2 * SEC, 10 * MS);
        let v = format!("value-{n}").into_bytes();
        let c1 = d.api(format!("put_imm v={}", hex(&v)));
        d.settle(20 * SEC, 10 * MS);
        let target = imm_target(&v);
        let c2 = d.api(format!("get_imm t={}", hex(target.as_bytes())));
        d.settle(20 * SEC, 10 * MS);
        let _ = (c1, c2);
        let t = Id::from_bytes(rng.id20()).expect("id");
        d.api(format!("find_node t={}", hex(t.as_bytes())));
        d.api(format!("closest t={}", hex(t.as_bytes())));
        d.settle(20 * SEC, 10 * MS);
        let ih = Id::from_bytes(rng.id20()).expect("id");
        d.api(format!("announce ih={} port=7000", hex(ih.as_bytes())));
        d.settle(20 * SEC, 10 * MS);
        d.api(format!("get_peers ih={}", hex(ih.as_bytes())));
        d.settle(20 * SEC, 10 * MS);
        let call = sannounce_call(&ih, 5);
        d.api(call);
        d.settle(20 * SEC, 10 * MS);
        d.api(format!("get_speers ih={}", hex(ih.as_bytes())));
        d.settle(20 * SEC, 10 * MS);
        let call = put_mut_call(9, 3, b"mutable", Some(b"salt"), None);
        d.api(call);
        d.settle(20 * SEC, 10 * MS);
        d.api(format!("get_mut k={} salt={} seq=none", hex(key_from_seed(9).verifying_key().as_bytes()), hex(b"salt")));
        d.api("info".into());
        d.api("to_bootstrap".into());
        d.settle(20 * SEC, 10 * MS);
        // a minute later everything is still found (a signed announcement is older than the 45 s
        // window that only storing nodes apply to new announcements)
        d.run_for(61 * SEC, SEC);
        let g1 = d.api(format!("get_speers ih={}", hex(ih.as_bytes())));
        d.settle(20 * SEC, 10 * MS);
        let g2 = d.api(format!("get_peers ih={}", hex(ih.as_bytes())));
        d.settle(20 * SEC, 10 * MS);
        let g3 = d.api(format!("get_imm t={}", hex(target.as_bytes())));
        d.settle(20 * SEC, 10 * MS);
        for (g, what) in [(g1, "get_signed_peers"), (g2, "get_peers"), (g3, "get_immutable")] {
            let got = d.results(g);
            if !got.iter().any(|r| r.contains(":item:") || r.contains(":some:")) {
                d.out.violation("C01", "stored-item-not-yielded", format!("{what} a minute after the write was acknowledged by every storing node yielded {:?}", got));
            }
        }
        d.finish();
        d.out.mark_distinct(d.rng.0 ^ n as u64);
        d.s.shutdown();
    }
    // ---- B: the same lookups repeated (cache replacement), find_node and get on one target
    for round in 0..(if thorough { 6 } else { 2 }) {
        t0 += 10_000_000_000_000;
        let net = VNet::new(&mut rng, 6 + round, true);
        let boot = vec![net.peers[0].addr];
        let mut d = Driver::new(out, rng.next(), net);
        d.begin("c", &boot, None, rng.next() % 1_000_000 + 1, t0);
        d.run_for(2 * SEC, 10 * MS);
        let t = Id::from_bytes(rng.id20()).expect("id");
        for _ in 0..3 {
            d.api(format!("find_node t={}", hex(t.as_bytes())));
            d.settle(20 * SEC, 10 * MS);
            d.run("snap".into());
        }
        d.api(format!("get_imm t={}", hex(t.as_bytes())));
        d.settle(20 * SEC, 10 * MS);
        d.api(format!("find_node t={}", hex(t.as_bytes())));
        d.settle(20 * SEC, 10 * MS);
        // lookups of every other kind replaced in the cache, each on its own target (the signed-peers
        // ones are accounted in the signed-peers table's statistics)
        let t2 = Id::from_bytes(rng.id20()).expect("id");
        let t3 = Id::from_bytes(rng.id20()).expect("id");
        for _ in 0..3 {
            d.api(format!("get_speers ih={}", hex(t2.as_bytes())));
            d.settle(20 * SEC, 10 * MS);
            d.run("snap".into());
            d.api(format!("get_peers ih={}", hex(t3.as_bytes())));
            d.settle(20 * SEC, 10 * MS);
            d.run("snap".into());
        }
        d.api(format!("get_speers ih={}", hex(t.as_bytes())));
        d.settle(20 * SEC, 10 * MS);
        d.run("snap".into());
        d.finish();
        d.out.mark_distinct(d.rng.0 ^ 0xb ^ round as u64);
        d.s.shutdown();
    }
    // ---- C: Byzantine responders (C02): every forging mode, alone and mixed with honest peers
    for forge in 1..=6u8 {
        for honest in [0usize, 2] {
            t0 += 10_000_000_000_000;
            let mut net = VNet::new(&mut rng, 3 + honest, true);
            for (i, p) in net.peers.iter_mut().enumerate() {
                if i >= honest {
                    p.forge = forge;
                }
            }
            let boot = vec![net.peers[0].addr];
            let mut d = Driver::new(out, rng.next(), net);
            d.begin("c", &boot, None, rng.next() % 1_000_000 + 1, t0);
            d.run_for(2 * SEC, 10 * MS);
            let pk = hex(key_from_seed(9).verifying_key().as_bytes());
            d.api(format!("get_mut k={pk} salt=none seq=none"));
            d.api(format!("get_mut k={pk} salt={} seq=none", hex(b"salt")));
            d.settle(20 * SEC, 10 * MS);
            let t = imm_target(b"the real value");
            d.api(format!("get_imm t={}", hex(t.as_bytes())));
            d.settle(20 * SEC, 10 * MS);
            let ih = Id::from_bytes(rng.id20()).expect("id");
            d.api(format!("get_speers ih={}", hex(ih.as_bytes())));
            d.settle(20 * SEC, 10 * MS);
            d.finish();
            d.out.mark_distinct(d.rng.0 ^ 0xc ^ forge as u64);
            d.s.shutdown();
        }
    }
    // ---- C2: a second caller joins a lookup that is still running after forged answers arrived (C02):
    //          it is handed what the lookup remembers, which must be authentic too
    for forge in [1u8, 2, 3, 5, 6, 7] {
        t0 += 10_000_000_000_000;
        let mut net = VNet::new(&mut rng, 5, true);
        let item = MutableItem::new(&key_from_seed(9), b"the genuine value", 7, None);
        for (i, p) in net.peers.iter_mut().enumerate() {
            match i {
                0 => {
                    // honest holder, slow: the forged answers come first
                    p.muts.insert(*item.target(), (item.value().to_vec(), *item.key(), item.seq(), *item.signature()));
                    p.extra_delay = 120 * MS;
                }
                1 => p.mode = 1, // silent: keeps the lookup running until its request expires
                _ => p.forge = forge,
            }
        }
        let boot = vec![net.peers[0].addr, net.peers[2].addr];
        let mut d = Driver::new(out, rng.next(), net);
        d.begin("c", &boot, None, rng.next() % 1_000_000 + 1, t0);
        d.run_for(2 * SEC, 10 * MS);
        let pk = hex(key_from_seed(9).verifying_key().as_bytes());
        let t = imm_target(b"the real value");
        let ih = Id::from_bytes(rng.id20()).expect("id");
        let calls = [format!("get_mut k={pk} salt=none seq=none"), format!("get_imm t={}", hex(t.as_bytes())), format!("get_speers ih={}", hex(ih.as_bytes()))];
        for call in calls.iter() {
            d.api(call.clone());
            d.run_for(60 * MS, 5 * MS);
            d.api(call.clone());
            d.run_for(100 * MS, 5 * MS);
            d.api(call.clone());
            d.settle(20 * SEC, 10 * MS);
        }
        d.finish();
        d.out.mark_distinct(fnv(format!("C2{forge}").as_bytes()));
        d.s.shutdown();
    }
    // ---- C3: binary salts (C02): the item the key signed under salt 0x80"profile" is replayed to a
    //          lookup of salt 0x81"profile"; the lookup of 0x80"profile" itself must find it
    for honest in [0usize, 1] {
        t0 += 10_000_000_000_000;
        let mut net = VNet::new(&mut rng, 3, true);
        for (i, p) in net.peers.iter_mut().enumerate() {
            if i >= honest {
                p.forge = 8;
            }
        }
        let boot = vec![net.peers[0].addr];
        let mut d = Driver::new(out, rng.next(), net);
        d.begin("c", &boot, None, rng.next() % 1_000_000 + 1, t0);
        d.run_for(2 * SEC, 10 * MS);
        let pk = hex(key_from_seed(9).verifying_key().as_bytes());
        d.api(format!("get_mut k={pk} salt={} seq=none", hex(b"\x81profile")));
        d.settle(20 * SEC, 10 * MS);
        let g = d.api(format!("get_mut k={pk} salt={} seq=none", hex(b"\x80profile")));
        d.settle(20 * SEC, 10 * MS);
        if honest == 0 && !d.results(g).iter().any(|r| r.contains("seq=4")) {
            let got = d.results(g);
            d.out.violation("C01", "stored-item-not-yielded", format!("every node serves the item signed under the binary salt 80\"profile\" but get_mutable yielded {:?}", got));
        }
        d.finish();
        d.out.mark_distinct(fnv(format!("C3{honest}").as_bytes()));
        d.s.shutdown();
    }
    // ---- N: round-trip times above the 500 ms floor drive the adaptive request timeout (C05, C09):
    //         one very slow answer, then answers faster than the estimate, then slower again
    for round in 0..(if thorough { 4 } else { 2 }) {
        t0 += 10_000_000_000_000;
        let net = VNet::new(&mut rng, 2 + round, true);
        let boot = vec![net.peers[0].addr];
        let mut d = Driver::new(out, rng.next(), net);
        d.begin("c", &boot, None, rng.next() % 1_000_000 + 1, t0);
        d.run_for(2 * SEC, 10 * MS);
        let delays: [u64; 14] = [1300, 510, 510, 520, 505, 510, 700, 505, 505, 1900, 505, 510, 505, 900];
        for (k, ms) in delays.iter().enumerate() {
            for p in d.net.peers.iter_mut() {
                p.extra_delay = ms * MS + (k as u64 % 3) * MS;
            }
            let t = Id::from_bytes(rng.id20()).expect("id");
            d.api(format!("find_node t={}", hex(t.as_bytes())));
            d.settle(20 * SEC, 10 * MS);
            d.run("snap".into());
        }
        d.finish();
        d.out.mark_distinct(fnv(format!("N{round}").as_bytes()));
        d.s.shutdown();
    }
    // ---- N2 (C13): every bootstrap server is far away — its answers take 700 ms, longer than the initial
    //          request timeout.  The first attempts time out; the late answers teach the node the round trip
    //          time, and a later attempt succeeds: the node joins
    for round in 0..(if thorough { 3 } else { 1 }) {
        t0 += 10_000_000_000_000;
        let mut net = VNet::new(&mut rng, 1 + 2 * round, true);
        for p in net.peers.iter_mut() {
            p.extra_delay = 700 * MS + round as u64 * 40 * MS;
        }
        let boot: Vec<SocketAddrV4> = net.peers.iter().take(2).map(|p| p.addr).collect();
        let mut d = Driver::new(out, rng.next(), net);
        d.begin("c", &boot, None, rng.next() % 1_000_000 + 1, t0);
        d.run_for(40 * SEC, 10 * MS);
        d.run("snap".into());
        let size = d.s.last_snapshot.as_ref().map(|sn| sn.routing_table.len()).unwrap_or(0);
        if size == 0 {
            d.out.violation("C13", "live-bootstrap-not-joined", "every bootstrap server answers (700 ms round trip) but after 40 s the routing table is still empty: the node never adapts its request timeout to the late answers".into());
            d.out.violation("C14", "answering-peers-never-learned", "every peer answers every request (700 ms round trip) and after 40 s none of them is in the routing table: late answers never teach the node the round trip time".into());
        }
        d.finish();
        d.out.mark_distinct(fnv(format!("N2{round}").as_bytes()));
        d.out.count("far-away-bootstrap");
        d.s.shutdown();
    }
    // ---- C4: get_mutable joins a running lookup of ANOTHER kind on the same 20 bytes (lookups are keyed
    //          by target), and the responders answer that lookup with a mutable item signed by their own
    //          key (C02): nothing of that may reach the get_mutable caller
    for first in ["find_node", "get_peers", "get_speers"] {
        t0 += 10_000_000_000_000;
        let mut net = VNet::new(&mut rng, 4, true);
        for (i, p) in net.peers.iter_mut().enumerate() {
            if i == 1 {
                p.mode = 1; // silent: keeps the lookup running
            } else {
                p.forge = 9;
            }
        }
        let boot = vec![net.peers[0].addr, net.peers[1].addr];
        let mut d = Driver::new(out, rng.next(), net);
        d.begin("c", &boot, None, rng.next() % 1_000_000 + 1, t0);
        d.run_for(2 * SEC, 10 * MS);
        let genuine = MutableItem::new(&key_from_seed(9), b"x", 1, Some(b"salt"));
        let th = hex(genuine.target().as_bytes());
        d.api(match first {
            "find_node" => format!("find_node t={th}"),
            "get_peers" => format!("get_peers ih={th}"),
            _ => format!("get_speers ih={th}"),
        });
        d.run_for(40 * MS, 5 * MS);
        let pk = hex(key_from_seed(9).verifying_key().as_bytes());
        d.api(format!("get_mut k={pk} salt={} seq=none", hex(b"salt")));
        d.run_for(60 * MS, 5 * MS);
        d.api(format!("get_mut k={pk} salt={} seq=none", hex(b"salt")));
        d.settle(20 * SEC, 10 * MS);
        d.finish();
        d.out.mark_distinct(fnv(format!("C4{first}").as_bytes()));
        d.s.shutdown();
    }
    // ---- C5 (C02): two lookups of the same kind for DIFFERENT targets run side by side and their answers
    //          arrive back to back: each caller is handed only what belongs to its own target
    for kind in 0..3 {
        t0 += 10_000_000_000_000;
        let mut net = VNet::new(&mut rng, 6, true);
        let ih1 = Id::from_bytes(rng.id20()).expect("id");
        let ih2 = Id::from_bytes(rng.id20()).expect("id");
        let sa1 = SignedAnnounce::new(&key_from_seed(31), &ih1);
        let sa2 = SignedAnnounce::new(&key_from_seed(32), &ih2);
        let it1 = MutableItem::new(&key_from_seed(9), b"of key nine", 2, None);
        let it2 = MutableItem::new(&key_from_seed(10), b"of key ten", 2, None);
        for (j, p) in net.peers.iter_mut().enumerate() {
            p.peers.insert(ih1, vec![SocketAddrV4::new(Ipv4Addr::new(10, 8, 8, 1), 7001)]);
            p.peers.insert(ih2, vec![SocketAddrV4::new(Ipv4Addr::new(10, 8, 8, 2), 7002)]);
            p.speers.insert(ih1, vec![(*sa1.key(), sa1.timestamp(), *sa1.signature())]);
            p.speers.insert(ih2, vec![(*sa2.key(), sa2.timestamp(), *sa2.signature())]);
            p.muts.insert(*it1.target(), (it1.value().to_vec(), *it1.key(), it1.seq(), *it1.signature()));
            p.muts.insert(*it2.target(), (it2.value().to_vec(), *it2.key(), it2.seq(), *it2.signature()));
            // the second call is picked up one network latency after the first: with this delay the late
            // half of the first lookup's answers falls due together with the early half of the second's
            p.extra_delay = (j as u64 % 2) * 5 * MS;
        }
        let boot = vec![net.peers[0].addr];
        let mut d = Driver::new(out, rng.next(), net);
        d.begin("c", &boot, None, rng.next() % 1_000_000 + 1, t0);
        d.run_for(2 * SEC, 10 * MS);
        let (call1, call2, want1, want2) = match kind {
            0 => (format!("get_speers ih={}", hex(ih1.as_bytes())), format!("get_speers ih={}", hex(ih2.as_bytes())), hex(sa1.signature()), hex(sa2.signature())),
            1 => (format!("get_peers ih={}", hex(ih1.as_bytes())), format!("get_peers ih={}", hex(ih2.as_bytes())), "168298497:7001".to_string(), "168298498:7002".to_string()),
            _ => (
                format!("get_mut k={} salt=none seq=none", hex(key_from_seed(9).verifying_key().as_bytes())),
                format!("get_mut k={} salt=none seq=none", hex(key_from_seed(10).verifying_key().as_bytes())),
                hex(it1.signature()),
                hex(it2.signature()),
            ),
        };
        let c1 = d.api(call1);
        let c2 = d.api(call2);
        d.settle(20 * SEC, 10 * MS);
        for (c, mine, other) in [(c1, &want1, &want2), (c2, &want2, &want1)] {
            let got = d.results(c);
            if got.iter().any(|r| r.contains(other.as_str())) {
                d.out.violation("C02", "inauthentic-value", format!("a lookup was handed what belongs to the target of the lookup running beside it: {:?}", got.iter().filter(|r| r.contains(other.as_str())).take(1).collect::<Vec<_>>()));
            }
            if !got.iter().any(|r| r.contains(mine.as_str())) {
                d.out.violation("C01", "stored-item-not-yielded", format!("one of two lookups running side by side yielded {:?} although every node holds its value", got.iter().take(2).collect::<Vec<_>>()));
            }
        }
        d.finish();
        d.out.mark_distinct(fnv(format!("C5{kind}").as_bytes()));
        d.out.count("side-by-side-lookups");
        d.s.shutdown();
    }
    // ---- M2: a second reader joins a lookup that has already been handed the value, while the lookup is
    //          kept running by a node that never answers (C01): it is handed the value too
    for kind in 0..4 {
        t0 += 10_000_000_000_000;
        let mut net = VNet::new(&mut rng, 3, true);
        let ih = Id::from_bytes(rng.id20()).expect("id");
        let v = b"held by one live node".to_vec();
        let item = MutableItem::new(&key_from_seed(9), b"held", 2, None);
        let sa = SignedAnnounce::new(&key_from_seed(31), &ih);
        net.peers[1].mode = 1;
        net.peers[2].mode = 1;
        {
            let p = &mut net.peers[0];
            p.peers.insert(ih, vec![SocketAddrV4::new(Ipv4Addr::new(10, 8, 8, 8), 7000)]);
            p.speers.insert(ih, vec![(*sa.key(), sa.timestamp(), *sa.signature())]);
            p.imm.insert(imm_target(&v), v.clone());
            p.muts.insert(*item.target(), (item.value().to_vec(), *item.key(), item.seq(), *item.signature()));
        }
        let boot = vec![net.peers[0].addr, net.peers[1].addr, net.peers[2].addr];
        let mut d = Driver::new(out, rng.next(), net);
        d.begin("c", &boot, None, rng.next() % 1_000_000 + 1, t0);
        d.run_for(2 * SEC, 10 * MS);
        let call = match kind {
            0 => format!("get_peers ih={}", hex(ih.as_bytes())),
            1 => format!("get_speers ih={}", hex(ih.as_bytes())),
            2 => format!("get_imm t={}", hex(imm_target(&v).as_bytes())),
            _ => format!("get_mut k={} salt=none seq=none", hex(key_from_seed(9).verifying_key().as_bytes())),
        };
        let c1 = d.api(call.clone());
        d.run_for(80 * MS, 5 * MS);
        let c2 = d.api(call.clone());
        d.settle(20 * SEC, 10 * MS);
        for (c, which) in [(c1, "first"), (c2, "second")] {
            let got = d.results(c);
            if !got.iter().any(|r| r.contains(":item:") || r.contains(":some:")) {
                d.out.violation("C01", "stored-item-not-yielded", format!("the {which} of two overlapping `{}` calls yielded {:?} although a live node holds the value and answered", call.split(' ').next().unwrap_or(""), got));
            }
        }
        d.finish();
        d.out.mark_distinct(fnv(format!("M2{kind}").as_bytes()));
        d.s.shutdown();
    }
    // ---- C': replay of a genuine (key, seq, signature) with another value, before and after the
    //          honest answer reached the lookup
    for forged_first in [false, true] {
        for n_honest in [1usize, 3] {
            t0 += 10_000_000_000_000;
            let mut net = VNet::new(&mut rng, n_honest + 2, true);
            let item = MutableItem::new(&key_from_seed(9), b"the genuine value", 7, Some(b"salt"));
            for (i, p) in net.peers.iter_mut().enumerate() {
                if i < n_honest {
                    p.muts.insert(*item.target(), (item.value().to_vec(), *item.key(), item.seq(), *item.signature()));
                    p.extra_delay = if forged_first { 40 * MS } else { 0 };
                } else {
                    p.forge = 7;
                    p.extra_delay = if forged_first { 0 } else { 40 * MS };
                }
            }
            let boot = vec![net.peers[0].addr];
            let mut d = Driver::new(out, rng.next(), net);
            d.begin("c", &boot, None, rng.next() % 1_000_000 + 1, t0);
            d.run_for(2 * SEC, 10 * MS);
            let pk = hex(key_from_seed(9).verifying_key().as_bytes());
            d.api(format!("get_mut k={pk} salt={} seq=none", hex(b"salt")));
            d.settle(20 * SEC, 10 * MS);
            d.api(format!("get_mut k={pk} salt={} seq=3", hex(b"salt")));
            d.settle(20 * SEC, 10 * MS);
            d.finish();
            d.out.mark_distinct(fnv(format!("Cr{forged_first}{n_honest}").as_bytes()));
            d.s.shutdown();
        }
    }
    // ---- D: concurrent put_mutable on one key (C17): every relation x every phase of the first call
    let rels: [(&str, i64, &[u8], Option<i64>, &str); 8] = [
        ("same", 5, b"first", None, "ok"),
        ("lower-seq", 4, b"second", None, "not-most-recent"),
        ("lower-seq-cas", 4, b"second", Some(5), "not-most-recent"),
        ("equal-seq-other-value", 5, b"second", None, "conflict-risk"),
        ("higher-seq-no-cas", 6, b"second", None, "conflict-risk"),
        ("cas-match", 6, b"second", Some(5), "ok"),
        ("cas-mismatch", 6, b"second", Some(4), "cas-failed"),
        ("cas-mismatch-equal-seq", 5, b"second", Some(7), "cas-failed"),
    ];
    for phase in 0..4 {
        for (name, seq2, v2, cas2, want) in rels.iter() {
            if !thorough && phase == 2 && (*name == "lower-seq-cas" || *name == "cas-mismatch-equal-seq") {
                continue;
            }
            t0 += 10_000_000_000_000;
            let net = VNet::new(&mut rng, 5, true);
            let boot = vec![net.peers[0].addr];
            let mut d = Driver::new(out, rng.next(), net);
            d.begin("c", &boot, None, rng.next() % 1_000_000 + 1, t0);
            d.run_for(2 * SEC, 10 * MS);
            let first = put_mut_call(9, 5, b"first", Some(b"s"), None);
            d.api(format!("{first} expect=ok"));
            match phase {
                0 => {}                               // both queued before the actor looks at either
                1 => { d.pump(MS); d.pump(MS); }      // first call's lookup is running
                2 => {
                    // first call is storing: wait for its put requests
                    let mut guard = 0;
                    while !d.s.all_sent.iter().any(|x| x.key.as_deref().map(|k| k.contains("/put/")).unwrap_or(false)) && guard < 4000 {
                        d.pump(MS);
                        guard += 1;
                    }
                }
                _ => { d.settle(20 * SEC, 10 * MS); } // first call finished
            }
            let second = put_mut_call(9, *seq2, v2, Some(b"s"), *cas2);
            let want = if phase == 3 { "ok" } else { *want };
            let c2 = d.api(format!("{second} expect={want}"));
            d.settle(20 * SEC, 10 * MS);
            // a second write that was accepted and differs from the first took its place: Ok means that a
            // storing node acknowledged THIS item, so some node of the (honest, loss-free) network holds it
            if d.results(c2).first().map(|r| r.contains(":ok:")).unwrap_or(false) && *name != "same" {
                let item = MutableItem::new(&key_from_seed(9), v2, *seq2, Some(b"s"));
                let held = d.net.peers.iter().any(|p| p.muts.get(item.target()).map(|(v, _, seq, _)| v.as_slice() == *v2 && *seq == *seq2).unwrap_or(false));
                if !held {
                    d.out.violation("C17", "accepted-write-not-stored", format!("put_mutable (seq {seq2}, cas {:?}, relation `{name}`, phase {phase}) returned Ok but no storing node was ever sent the item: every node still holds {:?}", cas2, d.net.peers.iter().filter_map(|p| p.muts.get(item.target()).map(|(v, _, seq, _)| (*seq, String::from_utf8_lossy(v).to_string()))).collect::<Vec<_>>()));
                }
            }
            d.finish();
            d.out.mark_distinct(fnv(format!("D{phase}{name}").as_bytes()));
            d.out.count(&format!("c17-phase{phase}-{want}"));
            d.s.shutdown();
        }
    }
    // 301 / 302 majorities among the storing nodes; never for immutable puts
    for (code, n_err, n, mutable, want) in [(301, 3usize, 5usize, true, "cas-failed/ok"), (302, 3, 5, true, "not-most-recent/ok"), (301, 5, 5, true, "cas-failed"), (302, 5, 5, true, "not-most-recent"), (301, 2, 5, true, "ok"), (301, 5, 5, false, "timeout"), (302, 3, 5, false, "ok")] {
        t0 += 10_000_000_000_000;
        let mut net = VNet::new(&mut rng, n, true);
        for p in net.peers.iter_mut().take(n_err) {
            p.put_reply = code;
        }
        let boot = vec![net.peers[0].addr];
        let mut d = Driver::new(out, rng.next(), net);
        d.begin("c", &boot, None, rng.next() % 1_000_000 + 1, t0);
        d.run_for(2 * SEC, 10 * MS);
        if mutable {
            let c = put_mut_call(9, 5, b"first", None, Some(4));
            d.api(format!("{c} expect={want}"));
        } else {
            d.api(format!("put_imm v=0102 expect={want} prop=C17"));
        }
        d.settle(20 * SEC, 10 * MS);
        d.finish();
        d.out.mark_distinct(fnv(format!("D3xx{code}{n_err}{mutable}").as_bytes()));
        d.s.shutdown();
    }
    // ---- D5 (C08, C17): one of three storing nodes holds a newer seq (and rejects the write with 302, or with 301
    //      when the write carries a cas), the other two accept: no majority rejected the put, it returns Ok
    for with_cas in [false, true] {
        t0 += 10_000_000_000_000;
        let mut net = VNet::new(&mut rng, 3, true);
        let newer = MutableItem::new(&key_from_seed(9), b"held by one node", 7, Some(b"d5"));
        net.peers[2].muts.insert(*newer.target(), (newer.value().to_vec(), *newer.key(), newer.seq(), *newer.signature()));
        net.peers[2].put_reply = if with_cas { 301 } else { 302 };
        let boot = vec![net.peers[0].addr];
        let mut d = Driver::new(out, rng.next(), net);
        d.begin("c", &boot, None, rng.next() % 1_000_000 + 1, t0);
        d.run_for(2 * SEC, 10 * MS);
        let call = put_mut_call(9, 5, b"written to the others", Some(b"d5"), if with_cas { Some(4) } else { None });
        d.api(format!("{call} expect=ok prop=C08"));
        d.settle(20 * SEC, 10 * MS);
        d.finish();
        d.out.mark_distinct(fnv(format!("D5{with_cas}").as_bytes()));
        d.s.shutdown();
    }
    // ---- E: requests arriving at a client-mode node and at a server-mode node (C18)
    for mode in ["c", "s"] {
        for with_boot in [false, true] {
            t0 += 10_000_000_000_000;
            let net = VNet::new(&mut rng, 6, true);
            let boot = if with_boot { vec![net.peers[0].addr] } else { vec![] };
            let mut d = Driver::new(out, rng.next(), net);
            d.begin(mode, &boot, None, rng.next() % 1_000_000 + 1, t0);
            d.run_for(SEC, 10 * MS);
            d.run("snap".into());
            let target = Id::from_bytes(rng.id20()).expect("id");
            for k in 0..6usize {
                let ro = k % 2 == 1;
                let from = SocketAddrV4::new(Ipv4Addr::new(10, 9, 0, 1 + k as u8), 6881);
                let rid = Id::from_bytes(rng.id20()).expect("id");
                d.inject_request(from, rid, RequestTypeSpecific::Ping, ro);
                d.inject_request(from, rid, RequestTypeSpecific::FindNode(FindNodeRequestArguments { target: rid }), ro);
                d.inject_request(from, rid, RequestTypeSpecific::GetPeers(GetPeersRequestArguments { info_hash: target }), ro);
                d.inject_request(from, rid, RequestTypeSpecific::GetValue(GetValueRequestArguments { target, seq: None, salt: None }), ro);
                d.inject_request(from, rid, RequestTypeSpecific::Put(PutRequest { token: vec![1, 2, 3, 4].into_boxed_slice(), put_request_type: PutRequestSpecific::PutImmutable(PutImmutableRequestArguments { target: imm_target(b"x"), v: b"x".to_vec().into_boxed_slice() }) }), ro);
                d.run_for(100 * MS, 10 * MS);
            }
            d.run("snap".into());
            // replies flagged read-only are ignored: the only holder of a value answers with ro=1
            let v = b"held by a read-only responder".to_vec();
            let t = imm_target(&v);
            for p in d.net.peers.iter_mut() {
                p.read_only = true;
                p.imm.insert(t, v.clone());
            }
            d.api(format!("get_imm t={} expect=none prop=C18", hex(t.as_bytes())));
            d.settle(20 * SEC, 10 * MS);
            d.run("snap".into());
            d.finish();
            d.out.mark_distinct(fnv(format!("E{mode}{with_boot}").as_bytes()));
            d.s.shutdown();
        }
    }
    // ---- E3 (C15, C03): a server node lives through its 15-minute table refresh while strangers look things
    //          up and write with the tokens they were given.  A token is good for at least five minutes after
    //          it was issued, whatever the node did in between (refresh, ping rounds, other requests): every
    //          write with a token issued less than five minutes ago is acknowledged
    for round in 0..(if thorough { 3 } else { 1 }) {
        t0 += 10_000_000_000_000;
        let net = VNet::new(&mut rng, 4, true);
        let boot = vec![net.peers[0].addr];
        let mut d = Driver::new(out, rng.next(), net);
        d.begin("s", &boot, None, rng.next() % 1_000_000 + 1, t0);
        d.run_for(2 * SEC, 10 * MS);
        let from = SocketAddrV4::new(Ipv4Addr::new(10, 9, 1, 7), 6881);
        let rid = Id::from_bytes(d.rng.id20()).expect("id");
        let ih = Id::from_bytes(d.rng.id20()).expect("id");
        // (minute, second) of each action, relative to the start; a lookup hands out a token, a write uses the
        // latest one
        let plan: [(u64, u64, &str); 12] = [(9, 50, "ping"), (14, 49, "lookup"), (14, 51, "ping"), (15, 10, "write"), (15, 20, "lookup"),
            (19, 55, "write"), (20, 2, "ping"), (20, 15, "write"), (24, 0, "lookup"), (26, 30, "ping"), (28, 50, "write"), (31, 0, "ping")];
        let start = verif::now_ns();
        let mut token: Option<(Vec<u8>, u64)> = None;
        for (m, sec, what) in plan.iter() {
            let at = start + (m * 60 + sec) * SEC + round as u64 * 7 * SEC;
            let now = verif::now_ns();
            if at > now {
                d.run_for(at - now, SEC);
            }
            let before = d.s.all_sent.len();
            match *what {
                "ping" => d.inject_request(from, rid, RequestTypeSpecific::Ping, false),
                "lookup" => d.inject_request(from, rid, RequestTypeSpecific::GetPeers(GetPeersRequestArguments { info_hash: ih }), false),
                _ => {
                    let Some((tok, _)) = &token else { continue };
                    d.inject_request(from, rid, RequestTypeSpecific::Put(PutRequest { token: tok.clone().into_boxed_slice(), put_request_type: PutRequestSpecific::AnnouncePeer(AnnouncePeerRequestArguments { info_hash: ih, port: 7000, implied_port: None }) }), false);
                }
            }
            d.run_for(50 * MS, 10 * MS);
            let replies: Vec<Sent> = d.s.all_sent[before..].iter().filter(|x| x.to == from).cloned().collect();
            match *what {
                "lookup" => {
                    for r in &replies {
                        if let MessageType::Response(ResponseSpecific::NoValues(a)) = r.msg.message_type() {
                            token = Some((a.token.to_vec(), verif::now_ns()));
                        }
                        if let MessageType::Response(ResponseSpecific::GetPeers(a)) = r.msg.message_type() {
                            token = Some((a.token.to_vec(), verif::now_ns()));
                        }
                    }
                }
                "write" => {
                    let age = token.as_ref().map(|(_, t)| verif::now_ns() - *t).unwrap_or(0);
                    let acked = replies.iter().any(|r| matches!(r.msg.message_type(), MessageType::Response(ResponseSpecific::Ping(_))));
                    if age < 300 * SEC && !acked {
                        d.out.violation("C15", "fresh-token-rejected", format!("an announce_peer with a token this node issued to the same address {} s ago was answered {:?}", age / SEC, replies.iter().map(|r| r.line.chars().take(90).collect::<String>()).collect::<Vec<_>>()));
                    }
                }
                _ => {}
            }
        }
        d.run("snap".into());
        d.finish();
        d.out.mark_distinct(fnv(format!("E3{round}").as_bytes()));
        d.s.shutdown();
    }
    // ---- E2: storing nodes that flag their answers to PUT requests read-only (C18): acknowledgements and
    //          errors flagged ro = 1 are ignored, so nothing was acknowledged
    for (code, mutable) in [(0i32, false), (0, true), (301, true), (302, true)] {
        t0 += 10_000_000_000_000;
        let mut net = VNet::new(&mut rng, 4, true);
        for p in net.peers.iter_mut() {
            p.ro_puts = true;
            p.put_reply = code;
        }
        let boot = vec![net.peers[0].addr];
        let mut d = Driver::new(out, rng.next(), net);
        d.begin("c", &boot, None, rng.next() % 1_000_000 + 1, t0);
        d.run_for(2 * SEC, 10 * MS);
        if mutable {
            let c = put_mut_call(9, 5, b"first", None, Some(4));
            d.api(format!("{c} expect=timeout prop=C18"));
        } else {
            d.api("put_imm v=0a0b0c expect=timeout prop=C18".to_string());
        }
        d.settle(20 * SEC, 10 * MS);
        d.finish();
        d.out.mark_distinct(fnv(format!("E2{code}{mutable}").as_bytes()));
        d.s.shutdown();
    }
    // ---- F: adaptive mode (C18): reachable at the voted address -> server after the next refresh;
    //         NATed (self-ping lost) -> stays a client
    //         (also with a single peer: one report of the address is enough)
    for (reachable, explicit_server, n) in [(true, false, 6usize), (false, false, 6), (true, true, 6), (true, false, 1), (false, false, 1), (false, true, 6), (false, true, 1)] {
        t0 += 10_000_000_000_000;
        let net = VNet::new(&mut rng, n, false);
        let boot = vec![net.peers[0].addr];
        let mut d = Driver::new(out, rng.next(), net);
        d.reachable = reachable;
        let pub_ip = Ipv4Addr::new(45, 7, 7, 7);
        d.begin(if explicit_server { "s" } else { "c" }, &boot, Some(pub_ip), rng.next() % 1_000_000 + 1, t0);
        d.run_for(3 * SEC, 10 * MS);
        d.api("info".into());
        d.run("snap".into());
        // more than 15 virtual minutes, in 1 s steps
        d.run_for(16 * 60 * SEC, SEC);
        d.api("info".into());
        d.run_for(3 * SEC, 10 * MS);
        d.run("snap".into());
        let snap = d.s.last_snapshot.clone();
        if let Some(sn) = snap {
            let want_server = reachable || explicit_server;
            if sn.server_mode != want_server {
                d.out.violation("C18", if want_server { "adaptive-never-server" } else { "nat-became-server" }, format!("after 16 minutes a node whose voted address is {} is in {} mode (firewalled={}, public_address={:?})", if reachable { "reachable" } else { "not reachable" }, if sn.server_mode { "server" } else { "client" }, sn.firewalled, sn.public_address));
            }
            if reachable && sn.firewalled {
                d.out.violation("C18", "reachable-still-firewalled", "the node is reachable at the address its peers report but still considers itself firewalled".into());
            }
            // (C13) a node that was promoted to server mode is discoverable: servers add the requester of a
            // find_node that is not flagged read-only, and nothing else.  The refresh that promotes the node
            // looks its own id up, so every server it knows (at most 20 here) hears such a request from it
            if reachable && !explicit_server && sn.server_mode {
                for p in d.net.peers.iter().filter(|p| p.alive) {
                    if sn.routing_table.iter().any(|(_, a, _)| *a == p.addr)
                        && !d.s.all_sent.iter().any(|x| x.to == p.addr && !x.msg.read_only() && x.key.as_deref().map(|k| k.contains("/find_node/")).unwrap_or(false))
                    {
                        d.out.violation("C13", "promoted-server-not-announced", format!("the node switched to server mode, but {} — which it has in its routing table — has only ever received read-only find_node requests from it: no server it knows can add it before the next table refresh, 15 minutes later", addr_s(&p.addr)));
                        break;
                    }
                }
            }
        }
        d.finish();
        d.out.mark_distinct(fnv(format!("F{reachable}{explicit_server}{n}").as_bytes()));
        d.s.shutdown();
    }
    // ---- F4 (C18): the same reachable adaptive node, but one of its two bootstrap addresses is dead and the
    //          application looks things up at once: the bootstrap lookup and the calls issued in the first
    //          iteration all wait for the dead node and end in the same tick, each bringing the votes it
    //          collected.  The first of them reports the address; the self-ping must still go out
    for lookups in [1usize, 3] {
        t0 += 10_000_000_000_000;
        let net = VNet::new(&mut rng, 6, false);
        let dead = SocketAddrV4::new(Ipv4Addr::new(51, 9, 9, 9), 6881);
        let boot = vec![net.peers[0].addr, dead];
        let mut d = Driver::new(out, rng.next(), net);
        d.reachable = true;
        d.begin("c", &boot, Some(Ipv4Addr::new(45, 7, 7, 8)), rng.next() % 1_000_000 + 1, t0);
        for _ in 0..lookups {
            let t = Id::from_bytes(d.rng.id20()).expect("id");
            d.api(format!("get_peers ih={}", hex(t.as_bytes())));
        }
        d.run_for(3 * SEC, 10 * MS);
        d.run("snap".into());
        d.run_for(16 * 60 * SEC, SEC);
        d.api("info".into());
        d.run_for(3 * SEC, 10 * MS);
        d.run("snap".into());
        if let Some(sn) = d.s.last_snapshot.clone() {
            if !sn.server_mode {
                d.out.violation("C18", "adaptive-never-server", format!("after 16 minutes a node that is reachable at the address its peers report is still in client mode (firewalled={}, public_address={:?}); {lookups} lookups were issued while it bootstrapped from a list with one dead address", sn.firewalled, sn.public_address));
            }
            if sn.firewalled {
                d.out.violation("C18", "reachable-still-firewalled", "the node is reachable at the address its peers report but still considers itself firewalled".into());
            }
        }
        d.finish();
        d.out.mark_distinct(fnv(format!("F4{lookups}").as_bytes()));
        d.s.shutdown();
    }
    // ---- G: hours of uptime (C14): steady peers, a peer that goes silent, one that comes back
    for round in 0..(if thorough { 4 } else { 2 }) {
        t0 += 10_000_000_000_000;
        let net = VNet::new(&mut rng, if round % 2 == 0 { 8 } else { 60 }, true);
        let boot = vec![net.peers[0].addr];
        let mut d = Driver::new(out, rng.next(), net);
        d.begin("c", &boot, None, rng.next() % 1_000_000 + 1, t0);
        d.run_for(3 * SEC, 10 * MS);
        d.run("snap".into());
        for minute in 0..(if thorough { 120 } else { 50 }) {
            if minute == 7 {
                d.net.peers[3].alive = false;
            }
            if minute == 33 {
                d.net.peers[3].alive = true;
                d.net.peers[3].id = Id::from_bytes(d.rng.id20()).expect("id");
            }
            d.run_for(60 * SEC, SEC);
            if minute % 5 == 4 {
                d.run("snap".into());
            }
            if minute % 7 == 2 {
                // the bootstrap list for the next session: the non-stale entries of both tables
                d.api("to_bootstrap".into());
            }
            if minute % 11 == 3 {
                let t = Id::from_bytes(d.rng.id20()).expect("id");
                d.api(format!("find_node t={}", hex(t.as_bytes())));
            }
        }
        d.finish();
        d.out.mark_distinct(fnv(format!("G{round}").as_bytes()));
        d.s.shutdown();
    }
    // ---- G4 (C14): a known peer keeps its id and IP but moves to another UDP port (NAT rebinding, restart)
    //          and goes on answering from there: once it has answered from the new port it is in the table at
    //          that address, for as long as it keeps answering
    for round in 0..(if thorough { 3 } else { 1 }) {
        t0 += 10_000_000_000_000;
        let mut net = VNet::new(&mut rng, 8 + 4 * round, round % 2 == 0);
        // ordinary clients without a version field: the signed-peers table stays empty, so a
        // get_signed_peers lookup starts from the bootstrap node and asks whoever that node lists, at
        // the address it lists
        for p in net.peers.iter_mut() {
            p.legacy = true;
        }
        let boot = vec![net.peers[0].addr];
        let mut d = Driver::new(out, rng.next(), net);
        d.begin("c", &boot, None, rng.next() % 1_000_000 + 1, t0);
        d.run_for(3 * SEC, 10 * MS);
        d.run("snap".into());
        let old = d.net.peers[3].addr;
        let moved = SocketAddrV4::new(*old.ip(), 7000 + round as u16);
        for minute in 0..(if thorough { 60 } else { 45 }) {
            if minute == 4 {
                d.net.by_addr.remove(&old);
                d.net.by_addr.insert(moved, 3);
                d.net.peers[3].addr = moved;
            }
            d.run_for(60 * SEC, SEC);
            if minute % 11 == 3 || minute == 6 {
                let t = Id::from_bytes(d.rng.id20()).expect("id");
                d.api(format!("get_speers ih={}", hex(t.as_bytes())));
                d.settle(20 * SEC, 10 * MS);
            }
            if minute % 5 == 4 || minute == 6 {
                d.run("snap".into());
                let now = verif::now_ns();
                if let (Some(t), Some(sn)) = (d.s.answered.get(&moved).copied(), d.s.last_snapshot.clone()) {
                    if now - t < 15 * 60 * SEC && !sn.routing_table.iter().any(|(_, a, _)| *a == moved) {
                        let listed: Vec<String> = sn.routing_table.iter().filter(|(i, _, _)| *i == d.net.peers[3].id).map(|(_, a, _)| addr_s(a)).collect();
                        d.out.violation("C14", "moved-peer-not-relearned", format!("{}@{moved} answered one of our requests {} s ago from its new port but the routing table does not list it there (entries for that id: {:?})", hex(d.net.peers[3].id.as_bytes()), (now - t) / SEC, listed));
                    }
                }
            }
        }
        d.finish();
        d.out.mark_distinct(fnv(format!("G4{round}").as_bytes()));
        d.s.shutdown();
    }
    // ---- G3 (C14): a server with a bootstrap list hears find_node requests from strangers that support
    //          signed announcements (they enter the signed-peers table only) and never answer a ping:
    //          they are gone from that table too within some twenty minutes
    for round in 0..(if thorough { 3 } else { 1 }) {
        t0 += 10_000_000_000_000;
        let net = VNet::new(&mut rng, 6 + 10 * round, true);
        let boot = vec![net.peers[0].addr];
        let mut d = Driver::new(out, rng.next(), net);
        d.begin("s", &boot, None, rng.next() % 1_000_000 + 1, t0);
        d.run_for(3 * SEC, 10 * MS);
        for j in 0..3u8 {
            let from = SocketAddrV4::new(Ipv4Addr::new(10, 77, 0, 1 + j), 6881);
            let rid = Id::from_bytes(d.rng.id20()).expect("id");
            d.inject_request(from, rid, RequestTypeSpecific::FindNode(FindNodeRequestArguments { target: rid }), false);
        }
        d.run_for(2 * SEC, 10 * MS);
        d.run("snap".into());
        let strangers = d.s.last_snapshot.as_ref().map(|sn| sn.signed_peers_routing_table.iter().filter(|(_, a, _)| a.ip().octets()[1] == 77).count()).unwrap_or(0);
        d.out.count(&format!("strangers-in-signed-table={strangers}"));
        for minute in 0..32 {
            d.run_for(60 * SEC, SEC);
            if minute % 5 == 4 {
                d.run("snap".into());
            }
        }
        d.finish();
        d.out.mark_distinct(fnv(format!("G3{round}").as_bytes()));
        d.s.shutdown();
    }
    // ---- G2: every peer goes silent until the table is empty, then the bootstrap node comes back
    for round in 0..(if thorough { 2 } else { 1 }) {
        t0 += 10_000_000_000_000;
        let net = VNet::new(&mut rng, 4 + round, true);
        let boot = vec![net.peers[0].addr];
        let mut d = Driver::new(out, rng.next(), net);
        d.begin("c", &boot, None, rng.next() % 1_000_000 + 1, t0);
        d.run_for(3 * SEC, 10 * MS);
        d.run("snap".into());
        for p in d.net.peers.iter_mut() {
            p.alive = false;
        }
        for minute in 0..27 {
            d.run_for(60 * SEC, SEC);
            if minute % 5 == 4 {
                d.run("snap".into());
            }
        }
        d.net.peers[0].alive = true;
        for minute in 0..8 {
            d.run_for(60 * SEC, SEC);
            if minute % 2 == 1 {
                d.run("snap".into());
            }
        }
        let snap = d.s.last_snapshot.clone();
        if let Some(sn) = snap {
            if sn.routing_table.is_empty() {
                d.out.violation("C14", "table-stays-empty", "the bootstrap node has been reachable again for 8 minutes but the routing table is still empty".into());
            }
        }
        d.finish();
        d.out.mark_distinct(fnv(format!("G2{round}").as_bytes()));
        d.s.shutdown();
    }
    // ---- H: lossy, duplicating, late networks and overlapping calls on equal and different
    //         targets (C06): every call must return, once
    for round in 0..(if thorough { 40 } else { 8 }) {
        t0 += 10_000_000_000_000;
        let n = *rng.pick(&[2usize, 5, 12, 30]);
        let mut net = VNet::new(&mut rng, n, true);
        for p in net.peers.iter_mut().skip(1) {
            p.mode = *rng.pick(&[0u8, 0, 0, 1, 2, 3]);
            p.put_reply = *rng.pick(&[0i32, 0, 0, 203, 301, 302, 205]);
        }
        let boot = vec![net.peers[0].addr];
        let mut d = Driver::new(out, rng.next(), net);
        d.drop_pct = *rng.pick(&[0u64, 10, 30, 70]);
        d.dup_pct = *rng.pick(&[0u64, 20]);
        d.late_pct = *rng.pick(&[0u64, 20]);
        d.begin("c", &boot, None, rng.next() % 1_000_000 + 1, t0);
        d.run_for(SEC, 10 * MS);
        let targets: Vec<Id> = (0..2).map(|_| Id::from_bytes(rng.id20()).expect("id")).collect();
        let v = b"shared value".to_vec();
        let vt = imm_target(&v);
        for _ in 0..(6 + rng.below(10)) {
            let t = *rng.pick(&targets);
            let call = match rng.below(9) {
                0 => format!("find_node t={}", hex(t.as_bytes())),
                1 => format!("closest t={}", hex(t.as_bytes())),
                2 => format!("get_imm t={}", hex(vt.as_bytes())),
                3 => format!("put_imm v={}", hex(&v)),
                4 => format!("get_peers ih={}", hex(t.as_bytes())),
                5 => format!("announce ih={} port=implied", hex(t.as_bytes())),
                6 => put_mut_call(9, rng.below(3) as i64, b"m", None, None),
                7 => format!("get_mut k={} salt=none seq=none", hex(key_from_seed(9).verifying_key().as_bytes())),
                _ => format!("find_node t={}", hex(vt.as_bytes())),
            };
            d.api(call);
            for _ in 0..rng.below(12) {
                d.pump(5 * MS);
            }
        }
        d.finish();
        d.out.mark_distinct(d.rng.0 ^ 0x11 ^ round as u64);
        d.s.shutdown();
    }
    // ---- J: a find_node on the target of a put that is storing, then a superseding put (C06)
    for with_find_node in [true, false] {
        t0 += 10_000_000_000_000;
        let mut net = VNet::new(&mut rng, 4, true);
        for p in net.peers.iter_mut() {
            p.put_delay = 300 * MS;
        }
        let boot = vec![net.peers[0].addr];
        let mut d = Driver::new(out, rng.next(), net);
        d.begin("c", &boot, None, rng.next() % 1_000_000 + 1, t0);
        d.run_for(2 * SEC, 10 * MS);
        let first = put_mut_call(9, 5, b"first", None, None);
        d.api(format!("{first} expect=ok/err:no-closest-nodes"));
        // until the first put is storing
        let mut guard = 0;
        while !d.s.all_sent.iter().any(|x| x.key.as_deref().map(|k| k.contains("/put/")).unwrap_or(false)) && guard < 4000 {
            d.pump(MS);
            guard += 1;
        }
        let item = MutableItem::new(&key_from_seed(9), b"first", 5, None);
        if with_find_node {
            d.api(format!("find_node t={}", hex(item.target().as_bytes())));
            d.run_for(100 * MS, 5 * MS);
        }
        let second = put_mut_call(9, 6, b"second", None, Some(5));
        d.api(second);
        d.settle(20 * SEC, 10 * MS);
        d.finish();
        d.out.mark_distinct(fnv(format!("J{with_find_node}").as_bytes()));
        d.s.shutdown();
    }
    // ---- K: a public network of BEP42-secure and insecure ids with more candidates than k (C07), seen
    //         from a node whose public address is not configured: it learns it from its peers' votes,
    //         confirms it by self-ping and re-keys without forgetting the nodes it knows (C13)
    for round in 0..(if thorough { 6 } else { 2 }) {
        t0 += 10_000_000_000_000;
        let n = [45usize, 70, 30][round % 3];
        let mut net = VNet::new(&mut rng, n, false);
        for (i, p) in net.peers.iter_mut().enumerate() {
            if i % 2 == 0 {
                let r = rng.below(256) as u8;
                p.id = Id::from_bytes(crate::streams::closest::secure_id(&mut rng, *p.addr.ip(), r)).expect("id");
            }
        }
        let boot = vec![net.peers[0].addr];
        let mut d = Driver::new(out, rng.next(), net);
        d.reachable = true;
        d.begin_at("c", &boot, None, Some(Ipv4Addr::new(45, 9, 9, 9)), rng.next() % 1_000_000 + 1, t0);
        // a caller attached to the bootstrap lookup itself (it started from explicitly visited addresses)
        if let Some(own) = d.s.own_id {
            d.lookup_and_check_closure_from(format!("find_node t={}", hex(own.as_bytes())), &own, true);
        }
        // step by step through the bootstrap, looking at the table after every step: the node confirms its
        // address and re-keys here, and must still know the nodes it knew
        let mut last_size = 0usize;
        let mut last_fw = true;
        for _ in 0..(if thorough { 300 } else { 150 }) {
            d.pump(5 * MS);
            d.run("snap".into());
            if let Some(sn) = d.s.last_snapshot.clone() {
                let size = sn.routing_table.len();
                if last_fw && !sn.firewalled && last_size >= 2 && size == 0 {
                    d.out.violation("C13", "rekey-forgets-known-nodes", format!("the node confirmed its address {:?} and took a BEP42 id for it, and its routing table went from {last_size} nodes to none", sn.public_address));
                }
                last_size = size;
                last_fw = sn.firewalled;
            }
        }
        d.run_for(2 * SEC, 10 * MS);
        d.run("snap".into());
        for k in 0..(if thorough { 8 } else { 4 }) {
            let t = Id::from_bytes(rng.id20()).expect("id");
            let call = match k % 4 {
                1 => format!("find_node t={}", hex(t.as_bytes())),
                2 => format!("get_peers ih={}", hex(t.as_bytes())),
                _ => format!("get_imm t={}", hex(t.as_bytes())),
            };
            d.lookup_and_check_closure(call, &t);
        }
        // every peer holds the item with seq 2; asked for "more recent than 5" they all answer
        // no-more-recent-value, and the nodes listed in those answers count like any others
        {
            let item = MutableItem::new(&key_from_seed(9), b"old", 2, None);
            for p in d.net.peers.iter_mut() {
                p.muts.insert(*item.target(), (item.value().to_vec(), *item.key(), item.seq(), *item.signature()));
            }
            let t = *item.target();
            d.lookup_and_check_closure(format!("get_mut k={} salt=none seq=5", hex(key_from_seed(9).verifying_key().as_bytes())), &t);
        }
        let v = format!("stored in a mixed network {round}").into_bytes();
        d.api(format!("put_imm v={}", hex(&v)));
        d.settle(20 * SEC, 10 * MS);
        d.api(format!("get_imm t={}", hex(imm_target(&v).as_bytes())));
        d.settle(20 * SEC, 10 * MS);
        let ih = Id::from_bytes(rng.id20()).expect("id");
        d.api(format!("announce ih={} port=implied", hex(ih.as_bytes())));
        d.settle(20 * SEC, 10 * MS);
        d.run("snap".into());
        d.finish();
        d.out.mark_distinct(fnv(format!("K{round}").as_bytes()));
        d.out.count("mixed-secure-network");
        d.s.shutdown();
    }
    // ---- K2 (C06): calls on the node's own id are in flight at the very moment the confirming self-ping
    //          makes the node take a new id for its address: they still return
    for round in 0..(if thorough { 6 } else { 2 }) {
        t0 += 10_000_000_000_000;
        let net = VNet::new(&mut rng, 12 + 9 * (round % 2), false);
        let boot = vec![net.peers[0].addr];
        let mut d = Driver::new(out, rng.next(), net);
        d.reachable = true;
        d.begin_at("c", &boot, None, Some(Ipv4Addr::new(45, 9, 9, 9)), rng.next() % 1_000_000 + 1, t0);
        let mut asked = false;
        for _ in 0..(if thorough { 600 } else { 400 }) {
            d.pump(MS);
            d.run("snap".into());
            if asked {
                continue;
            }
            if let (Some(sn), Some(own)) = (d.s.last_snapshot.clone(), d.s.own_id) {
                if sn.public_address.is_some() && sn.firewalled {
                    // the votes are in and the self-ping is on its way back
                    d.api(format!("find_node t={}", hex(own.as_bytes())));
                    if round % 2 == 1 {
                        d.api(format!("get_imm t={}", hex(own.as_bytes())));
                        d.api(format!("put_imm v={}", hex(b"stored while the node takes a new id")));
                    }
                    asked = true;
                }
            }
        }
        d.out.count(if asked { "calls-across-rekey" } else { "no-rekey-seen" });
        d.settle(20 * SEC, 10 * MS);
        d.run("snap".into());
        d.finish();
        d.out.mark_distinct(fnv(format!("K2{round}").as_bytes()));
        d.s.shutdown();
    }
    // ---- K3 (C07): a chain of peers with narrow views.  The bootstrap node knows only N1, which holds the
    //          value and knows only C1, which is slow and knows the two closest nodes D1 and D2.  The caller of
    //          get_immutable is content with the first value and stops listening; the lookup must go on to
    //          the end of the chain all the same — its result is what a later put of the target stores to
    for round in 0..(if thorough { 4 } else { 2 }) {
        t0 += 10_000_000_000_000;
        let v = format!("value at the head of a chain {round}").into_bytes();
        let target = imm_target(&v);
        let mut net = VNet::new(&mut rng, 5, true);
        for (j, p) in net.peers.iter_mut().enumerate() {
            // ever closer to the target along the chain
            let mut idb = *target.as_bytes();
            match j {
                0 => idb[0] ^= 0x80,
                1 => idb[1] ^= 0x80,
                2 => idb[5] ^= 0x80,
                3 => idb[19] ^= 0x01,
                _ => idb[19] ^= 0x02,
            }
            p.id = Id::from_bytes(idb).expect("id");
        }
        let chain: [Vec<usize>; 5] = [vec![1], vec![2], vec![3, 4], vec![], vec![]];
        for (j, p) in net.peers.iter_mut().enumerate() {
            p.chain_for = Some((target, chain[j].clone()));
        }
        net.peers[1].imm.insert(target, v.clone());
        net.peers[2].extra_delay = 150 * MS;
        if round % 2 == 1 {
            net.peers[3].extra_delay = 80 * MS;
        }
        let boot = vec![net.peers[0].addr];
        let mut d = Driver::new(out, rng.next(), net);
        d.begin("c", &boot, None, rng.next() % 1_000_000 + 1, t0);
        d.run_for(2 * SEC, 10 * MS);
        d.lookup_and_check_closure(format!("get_imm t={}", hex(target.as_bytes())), &target);
        d.run_for(2 * SEC, 10 * MS);
        // what the finished lookup found is where the value is written next
        let c = d.api(format!("put_imm v={}", hex(&v)));
        d.settle(20 * SEC, 10 * MS);
        let stored_to: std::collections::HashSet<SocketAddrV4> = d.s.all_sent.iter().filter(|x| x.key.as_deref().map(|k| k.contains("/put/")).unwrap_or(false)).map(|x| x.to).collect();
        let ok = d.results(c).first().map(|r| r.contains(":ok:")).unwrap_or(false);
        for j in [3usize, 4] {
            if ok && !stored_to.contains(&d.net.peers[j].addr) {
                d.out.violation("C07", "closest-responder-not-written", format!("put_immutable right after a lookup of its target did not write to {}, one of the two closest nodes that lookup was told about", addr_s(&d.net.peers[j].addr)));
            }
        }
        d.finish();
        d.out.mark_distinct(fnv(format!("K3{round}").as_bytes()));
        d.out.count("chain-of-narrow-views");
        d.s.shutdown();
    }
    // ---- K4 (C16): the newest version of a mutable item is held by the node at the end of a chain of narrow
    //          views — it arrives in the answer that completes the lookup — or by the only node there is;
    //          get_mutable_most_recent returns it
    for round in 0..(if thorough { 6 } else { 3 }) {
        t0 += 10_000_000_000_000;
        let old = MutableItem::new(&key_from_seed(9), b"version one", 1, None);
        let newest = MutableItem::new(&key_from_seed(9), b"version two", 2, None);
        let target = *old.target();
        let n = if round % 3 == 2 { 1 } else { 4 };
        let mut net = VNet::new(&mut rng, n, true);
        for (j, p) in net.peers.iter_mut().enumerate() {
            let mut idb = *target.as_bytes();
            match j {
                0 => idb[0] ^= 0x80,
                1 => idb[1] ^= 0x80,
                2 => idb[5] ^= 0x80,
                _ => idb[19] ^= 0x01,
            }
            p.id = Id::from_bytes(idb).expect("id");
        }
        let chain: [Vec<usize>; 4] = [vec![1], vec![2], vec![3], vec![]];
        for (j, p) in net.peers.iter_mut().enumerate() {
            p.chain_for = Some((target, if n == 1 { vec![] } else { chain[j].clone() }));
        }
        let last = n - 1;
        if n > 1 {
            net.peers[1].muts.insert(target, (old.value().to_vec(), *old.key(), old.seq(), *old.signature()));
            if round % 3 == 1 {
                net.peers[2].muts.insert(target, (old.value().to_vec(), *old.key(), old.seq(), *old.signature()));
            }
        }
        net.peers[last].muts.insert(target, (newest.value().to_vec(), *newest.key(), newest.seq(), *newest.signature()));
        let boot = vec![net.peers[0].addr];
        let mut d = Driver::new(out, rng.next(), net);
        d.begin("c", &boot, None, rng.next() % 1_000_000 + 1, t0);
        d.run_for(2 * SEC, 10 * MS);
        let c = d.api(format!("get_mut_recent k={} salt=none", hex(key_from_seed(9).verifying_key().as_bytes())));
        d.settle(20 * SEC, 10 * MS);
        let got = d.results(c);
        let delivered_newest = d.delivered.iter().any(|(_, _, mt)| matches!(mt, MessageType::Response(ResponseSpecific::GetMutable(a)) if a.seq == 2));
        if delivered_newest && !got.iter().any(|r| r.contains(":recent:") && r.contains("seq=2 ")) {
            d.out.violation("C16", "newest-item-missed", format!("an authentic item with seq 2 reached the node in an answer to the lookup, but get_mutable_most_recent returned {:?}", got));
        }
        d.finish();
        d.out.mark_distinct(fnv(format!("K4{round}").as_bytes()));
        d.out.count("newest-at-the-end-of-the-chain");
        d.s.shutdown();
    }
    // ---- K5 (C16): the newest version arrives in an answer that is slower than the initial 500 ms request
    //          timeout but within the timeout in force when it arrives: the socket's timeout adapts to the round
    //          trips it measures, and a still slower answer of another node (600 ms) has just raised it to
    //          600 ms.  A (600 ms) and X (55 ms) are asked first; X lists B and Y; B holds the newest version
    //          and answers after 560 ms, i.e. 10 ms after A; Y lists C, whose pending request keeps the lookup
    //          running meanwhile.  The socket accepts B's answer, so the item is delivered to the lookup
    for round in 0..(if thorough { 3 } else { 1 }) {
        t0 += 10_000_000_000_000;
        let old = MutableItem::new(&key_from_seed(9), b"version one", 1, None);
        let newest = MutableItem::new(&key_from_seed(9), b"version two", 2, None);
        let target = *old.target();
        let mut net = VNet::new(&mut rng, 5, true);
        let chain: [Vec<usize>; 5] = [vec![], vec![2, 3], vec![], vec![4], vec![]];
        for (j, p) in net.peers.iter_mut().enumerate() {
            p.chain_for = Some((target, chain[j].clone()));
        }
        for j in [0usize, 4] {
            net.peers[j].muts.insert(target, (old.value().to_vec(), *old.key(), old.seq(), *old.signature()));
        }
        net.peers[2].muts.insert(target, (newest.value().to_vec(), *newest.key(), newest.seq(), *newest.signature()));
        let boot = vec![net.peers[0].addr, net.peers[1].addr];
        let mut d = Driver::new(out, rng.next(), net);
        d.begin("c", &boot, None, rng.next() % 1_000_000 + 1, t0);
        d.run_for(2 * SEC, 10 * MS);
        let l = d.latency;
        let shift = round as u64 * 3 * MS;
        d.net.peers[0].extra_delay = 600 * MS - l;
        d.net.peers[1].extra_delay = 50 * MS;
        d.net.peers[2].extra_delay = 560 * MS - l - shift;
        d.net.peers[3].extra_delay = 90 * MS - l;
        d.net.peers[4].extra_delay = 480 * MS - l;
        let c = d.api(format!("get_mut_recent k={} salt=none", hex(key_from_seed(9).verifying_key().as_bytes())));
        d.settle(20 * SEC, 10 * MS);
        let got = d.results(c);
        if !got.iter().any(|r| r.contains(":recent:") && r.contains("seq=2 ")) {
            d.out.violation("C16", "newest-item-missed", format!("the answer carrying seq 2 arrived {} ms after its request, within the request timeout of 600 ms in force at that moment, but get_mutable_most_recent returned {:?}", (560 * MS - shift) / MS, got.iter().map(|r| r.chars().take(100).collect::<String>()).collect::<Vec<_>>()));
        }
        d.finish();
        d.out.mark_distinct(fnv(format!("K5{round}").as_bytes()));
        d.s.shutdown();
    }
    // ---- K6 (C16): get_mutable_most_recent joins the lookup of the node's OWN put of the same key.  The put
    //          (seq 3) is still looking up; a fast node has already answered with seq 10, a slow one will answer
    //          with seq 5.  The joining caller is handed the node's own item and everything the lookup has
    //          collected so far, so it returns seq 10
    for round in 0..(if thorough { 3 } else { 1 }) {
        t0 += 10_000_000_000_000;
        let newest = MutableItem::new(&key_from_seed(9), b"ten", 10, None);
        let older = MutableItem::new(&key_from_seed(9), b"five", 5, None);
        let target = *newest.target();
        let mut net = VNet::new(&mut rng, 3 + round, true);
        net.peers[0].muts.insert(target, (newest.value().to_vec(), *newest.key(), newest.seq(), *newest.signature()));
        for p in net.peers.iter_mut().skip(1) {
            p.muts.insert(target, (older.value().to_vec(), *older.key(), older.seq(), *older.signature()));
            p.extra_delay = 400 * MS;
            p.put_reply = 302;
        }
        net.peers[0].put_reply = 302;
        let boot = vec![net.peers[0].addr];
        let mut d = Driver::new(out, rng.next(), net);
        d.begin("c", &boot, None, rng.next() % 1_000_000 + 1, t0);
        d.run_for(2 * SEC, 10 * MS);
        let put = put_mut_call(9, 3, b"three", None, None);
        d.api(put);
        d.run_for(150 * MS, 10 * MS);
        let c = d.api(format!("get_mut_recent k={} salt=none", hex(key_from_seed(9).verifying_key().as_bytes())));
        d.settle(20 * SEC, 10 * MS);
        let got = d.results(c);
        let delivered_newest = d.delivered.iter().any(|(_, _, mt)| matches!(mt, MessageType::Response(ResponseSpecific::GetMutable(a)) if a.seq == 10));
        if delivered_newest && !got.iter().any(|r| r.contains(":recent:") && r.contains("seq=10 ")) {
            d.out.violation("C16", "newest-item-missed", format!("the lookup this call joined had already been handed an authentic item with seq 10, but get_mutable_most_recent returned {:?}", got.iter().map(|r| r.chars().take(90).collect::<String>()).collect::<Vec<_>>()));
        }
        d.finish();
        d.out.mark_distinct(fnv(format!("K6{round}").as_bytes()));
        d.s.shutdown();
    }
    // ---- S2 (C05, C07): hundreds of peers whose answers list 75 nodes picked at random: one lookup collects
    //          several hundred distinct candidates
    for round in 0..(if thorough { 2 } else { 1 }) {
        t0 += 10_000_000_000_000;
        let mut net = VNet::new(&mut rng, 520 + 80 * round, false);
        net.list_k = 75;
        net.list_random = true;
        let boot = vec![net.peers[0].addr];
        let mut d = Driver::new(out, rng.next(), net);
        d.begin(if round == 0 { "s" } else { "c" }, &boot, Some(Ipv4Addr::new(45, 7, 8, 8)), rng.next() % 1_000_000 + 1, t0);
        d.run_for(5 * SEC, 10 * MS);
        let t = Id::from_bytes(d.rng.id20()).expect("id");
        d.api(format!("find_node t={}", hex(t.as_bytes())));
        d.settle(60 * SEC, 10 * MS);
        d.api("info".into());
        d.settle(5 * SEC, 10 * MS);
        d.run("snap".into());
        d.finish();
        d.out.mark_distinct(fnv(format!("S2{round}").as_bytes()));
        d.s.shutdown();
    }
    // ---- O: answers of the wrong shape (C05, C06, C08): nodes that answer lookups with a KRPC error or a bare
    //         ping response, and put requests with a find_node- or no-values-shaped response — neither an
    //         acknowledgement nor an error.  Lookups go on without them; such puts count nothing
    for round in 0..(if thorough { 6 } else { 3 }) {
        t0 += 10_000_000_000_000;
        let mut net = VNet::new(&mut rng, 7, true);
        for (j, p) in net.peers.iter_mut().enumerate() {
            match j {
                1 | 2 => p.forge = 10,
                3 => p.forge = 11,
                4 => p.put_reply = -1,
                5 => p.put_reply = -2,
                _ => {}
            }
            if round % 3 == 2 && j != 0 {
                // nobody acknowledges: every put ends with a query error, never hangs
                p.put_reply = if j % 2 == 0 { -1 } else { -2 };
            }
        }
        let boot = vec![net.peers[0].addr, net.peers[1].addr];
        let mut d = Driver::new(out, rng.next(), net);
        d.begin(if round % 2 == 0 { "c" } else { "s" }, &boot, None, rng.next() % 1_000_000 + 1, t0);
        d.run_for(2 * SEC, 10 * MS);
        let v = format!("answers of the wrong shape {round}").into_bytes();
        d.api(format!("put_imm v={}", hex(&v)));
        d.settle(20 * SEC, 10 * MS);
        d.api(format!("get_imm t={}", hex(imm_target(&v).as_bytes())));
        d.api(put_mut_call(9, 4, b"odd", None, None));
        d.settle(20 * SEC, 10 * MS);
        let ih = Id::from_bytes(rng.id20()).expect("id");
        d.api(format!("announce ih={} port=7000", hex(ih.as_bytes())));
        d.api(format!("get_peers ih={}", hex(ih.as_bytes())));
        d.api(format!("find_node t={}", hex(ih.as_bytes())));
        d.settle(20 * SEC, 10 * MS);
        d.run("snap".into());
        d.finish();
        d.out.mark_distinct(fnv(format!("O{round}").as_bytes()));
        d.out.count("answers-of-the-wrong-shape");
        d.s.shutdown();
    }
    // ---- P (C03): a server whose request filter bans one address.  Whatever that address sends — ping,
    //          find_node, get, announce — gets no reply and changes nothing: not the stores, and not the
    //          routing tables either (a banned node is not advertised to others).  The same requests from a
    //          neighbouring address are served
    for round in 0..(if thorough { 4 } else { 2 }) {
        t0 += 10_000_000_000_000;
        let net = VNet::new(&mut rng, 3, true);
        let first_node = round % 2 == 0;
        let boot: Vec<SocketAddrV4> = if first_node { vec![] } else { vec![net.peers[0].addr] };
        let banned = SocketAddrV4::new(Ipv4Addr::new(10, 66, 0, 66), 6881);
        let neighbour = SocketAddrV4::new(Ipv4Addr::new(10, 66, 0, 67), 6881);
        let mut d = Driver::new(out, rng.next(), net);
        d.deny = Some(*banned.ip());
        d.begin("s", &boot, None, rng.next() % 1_000_000 + 1, t0);
        d.run_for(2 * SEC, 10 * MS);
        for (who, is_banned) in [(banned, true), (neighbour, false)] {
            d.run("snap".into());
            let before = d.s.last_snapshot.clone();
            let sent_before = d.s.all_sent.len();
            let rid = Id::from_bytes(d.rng.id20()).expect("id");
            let ih = Id::from_bytes(d.rng.id20()).expect("id");
            d.inject_request(who, rid, RequestTypeSpecific::Ping, false);
            d.inject_request(who, rid, RequestTypeSpecific::FindNode(FindNodeRequestArguments { target: rid }), false);
            d.inject_request(who, rid, RequestTypeSpecific::GetPeers(GetPeersRequestArguments { info_hash: ih }), false);
            d.inject_request(who, rid, RequestTypeSpecific::GetValue(GetValueRequestArguments { target: ih, seq: None, salt: None }), false);
            d.run_for(SEC, 10 * MS);
            d.run("snap".into());
            let after = d.s.last_snapshot.clone();
            let replies = d.s.all_sent[sent_before..].iter().filter(|x| x.to == who && !matches!(x.msg.message_type(), MessageType::Request(_))).count();
            if let (Some(b), Some(a)) = (before, after) {
                let tables_changed = b.routing_table.iter().map(|x| x.1).collect::<Vec<_>>() != a.routing_table.iter().map(|x| x.1).collect::<Vec<_>>()
                    || b.signed_peers_routing_table.iter().map(|x| x.1).collect::<Vec<_>>() != a.signed_peers_routing_table.iter().map(|x| x.1).collect::<Vec<_>>();
                if is_banned {
                    if replies > 0 {
                        d.out.violation("C03", "vetoed-request-answered", format!("{replies} replies went to {who}, whose requests the request filter vetoes"));
                    }
                    if tables_changed || b.store_sizes != a.store_sizes {
                        d.out.violation("C03", "vetoed-request-changed-state", format!("requests from {who} are vetoed by the request filter, yet after its find_node the routing tables hold {:?} / {:?} (before: {:?} / {:?})", a.routing_table.iter().map(|x| x.1).collect::<Vec<_>>(), a.signed_peers_routing_table.iter().map(|x| x.1).collect::<Vec<_>>(), b.routing_table.iter().map(|x| x.1).collect::<Vec<_>>(), b.signed_peers_routing_table.iter().map(|x| x.1).collect::<Vec<_>>()));
                    }
                } else if replies < 4 {
                    d.out.violation("C03", "allowed-request-not-answered", format!("only {replies} of 4 requests from {who} were answered although the filter allows them"));
                }
            }
        }
        d.finish();
        d.out.mark_distinct(fnv(format!("P{round}").as_bytes()));
        d.out.count("request-filter-bans-an-address");
        d.s.shutdown();
    }
    // ---- Q (C13, C06): `bootstrapped()` — true once a bootstrap server has answered, false (not a hang) when
    //          the whole bootstrap list is unreachable, asked while the bootstrap lookup is still running and
    //          after it has ended, twice in a row
    for round in 0..(if thorough { 6 } else { 3 }) {
        t0 += 10_000_000_000_000;
        let mut net = VNet::new(&mut rng, 3 + round, true);
        let dead = round % 3 == 1;
        if dead {
            for p in net.peers.iter_mut() {
                p.alive = false;
            }
        }
        let boot: Vec<SocketAddrV4> = net.peers.iter().take(2).map(|p| p.addr).collect();
        let mut d = Driver::new(out, rng.next(), net);
        d.begin(if round % 2 == 0 { "c" } else { "s" }, &boot, None, rng.next() % 1_000_000 + 1, t0);
        // right away: the call joins the bootstrap lookup that `Dht::new` started
        let c1 = d.api("bootstrapped".into());
        let c2 = d.api("bootstrapped".into());
        d.settle(20 * SEC, 10 * MS);
        d.run_for(3 * SEC, 10 * MS);
        let c3 = d.api("bootstrapped".into());
        d.settle(20 * SEC, 10 * MS);
        for c in [c1, c2, c3] {
            let got = d.results(c);
            let want = if dead { "bootstrapped:false" } else { "bootstrapped:true" };
            if !got.iter().any(|r| r.ends_with(want)) {
                d.out.violation("C13", "bootstrapped-wrong", format!("bootstrapped() yielded {:?} with a bootstrap list that is {}", got, if dead { "entirely unreachable" } else { "alive" }));
            }
        }
        d.finish();
        d.out.mark_distinct(fnv(format!("Q{round}").as_bytes()));
        d.out.count(if dead { "bootstrapped-dead-list" } else { "bootstrapped-live-list" });
        d.s.shutdown();
    }
    // ---- Q2 (C13): bootstrap lists in which entries that do not resolve precede, follow or surround the
    //          address of the live server: the node joins through the live one
    for (k, bad) in [vec![(0usize, "bad1")], vec![(0, "bad2"), (1, "bad3")], vec![(1, "bad1")], vec![(0, "bad4"), (2, "bad2")]].into_iter().enumerate() {
        t0 += 10_000_000_000_000;
        let net = VNet::new(&mut rng, 4, true);
        let boot = vec![net.peers[0].addr];
        let mut d = Driver::new(out, rng.next(), net);
        d.boot_bad = bad;
        d.begin(if k % 2 == 0 { "c" } else { "s" }, &boot, None, rng.next() % 1_000_000 + 1, t0);
        let c1 = d.api("bootstrapped".into());
        d.settle(20 * SEC, 10 * MS);
        d.run_for(3 * SEC, 10 * MS);
        d.run("snap".into());
        if !d.results(c1).iter().any(|r| r.ends_with("bootstrapped:true")) {
            d.out.violation("C13", "bootstrapped-wrong", format!("bootstrapped() yielded {:?} although the bootstrap list names a live server (next to entries that do not resolve)", d.results(c1)));
        }
        if d.s.last_snapshot.as_ref().map(|s| s.routing_table.is_empty()).unwrap_or(true) {
            d.out.violation("C13", "live-bootstrap-not-joined", "the bootstrap list names a live server next to entries that do not resolve, and the node's routing table is empty after its bootstrap".into());
        }
        d.finish();
        d.out.mark_distinct(fnv(format!("Q2{k}").as_bytes()));
        d.s.shutdown();
    }
    // ---- F2: adaptive node confirmed at address A; then its peers report another address B that is
    //          not reachable (C18): firewalled again, still a client after the next refresh
    for explicit_server in [false, true] {
        t0 += 10_000_000_000_000;
        let net = VNet::new(&mut rng, 6, false);
        let boot = vec![net.peers[0].addr];
        let mut d = Driver::new(out, rng.next(), net);
        d.reachable = true;
        let pub_ip = Ipv4Addr::new(45, 7, 7, 7);
        d.begin(if explicit_server { "s" } else { "c" }, &boot, Some(pub_ip), rng.next() % 1_000_000 + 1, t0);
        d.run_for(3 * SEC, 10 * MS);
        d.run("snap".into());
        let confirmed = d.s.last_snapshot.as_ref().map(|s| !s.firewalled).unwrap_or(false);
        let b = SocketAddrV4::new(Ipv4Addr::new(46, 8, 8, 8), 6881);
        d.report_ip = Some(b);
        let t = Id::from_bytes(rng.id20()).expect("id");
        d.api(format!("find_node t={}", hex(t.as_bytes())));
        d.settle(20 * SEC, 10 * MS);
        d.run("snap".into());
        if let Some(sn) = d.s.last_snapshot.clone() {
            if confirmed && sn.public_address == Some(b) && !sn.firewalled {
                d.out.violation("C18", "unconfirmed-address-not-firewalled", format!("the peers now report {b}, which no self-ping has confirmed, and the node does not consider itself firewalled"));
            }
        }
        d.run_for(16 * 60 * SEC, SEC);
        d.run_for(3 * SEC, 10 * MS);
        d.run("snap".into());
        if let Some(sn) = d.s.last_snapshot.clone() {
            if !explicit_server && sn.public_address == Some(b) && sn.server_mode {
                d.out.violation("C18", "nat-became-server", format!("a node whose reported address {b} is not reachable switched to server mode (firewalled={})", sn.firewalled));
            }
        }
        d.finish();
        d.out.mark_distinct(fnv(format!("F2{explicit_server}").as_bytes()));
        d.s.shutdown();
    }
    // ---- F3: a NATed adaptive node (its voted address is not reachable) is pinged from its own IP on
    //          another port — another host behind the same NAT (C18): that confirms nothing
    for same_port_other_ip in [false, true] {
        t0 += 10_000_000_000_000;
        let net = VNet::new(&mut rng, 6, false);
        let boot = vec![net.peers[0].addr];
        let mut d = Driver::new(out, rng.next(), net);
        d.reachable = false;
        let pub_ip = Ipv4Addr::new(45, 7, 7, 7);
        d.begin("c", &boot, Some(pub_ip), rng.next() % 1_000_000 + 1, t0);
        d.run_for(3 * SEC, 10 * MS);
        d.run("snap".into());
        let from = if same_port_other_ip { SocketAddrV4::new(Ipv4Addr::new(45, 7, 7, 8), 6881) } else { SocketAddrV4::new(pub_ip, 7000) };
        for k in 0..3 {
            let rid = if k == 0 { d.s.own_id.unwrap_or(Id::from_bytes(rng.id20()).expect("id")) } else { Id::from_bytes(rng.id20()).expect("id") };
            d.inject_request(from, rid, RequestTypeSpecific::Ping, k == 2);
            d.run_for(200 * MS, 10 * MS);
        }
        d.run("snap".into());
        if let Some(sn) = d.s.last_snapshot.clone() {
            if !sn.firewalled {
                d.out.violation("C18", "foreign-ping-confirms-address", format!("a ping from {from}, which is not the address the peers report ({:?}), cleared the firewalled flag", sn.public_address));
            }
        }
        d.run_for(16 * 60 * SEC, SEC);
        d.run_for(3 * SEC, 10 * MS);
        d.run("snap".into());
        if let Some(sn) = d.s.last_snapshot.clone() {
            if sn.server_mode {
                d.out.violation("C18", "nat-became-server", format!("a node whose reported address is not reachable switched to server mode after a ping from {from}"));
            }
        }
        d.finish();
        d.out.mark_distinct(fnv(format!("F3{same_port_other_ip}").as_bytes()));
        d.s.shutdown();
    }
    // ---- W: the socket's transaction id counter wraps around u32::MAX in the middle of lookups and puts
    //         (C07, C09): nothing changes for the lookup
    //         … and crosses the boundaries of its encodings: ids below 2^16, below 2^24 and above travel on
    //         the wire as byte strings (C01, C10): a put acknowledged before the boundary is found after it
    for (round, start) in [u32::MAX - 3, u32::MAX - 1, u32::MAX - 7, u32::MAX - 40, 65_536 - 30, 16_777_216 - 25, 255 - 10, 70_000, 3_000_000_000].iter().enumerate() {
        t0 += 10_000_000_000_000;
        let net = VNet::new(&mut rng, [6usize, 12, 25, 30, 8, 8, 8, 8, 8][round], true);
        let boot = vec![net.peers[0].addr];
        let mut d = Driver::new(out, rng.next(), net);
        d.tid0 = Some(*start);
        d.begin("c", &boot, None, rng.next() % 1_000_000 + 1, t0);
        d.run_for(2 * SEC, 10 * MS);
        for k in 0..3 {
            let t = Id::from_bytes(rng.id20()).expect("id");
            let call = if k == 1 { format!("find_node t={}", hex(t.as_bytes())) } else { format!("get_peers ih={}", hex(t.as_bytes())) };
            d.lookup_and_check_closure(call, &t);
        }
        let v = format!("across the wrap {round}").into_bytes();
        d.api(format!("put_imm v={} expect=ok prop=C08", hex(&v)));
        d.settle(20 * SEC, 10 * MS);
        d.api(format!("get_imm t={} expect=some prop=C01", hex(imm_target(&v).as_bytes())));
        d.settle(20 * SEC, 10 * MS);
        d.run("snap".into());
        d.finish();
        d.out.mark_distinct(fnv(format!("W{round}").as_bytes()));
        d.s.shutdown();
    }
    // ---- L: a put started from the lookup cache is storing when another lookup of the same target
    //         ends with no responders at all (C08): one node acknowledged, so the put is Ok
    for acks in [1usize, 0] {
        t0 += 10_000_000_000_000;
        let net = VNet::new(&mut rng, 4, true);
        let boot = vec![net.peers[0].addr];
        let mut d = Driver::new(out, rng.next(), net);
        d.begin("c", &boot, None, rng.next() % 1_000_000 + 1, t0);
        d.run_for(2 * SEC, 10 * MS);
        let v = format!("scenario L {acks}").into_bytes();
        let t = imm_target(&v);
        d.api(format!("get_imm t={}", hex(t.as_bytes())));
        d.settle(20 * SEC, 10 * MS);
        for (i, p) in d.net.peers.iter_mut().enumerate() {
            p.ignore_gets = true;
            p.ignore_puts = i >= acks;
        }
        d.api(format!("get_imm t={}", hex(t.as_bytes())));
        d.run_for(150 * MS, 10 * MS);
        let want = if acks > 0 { "ok" } else { "timeout" };
        d.api(format!("put_imm v={} expect={want} prop=C08", hex(&v)));
        d.settle(30 * SEC, 10 * MS);
        d.finish();
        d.out.mark_distinct(fnv(format!("L{acks}").as_bytes()));
        d.s.shutdown();
    }
    // ---- M: a reader that is itself putting the key reads it while its put's lookup is running (C01):
    //         the get joins that lookup and must still be handed the stored item (salted and not)
    for salt in [Some(&b"salt"[..]), None] {
        for stored_seq in [7i64, 3] {
            t0 += 10_000_000_000_000;
            let mut net = VNet::new(&mut rng, 5, true);
            let item = MutableItem::new(&key_from_seed(9), b"written by W", stored_seq, salt);
            for p in net.peers.iter_mut() {
                p.muts.insert(*item.target(), (item.value().to_vec(), *item.key(), item.seq(), *item.signature()));
                p.extra_delay = 30 * MS;
            }
            let boot = vec![net.peers[0].addr];
            let mut d = Driver::new(out, rng.next(), net);
            d.begin("c", &boot, None, rng.next() % 1_000_000 + 1, t0);
            d.run_for(2 * SEC, 10 * MS);
            let put = put_mut_call(9, 5, b"item of the reader", salt, None);
            d.api(put);
            d.pump(MS);
            d.pump(MS);
            let pk = hex(key_from_seed(9).verifying_key().as_bytes());
            let g = d.api(format!("get_mut k={pk} salt={} seq=none", salt.map(hex).unwrap_or("none".into())));
            d.settle(20 * SEC, 10 * MS);
            let got = d.results(g);
            if !got.iter().any(|r| r.contains(&format!("seq={stored_seq} v={}", hex(b"written by W")))) {
                d.out.violation("C01", "stored-item-not-yielded", format!("every storing node holds and serves (seq {stored_seq}, salt {:?}) but get_mutable on a node that is putting the same key yielded {:?}", salt.map(hex), got));
            }
            d.finish();
            d.out.mark_distinct(fnv(format!("M{stored_seq}{}", salt.is_some()).as_bytes()));
            d.s.shutdown();
        }
    }
    // ---- M3 (C06): a get_immutable future that was polled once — the request is submitted — and is then
    //          left alone, neither polled nor dropped (parked in a select!, or its task is waiting for
    //          another call on the same node), while several nodes answer with the value.  Every other
    //          call on the node goes on; the actor never waits for a caller
    for round in 0..(if thorough { 3 } else { 1 }) {
        t0 += 10_000_000_000_000;
        let mut net = VNet::new(&mut rng, 4 + round, true);
        let v = format!("held by everyone {round}").into_bytes();
        let t = imm_target(&v);
        let item = MutableItem::new(&key_from_seed(9), b"m3", 4, None);
        for p in net.peers.iter_mut() {
            p.imm.insert(t, v.clone());
            p.muts.insert(*item.target(), (item.value().to_vec(), *item.key(), item.seq(), *item.signature()));
        }
        let boot = vec![net.peers[0].addr];
        let mut d = Driver::new(out, rng.next(), net);
        d.begin("c", &boot, None, rng.next() % 1_000_000 + 1, t0);
        d.run_for(2 * SEC, 10 * MS);
        let parked = d.api(format!("get_imm t={} mute=1", hex(t.as_bytes())));
        let parked2 = d.api(format!("get_mut k={} salt=none seq=none mute=1", hex(key_from_seed(9).verifying_key().as_bytes())));
        d.run_for(SEC, 10 * MS);
        let c1 = d.api("info".into());
        let tt = Id::from_bytes(d.rng.id20()).expect("id");
        let c2 = d.api(format!("find_node t={}", hex(tt.as_bytes())));
        let c3 = d.api(format!("get_imm t={}", hex(t.as_bytes())));
        d.settle(20 * SEC, 10 * MS);
        for (c, what) in [(c1, "info"), (c2, "find_node"), (c3, "get_immutable")] {
            if d.results(c).is_empty() {
                d.out.violation("C06", "call-hangs", format!("{what} did not return within 20 s while another caller's get future is parked"));
            }
        }
        d.finish();
        for (c, what) in [(parked, "get_immutable"), (parked2, "get_mutable")] {
            if !d.results(c).iter().any(|r| r.contains(":some:") || r.contains(":item:")) {
                d.out.violation("C01", "stored-item-not-yielded", format!("a parked {what} caller that came back to its future was handed {:?} although every node answered with the value", d.results(c)));
            }
        }
        d.out.mark_distinct(fnv(format!("M3{round}").as_bytes()));
        d.s.shutdown();
    }
    // ---- R: everything at once, at random (see `chaos_round`)
    for round in 0..(if thorough { 300 } else { 12 }) {
        t0 += 10_000_000_000_000;
        chaos_round(out, &mut rng, t0, round);
    }
    // ---- S: peers first met by a lookup that they answer WITH a value (C14): whoever answers one of the
    //         node's requests is in its routing table afterwards (small network: no capacity or IP limit)
    for kind in 0..6 {
        t0 += 10_000_000_000_000;
        let mut net = VNet::new(&mut rng, 6, true);
        // the two late peers are listed by the others but silent during the bootstrap
        net.peers[4].alive = false;
        net.peers[5].alive = false;
        let boot = vec![net.peers[0].addr];
        let mut d = Driver::new(out, rng.next(), net);
        d.begin("c", &boot, None, rng.next() % 1_000_000 + 1, t0);
        d.run_for(3 * SEC, 10 * MS);
        d.run("snap".into());
        let ih = Id::from_bytes(rng.id20()).expect("id");
        let v = b"held by the late peers".to_vec();
        let item = MutableItem::new(&key_from_seed(9), b"late", 2, None);
        let sa = SignedAnnounce::new(&key_from_seed(31), &ih);
        for i in [4usize, 5] {
            let p = &mut d.net.peers[i];
            p.alive = true;
            p.peers.insert(ih, vec![SocketAddrV4::new(Ipv4Addr::new(10, 8, 8, 8), 7000)]);
            p.speers.insert(ih, vec![(*sa.key(), sa.timestamp(), *sa.signature())]);
            p.imm.insert(imm_target(&v), v.clone());
            p.muts.insert(*item.target(), (item.value().to_vec(), *item.key(), item.seq(), *item.signature()));
        }
        let call = match kind {
            0 => format!("get_peers ih={}", hex(ih.as_bytes())),
            1 => format!("get_speers ih={}", hex(ih.as_bytes())),
            2 => format!("get_imm t={}", hex(imm_target(&v).as_bytes())),
            3 => format!("get_mut k={} salt=none seq=none", hex(key_from_seed(9).verifying_key().as_bytes())),
            // …and lookups of things nobody holds: the late peers answer "no values"
            4 => format!("get_peers ih={}", hex(&rng.id20())),
            _ => format!("get_imm t={}", hex(&rng.id20())),
        };
        d.api(call.clone());
        d.settle(20 * SEC, 10 * MS);
        d.run("snap".into());
        if let Some(sn) = d.s.last_snapshot.clone() {
            let now = verif::now_ns();
            for i in [4usize, 5] {
                let a = d.net.peers[i].addr;
                let answered = d.s.answered.get(&a).map(|t| now - *t < 60 * SEC).unwrap_or(false);
                if answered && !sn.routing_table.iter().any(|(_, x, _)| *x == a) {
                    d.out.violation("C14", "answering-peer-not-in-table", format!("{a} answered `{}` a moment ago ({}) and is not in the routing table ({} entries)", call.split(' ').next().unwrap_or(""), if kind < 4 { "with a value" } else { "with no values" }, sn.routing_table.len()));
                }
            }
        }
        d.finish();
        d.out.mark_distinct(fnv(format!("S{kind}").as_bytes()));
        d.s.shutdown();
    }
    // ---- T: a network of two: the only other node lists the requester itself (a first node adds the
    //         requester to its table before answering), so the node's lookups of its own id see only
    //         itself as a candidate (C20: the size estimate of such a lookup must stay a number)
    for n in [1usize, 2] {
        t0 += 10_000_000_000_000;
        let mut net = VNet::new(&mut rng, n, true);
        for p in net.peers.iter_mut() {
            p.echo_requester = true;
        }
        let boot = vec![net.peers[0].addr];
        let mut d = Driver::new(out, rng.next(), net);
        d.begin("s", &boot, None, rng.next() % 1_000_000 + 1, t0);
        d.run_for(2 * SEC, 10 * MS);
        d.run("snap".into());
        if let Some(own) = d.s.own_id {
            for _ in 0..3 {
                d.api(format!("find_node t={}", hex(own.as_bytes())));
                d.settle(20 * SEC, 10 * MS);
                d.run("snap".into());
            }
        }
        // the 15-minute refresh looks the own id up again and replaces the cached lookup
        d.run_for(16 * 60 * SEC, SEC);
        d.run("snap".into());
        let t = Id::from_bytes(rng.id20()).expect("id");
        d.api(format!("get_peers ih={}", hex(t.as_bytes())));
        d.settle(20 * SEC, 10 * MS);
        d.run("snap".into());
        d.finish();
        d.out.mark_distinct(fnv(format!("T{n}").as_bytes()));
        d.s.shutdown();
    }
    // ---- X: two puts of different kinds on the same 20 bytes (C06): puts are registered by target alone
    for first in ["sannounce", "announce"] {
        t0 += 10_000_000_000_000;
        let mut net = VNet::new(&mut rng, 5, true);
        for p in net.peers.iter_mut() {
            p.put_reply = 302;
            p.put_delay = 200 * MS;
        }
        let boot = vec![net.peers[0].addr];
        let mut d = Driver::new(out, rng.next(), net);
        d.begin("c", &boot, None, rng.next() % 1_000_000 + 1, t0);
        d.run_for(2 * SEC, 10 * MS);
        let item = MutableItem::new(&key_from_seed(9), b"m", 3, None);
        let t = *item.target();
        d.api(if first == "sannounce" { sannounce_call(&t, 5) } else { format!("announce ih={} port=7000", hex(t.as_bytes())) });
        d.run_for(30 * MS, 5 * MS);
        let call = put_mut_call(9, 3, b"m", None, None);
        d.api(call);
        d.settle(20 * SEC, 10 * MS);
        d.finish();
        d.out.mark_distinct(fnv(format!("X{first}").as_bytes()));
        d.s.shutdown();
    }
    // ---- R1 (C01): the largest legal items on a network whose nodes list 20 closer nodes per answer, like
    //      this library's own servers do: an answer carrying a 1000-byte value, key, signature and 20 nodes is
    //      about 1.7 kB, beyond an Ethernet frame and within the 2048-byte receive buffer
    //      Every other round the peers list 45 closer nodes instead: the answers that carry the value are then
    //      longer than the receive buffer, are cut there and no longer decode (no verdict on the result: such
    //      peers are not this library's; the model cuts at the same MTU)
    for round in 0..(if thorough { 4 } else { 2 }) {
        t0 += 10_000_000_000_000;
        let oversize = round % 2 == 1;
        let mut net = VNet::new(&mut rng, if oversize { 50 } else { 25 + 5 * round }, true);
        net.list_k = if oversize { 45 } else { 20 };
        let boot = vec![net.peers[0].addr];
        let mut d = Driver::new(out, rng.next(), net);
        d.begin("c", &boot, None, rng.next() % 1_000_000 + 1, t0);
        d.run_for(2 * SEC, 10 * MS);
        let v = d.rng.bytes(1000);
        d.api(format!("put_imm v={} expect=ok prop=C08", hex(&v)));
        d.settle(20 * SEC, 10 * MS);
        let salt = d.rng.bytes(64);
        let mv = d.rng.bytes(1000);
        let call = put_mut_call(9, 7, &mv, Some(&salt), None);
        d.api(format!("{call} expect=ok prop=C08"));
        d.settle(20 * SEC, 10 * MS);
        d.run_for(5 * SEC, SEC);
        let g1 = d.api(format!("get_imm t={}", hex(imm_target(&v).as_bytes())));
        d.settle(20 * SEC, 10 * MS);
        let g2 = d.api(format!("get_mut k={} salt={} seq=none", hex(key_from_seed(9).verifying_key().as_bytes()), hex(&salt)));
        d.settle(20 * SEC, 10 * MS);
        if !oversize {
            let gr = d.api(format!("get_mut_recent k={} salt={}", hex(key_from_seed(9).verifying_key().as_bytes()), hex(&salt)));
            d.settle(20 * SEC, 10 * MS);
            if !d.results(gr).iter().any(|r| r.contains(":recent:") && r.contains("seq=7 ")) {
                d.out.violation("C16", "newest-item-missed", format!("every storing node holds and serves seq 7 (a 1000-byte value under a 64-byte salt, answers of about 1.7 kB) but get_mutable_most_recent returned {:?}", d.results(gr).iter().map(|r| r.chars().take(60).collect::<String>()).collect::<Vec<_>>()));
            }
        }
        if !oversize {
            // (C07) every answer of this lookup is about 1.7 kB long: the nodes it lists are candidates like
            // any others (after the cache entry of the first lookup has been used up by these two)
            d.run_for(2 * SEC, SEC);
            let t = imm_target(&v);
            d.lookup_and_check_closure(format!("get_imm t={}", hex(t.as_bytes())), &t);
        }
        for (g, what) in [(g1, "get_immutable of a 1000-byte value"), (g2, "get_mutable of a 1000-byte value under a 64-byte salt")] {
            let got = d.results(g);
            if !oversize && !got.iter().any(|r| r.contains(":item:") || r.contains(":some:")) {
                d.out.violation("C01", "stored-item-not-yielded", format!("{what}, acknowledged by every storing node, on a network whose answers list 20 closer nodes yielded {:?}", got.iter().map(|r| r.chars().take(40).collect::<String>()).collect::<Vec<_>>()));
            }
        }
        d.finish();
        d.out.mark_distinct(fnv(format!("R1{round}").as_bytes()) ^ d.rng.0);
        d.s.shutdown();
    }
    // ---- S1 (C07): answers that list MORE than 20 closer nodes, farthest first.  Nothing in KRPC bounds the
    //      list; every listed node counts as "listed in the answers it received"
    for round in 0..(if thorough { 4 } else { 2 }) {
        t0 += 10_000_000_000_000;
        let mut net = VNet::new(&mut rng, 60, true);
        net.list_k = 26 + 4 * round;
        net.list_rev = round % 2 == 0;
        let boot = vec![net.peers[0].addr];
        let mut d = Driver::new(out, rng.next(), net);
        d.begin("c", &boot, None, rng.next() % 1_000_000 + 1, t0);
        d.run_for(2 * SEC, 10 * MS);
        for k in 0..3 {
            let t = Id::from_bytes(d.rng.id20()).expect("id");
            let call = match k {
                0 => format!("find_node t={}", hex(t.as_bytes())),
                1 => format!("get_peers ih={}", hex(t.as_bytes())),
                _ => format!("get_imm t={}", hex(t.as_bytes())),
            };
            d.lookup_and_check_closure(call, &t);
        }
        d.finish();
        d.out.mark_distinct(fnv(format!("S1{round}").as_bytes()) ^ d.rng.0);
        d.s.shutdown();
    }
    // ---- O2 (C05, C08): storing nodes answer EVERY kind of put with 301 / 302, codes that only make sense
    //      for a mutable item.  No facade may panic over it; the plain puts fail with the error response
    for code in [301i32, 302] {
        for kind in 0..4 {
            t0 += 10_000_000_000_000;
            let mut net = VNet::new(&mut rng, 5, true);
            for p in net.peers.iter_mut() {
                p.put_reply = code;
            }
            let boot = vec![net.peers[0].addr];
            let mut d = Driver::new(out, rng.next(), net);
            d.begin("c", &boot, None, rng.next() % 1_000_000 + 1, t0);
            d.run_for(2 * SEC, 10 * MS);
            let ih = Id::from_bytes(d.rng.id20()).expect("id");
            let call = match kind {
                0 => format!("put_imm v={}", hex(format!("refused {code}").as_bytes())),
                1 => format!("announce ih={} port=7000", hex(ih.as_bytes())),
                2 => sannounce_call(&ih, 5),
                _ => put_mut_call(9, 3, b"refused", None, None),
            };
            d.api(call);
            d.settle(20 * SEC, 10 * MS);
            d.api("info".into());
            d.settle(5 * SEC, 10 * MS);
            d.finish();
            d.out.mark_distinct(fnv(format!("O2{code}{kind}").as_bytes()));
            d.s.shutdown();
        }
    }
    // ---- U (C09): one of the two bootstrap addresses has port 0, to which no datagram can be sent: the
    //      socket's `send_to` fails (as sendto(2) does), the request stays outstanding until it expires.  Six
    //      get_peers lookups of different info hashes run side by side; the only live node answers each
    //      request with a peer that is unique to the info hash asked for, so whatever get_peers(T) yields must
    //      be the marker of T: anything else is an answer attributed to a request it does not answer
    for round in 0..(if thorough { 4 } else { 2 }) {
        t0 += 10_000_000_000_000;
        let mut net = VNet::new(&mut rng, 1 + round % 2, true);
        let ihs: Vec<Id> = (0..6).map(|_| Id::from_bytes(rng.id20()).expect("id")).collect();
        let marker = |i: usize| SocketAddrV4::new(Ipv4Addr::new(10, 77, 0, i as u8 + 1), 1000 + i as u16);
        for p in net.peers.iter_mut() {
            for (i, ih) in ihs.iter().enumerate() {
                p.peers.insert(*ih, vec![marker(i)]);
            }
        }
        let boot = vec![net.peers[0].addr, SocketAddrV4::new(Ipv4Addr::new(10, 1, 9, 9), 0)];
        let mut d = Driver::new(out, rng.next(), net);
        d.begin("c", &boot, None, rng.next() % 1_000_000 + 1, t0);
        d.run_for(3 * SEC, 10 * MS);
        let calls: Vec<u32> = ihs.iter().map(|ih| d.api(format!("get_peers ih={}", hex(ih.as_bytes())))).collect();
        d.settle(20 * SEC, 10 * MS);
        for (i, c) in calls.iter().enumerate() {
            let want = addr_s(&marker(i));
            for r in d.results(*c) {
                if let Some((_, l)) = r.split_once(":item:") {
                    if l.split(',').any(|a| a != want) {
                        d.out.violation("C09", "misattributed-response", format!("get_peers of info hash #{i} yielded {l}; the only node of the network answers requests for that info hash with {want} alone, so an answer to another request was attributed to this lookup"));
                    }
                }
            }
            if !d.results(*c).iter().any(|r| r.contains(":item:")) {
                d.out.violation("C09", "genuine-rejected", format!("get_peers of info hash #{i} yielded nothing although the live node answered every request in time: its answer was consumed by something else"));
            }
        }
        d.finish();
        d.out.mark_distinct(fnv(format!("U{round}").as_bytes()) ^ d.rng.0);
        d.s.shutdown();
    }
    // ---- K7 (C07): the only node that knows the 20 nodes closest to the target is the holder of a 1000-byte
    //      value: its answer — value plus 20 nodes, about 1.6 kB, what this library's own server sends — is the
    //      only way to them.  The nodes an answer lists are candidates whatever else the answer carries
    for round in 0..(if thorough { 3 } else { 2 }) {
        t0 += 10_000_000_000_000;
        let v = d_bytes(&mut rng, 1000 - round * 300);
        let target = imm_target(&v);
        let mut net = VNet::new(&mut rng, 22, true);
        for (j, p) in net.peers.iter_mut().enumerate() {
            let mut idb = *target.as_bytes();
            match j {
                0 => idb[0] ^= 0x80,
                1 => idb[1] ^= 0x80,
                _ => { idb[18] ^= 0x01; idb[19] = j as u8; }
            }
            p.id = Id::from_bytes(idb).expect("id");
            p.chain_for = Some((target, match j { 0 => vec![1], 1 => (2..22).collect(), _ => vec![] }));
        }
        net.peers[1].imm.insert(target, v.clone());
        let boot = vec![net.peers[0].addr];
        let mut d = Driver::new(out, rng.next(), net);
        d.begin("c", &boot, None, rng.next() % 1_000_000 + 1, t0);
        d.run_for(2 * SEC, 10 * MS);
        d.lookup_and_check_closure(format!("get_imm t={}", hex(target.as_bytes())), &target);
        d.finish();
        d.out.mark_distinct(fnv(format!("K7{round}").as_bytes()));
        d.s.shutdown();
    }
    // ---- Z7 (C16): the node's own put is in its store phase (the storing nodes are silent about it) when
    //      get_mutable_most_recent starts: the lookup's requests get the transaction ids right after the put's.
    //      The node closest to the target — asked first — is the only holder of the newest version
    for round in 0..(if thorough { 3 } else { 2 }) {
        t0 += 10_000_000_000_000;
        let old = MutableItem::new(&key_from_seed(9), b"version one", 1, None);
        let newest = MutableItem::new(&key_from_seed(9), b"version two", 2, None);
        let target = *old.target();
        let mut net = VNet::new(&mut rng, 5 + round, true);
        for (j, p) in net.peers.iter_mut().enumerate() {
            p.ignore_puts = true;
            if j == 1 {
                let mut b = *target.as_bytes();
                b[19] ^= 1;
                p.id = Id::from_bytes(b).expect("id");
                p.muts.insert(target, (newest.value().to_vec(), *newest.key(), newest.seq(), *newest.signature()));
            } else {
                p.muts.insert(target, (old.value().to_vec(), *old.key(), old.seq(), *old.signature()));
            }
        }
        let boot = vec![net.peers[0].addr];
        let mut d = Driver::new(out, rng.next(), net);
        d.begin("c", &boot, None, rng.next() % 1_000_000 + 1, t0);
        d.run_for(2 * SEC, 10 * MS);
        let v = format!("unrelated {round}").into_bytes();
        d.api(format!("put_imm v={}", hex(&v)));
        let mut guard = 0;
        while !d.s.all_sent.iter().any(|x| x.key.as_deref().map(|k| k.contains("/put/")).unwrap_or(false)) && guard < 4000 {
            d.pump(MS);
            guard += 1;
        }
        let c = d.api(format!("get_mut_recent k={} salt=none", hex(key_from_seed(9).verifying_key().as_bytes())));
        d.settle(20 * SEC, 10 * MS);
        let got = d.results(c);
        if !got.iter().any(|r| r.contains(":recent:") && r.contains("seq=2 ")) {
            d.out.violation("C16", "newest-item-missed", format!("the node closest to the target holds seq 2 and answered in time — while a put of the same node was waiting for its acknowledgements — but get_mutable_most_recent returned {:?}", got.iter().map(|r| r.chars().take(100).collect::<String>()).collect::<Vec<_>>()));
        }
        d.finish();
        d.out.mark_distinct(fnv(format!("Z7{round}").as_bytes()));
        d.s.shutdown();
    }
    // ---- Z8 (C06): junk keeps arriving — one undecodable datagram every 10 ms — at a client whose peers have gone
    //      silent.  A find_node, a put and a get issued meanwhile end when their requests expire, as they do
    //      when nothing arrives
    for round in 0..2 {
        t0 += 10_000_000_000_000;
        let net = VNet::new(&mut rng, 3, true);
        let boot = vec![net.peers[0].addr];
        let mut d = Driver::new(out, rng.next(), net);
        d.begin("c", &boot, None, rng.next() % 1_000_000 + 1, t0);
        d.run_for(3 * SEC, 10 * MS);
        for p in d.net.peers.iter_mut() {
            p.mode = 1;
        }
        let t = Id::from_bytes(d.rng.id20()).expect("id");
        let calls = [d.api(format!("find_node t={}", hex(t.as_bytes()))), d.api("put_imm v=6a756e6b".into()), d.api(format!("get_imm t={}", hex(t.as_bytes()))), d.api("info".into())];
        let stranger = SocketAddrV4::new(Ipv4Addr::new(10, 77, 7, 7), 7070);
        for k in 0..(if round == 0 { 800 } else { 1500 }) {
            d.run(format!("adv {}", 10 * MS));
            let junk = match k % 3 { 0 => "6a756e6b".to_string(), 1 => "64313a7165".to_string(), _ => hex(&d.rng.bytes(1 + (k % 40))) };
            d.run(format!("step from={} raw={junk}", addr_s(&stranger)));
        }
        for (c, what) in calls.iter().zip(["find_node", "put_immutable", "get_immutable", "info"]) {
            if d.results(*c).is_empty() {
                d.out.violation("C06", "call-hangs", format!("{what} has not returned after {} s during which an undecodable datagram arrived every 10 ms (every request it sent expired long ago)", if round == 0 { 8 } else { 15 }));
                d.out.violation("C05", "junk-starves-node", format!("{what} has not returned after {} s of undecodable datagrams arriving every 10 ms", if round == 0 { 8 } else { 15 }));
                break;
            }
        }
        d.finish();
        d.out.mark_distinct(fnv(format!("Z8{round}").as_bytes()));
        d.s.shutdown();
    }
    // ---- Z9 (C13): a server restarts on its port under a new id while the node still lists its old id at that
    //      address: the find_node requests it sends while joining again make the node list the new id too
    for mode in ["s"] {
        t0 += 10_000_000_000_000;
        // (the first node of a network — no bootstrap list — adds every find_node requester to its table)
        let net = VNet::new(&mut rng, 4, true);
        let boot: Vec<SocketAddrV4> = vec![];
        let mut d = Driver::new(out, rng.next(), net);
        d.begin(mode, &boot, None, rng.next() % 1_000_000 + 1, t0);
        d.run_for(2 * SEC, 10 * MS);
        let j = SocketAddrV4::new(Ipv4Addr::new(10, 55, 5, 5), 6881);
        let id1 = Id::from_bytes(rng.id20()).expect("id");
        let mut id2b = rng.id20();
        id2b[0] = id1.as_bytes()[0] ^ 0x80;
        let id2 = Id::from_bytes(id2b).expect("id");
        d.inject_request(j, id1, RequestTypeSpecific::FindNode(FindNodeRequestArguments { target: id1 }), false);
        d.run_for(200 * MS, 10 * MS);
        d.run("snap".into());
        let had_old = d.s.last_snapshot.as_ref().map(|sn| sn.routing_table.iter().any(|(i, a, _)| *i == id1 && *a == j)).unwrap_or(false);
        d.run_for(30 * SEC, SEC);
        d.inject_request(j, id2, RequestTypeSpecific::FindNode(FindNodeRequestArguments { target: id2 }), false);
        d.run_for(200 * MS, 10 * MS);
        d.inject_request(j, id2, RequestTypeSpecific::Ping, false);
        d.run_for(200 * MS, 10 * MS);
        d.run("snap".into());
        if let Some(sn) = d.s.last_snapshot.clone() {
            d.out.count(if had_old { "z9-old-id-listed" } else { "z9-old-id-not-listed" });
            if had_old && !sn.routing_table.iter().any(|(i, a, _)| *i == id2 && *a == j) {
                d.out.violation("C13", "rejoined-server-not-learned", format!("{} joined again under a new id ({}) 30 s after it had joined under {}: its find_node request did not make the node list the new id (a lookup of the new id cannot find it here)", addr_s(&j), hex(&id2.as_bytes()[..4]), hex(&id1.as_bytes()[..4])));
            }
        }
        d.finish();
        d.out.mark_distinct(fnv(format!("Z9{mode}").as_bytes()));
        d.s.shutdown();
    }
    // ---- Z10 (C07, C08, C02): every request the node sends is shadowed, a millisecond later and before the genuine
    //      reply, by (1) a bare response under its transaction id from another address, (2) a ping request of
    //      the addressed peer under the same transaction id, (3) a put request of that peer for the requested
    //      target with a forged value.  None of these is an answer: lookups still query every node the
    //      genuine answers list, puts are acknowledged, readers are handed authentic values only
    for shadow in [1u8, 2, 3] {
        t0 += 10_000_000_000_000;
        let mut net = VNet::new(&mut rng, 12, true);
        let v = format!("shadowed {shadow}").into_bytes();
        let item = MutableItem::new(&key_from_seed(9), b"genuine item", 4, Some(b"sh"));
        for p in net.peers.iter_mut() {
            p.imm.insert(imm_target(&v), v.clone());
            p.muts.insert(*item.target(), (item.value().to_vec(), *item.key(), item.seq(), *item.signature()));
        }
        let boot = vec![net.peers[0].addr];
        let mut d = Driver::new(out, rng.next(), net);
        // (from the very first request on: the node joins through shadowed answers too)
        d.shadow = shadow;
        d.begin("c", &boot, None, rng.next() % 1_000_000 + 1, t0);
        d.run_for(2 * SEC, 10 * MS);
        let t = Id::from_bytes(d.rng.id20()).expect("id");
        d.lookup_and_check_closure(format!("find_node t={}", hex(t.as_bytes())), &t);
        let t2 = Id::from_bytes(d.rng.id20()).expect("id");
        d.lookup_and_check_closure(format!("get_peers ih={}", hex(t2.as_bytes())), &t2);
        let pv = d.rng.bytes(30);
        d.api(format!("put_imm v={} expect=ok prop=C08", hex(&pv)));
        d.settle(20 * SEC, 10 * MS);
        d.api(format!("get_imm t={} expect=some prop=C01", hex(imm_target(&v).as_bytes())));
        d.settle(20 * SEC, 10 * MS);
        d.api(format!("get_mut k={} salt={} seq=none expect=some prop=C01", hex(key_from_seed(9).verifying_key().as_bytes()), hex(b"sh")));
        d.settle(20 * SEC, 10 * MS);
        d.shadow = 0;
        d.run("snap".into());
        if let Some(sn) = d.s.last_snapshot.clone() {
            if sn.routing_table.is_empty() {
                d.out.violation("C14", "answering-peers-never-learned", format!("twelve peers answered every request of this node in time (each answer preceded by a datagram under the same transaction id that is not an answer, shadow mode {shadow}) and none of them is in the routing table"));
            }
        }
        d.finish();
        d.out.mark_distinct(fnv(format!("Z10{shadow}").as_bytes()));
        d.s.shutdown();
    }
    // ---- F5 (C18): the first lookup of a reachable adaptive node is told a dead address, the lookups right after
    //      it the true one: the node pings the true address too (the ping to the dead one is still out), is
    //      confirmed there and becomes a server at the next refresh
    for gap_ms in [60u64, 250] {
        t0 += 10_000_000_000_000;
        let net = VNet::new(&mut rng, 6, false);
        let boot = vec![net.peers[0].addr];
        let mut d = Driver::new(out, rng.next(), net);
        d.reachable = true;
        d.report_ip = Some(SocketAddrV4::new(Ipv4Addr::new(46, 9, 9, 9), 6881));
        d.begin("c", &boot, Some(Ipv4Addr::new(45, 7, 7, 10)), rng.next() % 1_000_000 + 1, t0);
        // until the bootstrap lookup has ended and the node has pinged the address it was told
        let mut guard = 0;
        while !d.s.all_sent.iter().any(|x| *x.to.ip() == Ipv4Addr::new(46, 9, 9, 9)) && guard < 3000 {
            d.pump(MS);
            guard += 1;
        }
        d.run_for(gap_ms * MS, 5 * MS);
        d.report_ip = None;
        for _ in 0..2 {
            let t = Id::from_bytes(d.rng.id20()).expect("id");
            d.api(format!("find_node t={}", hex(t.as_bytes())));
        }
        d.settle(20 * SEC, 10 * MS);
        d.run_for(3 * SEC, 10 * MS);
        d.api("info".into());
        d.run("snap".into());
        d.run_for(16 * 60 * SEC, SEC);
        d.run_for(3 * SEC, 10 * MS);
        d.run("snap".into());
        if let Some(sn) = d.s.last_snapshot.clone() {
            if sn.firewalled {
                d.out.violation("C18", "reachable-still-firewalled", format!("the node is reachable at the address its peers report (they reported a dead one during its very first lookup, {gap_ms} ms earlier) but still considers itself firewalled: public_address={:?}", sn.public_address));
            }
            if !sn.server_mode {
                d.out.violation("C18", "adaptive-never-server", format!("after 16 minutes a node that is reachable at the address its peers report is still in client mode (firewalled={}, public_address={:?})", sn.firewalled, sn.public_address));
            }
        }
        d.finish();
        d.out.mark_distinct(fnv(format!("F5{gap_ms}").as_bytes()));
        d.s.shutdown();
    }
    // ---- M4 (C05, C06): more than twenty nodes answer a get_peers / get_signed_peers / get_mutable lookup with
    //      values while the caller holds its stream without reading it: the node goes on answering pings and
    //      serving its other callers
    for kind in 0..3 {
        t0 += 10_000_000_000_000;
        // (answers list 30 nodes picked at random, so the 20 closest known keep changing and the lookup asks
        // several dozen nodes)
        let mut net = VNet::new(&mut rng, 200, true);
        net.list_k = 30;
        net.list_random = true;
        let ih = Id::from_bytes(rng.id20()).expect("id");
        let item = MutableItem::new(&key_from_seed(9), b"m4", 4, None);
        let sa = SignedAnnounce::new(&key_from_seed(33), &ih);
        for p in net.peers.iter_mut() {
            p.peers.insert(ih, vec![SocketAddrV4::new(Ipv4Addr::new(10, 8, 8, 8), 7000)]);
            p.speers.insert(ih, vec![(*sa.key(), sa.timestamp(), *sa.signature())]);
            p.muts.insert(*item.target(), (item.value().to_vec(), *item.key(), item.seq(), *item.signature()));
        }
        let boot = vec![net.peers[0].addr];
        let mut d = Driver::new(out, rng.next(), net);
        d.begin("s", &boot, None, rng.next() % 1_000_000 + 1, t0);
        d.run_for(2 * SEC, 10 * MS);
        let call = match kind {
            0 => format!("get_peers ih={} mute=1", hex(ih.as_bytes())),
            1 => format!("get_speers ih={} mute=1", hex(ih.as_bytes())),
            _ => format!("get_mut k={} salt=none seq=none mute=1", hex(key_from_seed(9).verifying_key().as_bytes())),
        };
        d.api(call);
        d.run_for(3 * SEC, 10 * MS);
        let c1 = d.api("info".into());
        let tt = Id::from_bytes(d.rng.id20()).expect("id");
        let c2 = d.api(format!("find_node t={}", hex(tt.as_bytes())));
        let stranger = SocketAddrV4::new(Ipv4Addr::new(10, 44, 4, 4), 4444);
        let sid = Id::from_bytes(d.rng.id20()).expect("id");
        let before = d.s.all_sent.len();
        d.inject_request(stranger, sid, RequestTypeSpecific::Ping, false);
        d.settle(20 * SEC, 10 * MS);
        let answered = d.s.all_sent[before..].iter().any(|x| x.to == stranger);
        if d.s.alive && !answered {
            d.out.violation("C05", "ping-unanswered", "a server whose caller holds an unread stream of lookup results did not answer a ping".into());
        }
        for (c, what) in [(c1, "info"), (c2, "find_node")] {
            if d.results(c).is_empty() {
                d.out.violation("C06", "call-hangs", format!("{what} did not return within 20 s while another caller holds an unread stream of lookup results"));
                d.out.violation("C05", "datagram-stalls-node", format!("{what} did not return within 20 s after more than twenty nodes answered a lookup whose caller is not reading"));
            }
        }
        d.finish();
        d.out.mark_distinct(fnv(format!("M4{kind}").as_bytes()));
        d.s.shutdown();
    }
    // ---- Y (C01, C03, C05, C15): strangers write to a real server node and read from it, over KRPC.  Announcers
    //      that share an IP (two hosts behind one NAT), a node id that announces again from another address,
    //      19 / 20 / 21 announcers on one info hash, and a token used after the node moved to its secure id
    for round in 0..4 {
        t0 += 10_000_000_000_000;
        let public = round == 2;
        let net = VNet::new(&mut rng, 4, !public);
        let boot = vec![net.peers[0].addr];
        let mut d = Driver::new(out, rng.next(), net);
        if public {
            d.reachable = true;
            d.begin_at("s", &boot, None, Some(Ipv4Addr::new(45, 9, 9, 9)), rng.next() % 1_000_000 + 1, t0);
        } else {
            d.begin("s", &boot, None, rng.next() % 1_000_000 + 1, t0);
        }
        let ih = Id::from_bytes(d.rng.id20()).expect("id");
        // one request of a stranger and the node's replies to it
        fn ask(d: &mut Driver, from: SocketAddrV4, rid: Id, rt: RequestTypeSpecific) -> Vec<Sent> {
            let before = d.s.all_sent.len();
            d.inject_request(from, rid, rt, false);
            d.run_for(50 * MS, 10 * MS);
            d.s.all_sent[before..].iter().filter(|x| x.to == from).cloned().collect()
        }
        fn token_of(replies: &[Sent]) -> Option<Vec<u8>> {
            replies.iter().find_map(|r| match r.msg.message_type() {
                MessageType::Response(ResponseSpecific::NoValues(a)) => Some(a.token.to_vec()),
                MessageType::Response(ResponseSpecific::GetPeers(a)) => Some(a.token.to_vec()),
                _ => None,
            })
        }
        fn values_of(replies: &[Sent]) -> Vec<SocketAddrV4> {
            replies.iter().flat_map(|r| match r.msg.message_type() {
                MessageType::Response(ResponseSpecific::GetPeers(a)) => a.values.to_vec(),
                _ => vec![],
            }).collect()
        }
        let announce = |d: &mut Driver, from: SocketAddrV4, rid: Id, port: u16| -> bool {
            let tok = token_of(&ask(d, from, rid, RequestTypeSpecific::GetPeers(GetPeersRequestArguments { info_hash: ih })));
            let Some(tok) = tok else { return false };
            let r = ask(d, from, rid, RequestTypeSpecific::Put(PutRequest { token: tok.into_boxed_slice(), put_request_type: PutRequestSpecific::AnnouncePeer(AnnouncePeerRequestArguments { info_hash: ih, port, implied_port: None }) }));
            r.iter().any(|x| matches!(x.msg.message_type(), MessageType::Response(ResponseSpecific::Ping(_))))
        };
        if round == 0 {
            d.run_for(2 * SEC, 10 * MS);
            let nat = Ipv4Addr::new(10, 9, 0, 1);
            let (ida, idb) = (Id::from_bytes(d.rng.id20()).expect("id"), Id::from_bytes(d.rng.id20()).expect("id"));
            let a_ok = announce(&mut d, SocketAddrV4::new(nat, 1000), ida, 41001);
            let b_ok = announce(&mut d, SocketAddrV4::new(nat, 2000), idb, 41002);
            let reader = SocketAddrV4::new(Ipv4Addr::new(10, 9, 0, 9), 3000);
            let rid = Id::from_bytes(d.rng.id20()).expect("id");
            let got = values_of(&ask(&mut d, reader, rid, RequestTypeSpecific::GetPeers(GetPeersRequestArguments { info_hash: ih })));
            for (ok, port, who) in [(a_ok, 41001u16, "first"), (b_ok, 41002, "second")] {
                if ok && !got.contains(&SocketAddrV4::new(nat, port)) {
                    d.out.violation("C01", "announced-peer-not-served", format!("the {who} of two announcers behind one IP was acknowledged (port {port}) and is not among the peers the node serves for that info hash: {:?}", got.iter().map(addr_s).collect::<Vec<_>>()));
                    d.out.violation("C08", "acknowledged-value-not-served", format!("announce_peer (port {port}) was acknowledged by this node, which does not serve it: {:?}", got.iter().map(addr_s).collect::<Vec<_>>()));
                }
            }
            // the id of the first announcer announces again, from another address
            let moved = SocketAddrV4::new(Ipv4Addr::new(10, 9, 0, 5), 1000);
            let m_ok = announce(&mut d, moved, ida, 41003);
            let got = values_of(&ask(&mut d, reader, rid, RequestTypeSpecific::GetPeers(GetPeersRequestArguments { info_hash: ih })));
            if m_ok && !got.contains(&SocketAddrV4::new(*moved.ip(), 41003)) {
                d.out.violation("C03", "announce-not-recorded", format!("an announce_peer with a valid token from {} (port 41003) was acknowledged, but the node serves {:?} for that info hash: the sender's address is not recorded", addr_s(&moved), got.iter().map(addr_s).collect::<Vec<_>>()));
                d.out.violation("C01", "announced-peer-not-served", format!("an acknowledged announce_peer from {} is not served: {:?}", addr_s(&moved), got.iter().map(addr_s).collect::<Vec<_>>()));
            }
        } else if round == 1 {
            d.run_for(2 * SEC, 10 * MS);
            let reader = SocketAddrV4::new(Ipv4Addr::new(10, 9, 3, 9), 3000);
            let rid = Id::from_bytes(d.rng.id20()).expect("id");
            for k in 0..22u8 {
                let from = SocketAddrV4::new(Ipv4Addr::new(10, 9, 2, 1 + k), 4000);
                let id = Id::from_bytes(d.rng.id20()).expect("id");
                announce(&mut d, from, id, 5000 + k as u16);
                if k >= 17 {
                    let before = d.s.all_sent.len();
                    let got = ask(&mut d, reader, rid, RequestTypeSpecific::GetPeers(GetPeersRequestArguments { info_hash: ih }));
                    let _ = before;
                    if d.s.alive && got.is_empty() {
                        d.out.violation("C05", "request-unanswered", format!("a server that holds {} peers for an info hash did not answer get_peers for it", k + 1));
                    }
                }
            }
        } else if round == 3 {
            // (C04) one target, two stores: the public key of this seed starts with "55:", so key ++ salt (26 bytes)
            // is also the bencoding of a 55-byte immutable value — both hash to the same target.  An immutable
            // put there leaves the mutable item and its seq alone
            d.run_for(2 * SEC, 10 * MS);
            let key = key_from_seed(1_734_490);
            let kb = key.verifying_key().to_bytes();
            let salt = d.rng.bytes(26);
            let item10 = MutableItem::new(&key, b"ten", 10, Some(&salt));
            let item5 = MutableItem::new(&key, b"five", 5, Some(&salt));
            let target = *item10.target();
            let mut enc = kb.to_vec();
            enc.extend_from_slice(&salt);
            let v_imm = enc[3..].to_vec();
            let from = SocketAddrV4::new(Ipv4Addr::new(10, 9, 4, 4), 4000);
            let rid = Id::from_bytes(d.rng.id20()).expect("id");
            let acked = |r: &[Sent]| r.iter().any(|x| matches!(x.msg.message_type(), MessageType::Response(ResponseSpecific::Ping(_))));
            if &kb[..3] == b"55:" && imm_target(&v_imm) == target {
                let put_mut = |i: &MutableItem, tok: &[u8]| RequestTypeSpecific::Put(PutRequest { token: tok.to_vec().into_boxed_slice(), put_request_type: PutRequestSpecific::PutMutable(PutMutableRequestArguments { target, v: i.value().to_vec().into_boxed_slice(), k: *i.key(), seq: i.seq(), sig: *i.signature(), salt: Some(salt.clone().into_boxed_slice()), cas: None }) });
                let tok = token_of(&ask(&mut d, from, rid, RequestTypeSpecific::GetPeers(GetPeersRequestArguments { info_hash: target }))).unwrap_or_default();
                let m_ok = acked(&ask(&mut d, from, rid, put_mut(&item10, &tok)));
                let i_ok = acked(&ask(&mut d, from, rid, RequestTypeSpecific::Put(PutRequest { token: tok.clone().into_boxed_slice(), put_request_type: PutRequestSpecific::PutImmutable(PutImmutableRequestArguments { target, v: v_imm.clone().into_boxed_slice() }) })));
                d.out.count(if m_ok && i_ok { "y-two-stores-one-target" } else { "y-two-stores-not-acked" });
                let r = ask(&mut d, from, rid, RequestTypeSpecific::GetValue(GetValueRequestArguments { target, seq: Some(3), salt: None }));
                let served = r.iter().any(|x| matches!(x.msg.message_type(), MessageType::Response(ResponseSpecific::GetMutable(a)) if a.seq == 10));
                if m_ok && !served {
                    d.out.violation("C04", "stored-item-lost", format!("the node acknowledged a mutable item with seq 10; after an immutable put under the same 20 bytes a get with a seq filter is answered {:?}", r.iter().map(|x| x.line.chars().take(80).collect::<String>()).collect::<Vec<_>>()));
                }
                let r = ask(&mut d, from, rid, put_mut(&item5, &tok));
                if m_ok && acked(&r) {
                    d.out.violation("C04", "rollback-accepted", "the node holds seq 10 of a mutable item and acknowledged a put of seq 5 for the same key and salt (after an immutable put under the same 20 bytes)".into());
                }
            }
        } else {
            // the token is issued before the node has confirmed its address and moved to its secure id
            let from = SocketAddrV4::new(Ipv4Addr::new(51, 7, 7, 7), 6881);
            let rid = Id::from_bytes(d.rng.id20()).expect("id");
            d.run("snap".into());
            let id0 = d.s.last_snapshot.as_ref().map(|sn| sn.id);
            let tok = token_of(&ask(&mut d, from, rid, RequestTypeSpecific::GetPeers(GetPeersRequestArguments { info_hash: ih })));
            d.run_for(5 * SEC, 10 * MS);
            d.run("snap".into());
            let id1 = d.s.last_snapshot.as_ref().map(|sn| sn.id);
            d.out.count(if id0 != id1 { "y-token-across-rekey" } else { "y-no-rekey" });
            if let Some(tok) = tok {
                let r = ask(&mut d, from, rid, RequestTypeSpecific::Put(PutRequest { token: tok.into_boxed_slice(), put_request_type: PutRequestSpecific::AnnouncePeer(AnnouncePeerRequestArguments { info_hash: ih, port: 7000, implied_port: None }) }));
                if d.s.alive && !r.iter().any(|x| matches!(x.msg.message_type(), MessageType::Response(ResponseSpecific::Ping(_)))) {
                    d.out.violation("C15", "fresh-token-rejected", format!("an announce_peer with a token this node issued to the same address 5 s ago was answered {:?} (the node {} meanwhile)", r.iter().map(|x| x.line.chars().take(90).collect::<String>()).collect::<Vec<_>>(), if id0 != id1 { "moved to its secure id" } else { "kept its id" }));
                }
            }
        }
        d.run("snap".into());
        d.finish();
        d.out.mark_distinct(fnv(format!("Y{round}").as_bytes()));
        d.s.shutdown();
    }
    // ---- Q3 (C13): the bootstrap address is 0.0.0.0:port — what `Info::local_addr()` of a server bound to every
    //      interface reports and `examples/bootstrap.rs` passes on; the server answers from its own address
    for n in [1usize, 4] {
        t0 += 10_000_000_000_000;
        let net = VNet::new(&mut rng, n, true);
        let boot = vec![SocketAddrV4::new(Ipv4Addr::new(0, 0, 0, 0), net.peers[0].addr.port())];
        let mut d = Driver::new(out, rng.next(), net);
        d.begin("c", &boot, None, rng.next() % 1_000_000 + 1, t0);
        let c = d.api("bootstrapped".into());
        d.settle(20 * SEC, 10 * MS);
        d.run("snap".into());
        let size = d.s.last_snapshot.as_ref().map(|sn| sn.routing_table.len()).unwrap_or(0);
        if size == 0 || !d.results(c).iter().any(|r| r.contains("true")) {
            d.out.violation("C13", "live-bootstrap-not-joined", format!("the bootstrap server — given as 0.0.0.0:port — answered every request from its own address, but bootstrapped() says {:?} and the routing table holds {size} nodes", d.results(c)));
        }
        d.finish();
        d.out.mark_distinct(fnv(format!("Q3{n}").as_bytes()));
        d.s.shutdown();
    }
    // ---- D4 (C17): a put_mutable on an isolated node fails (no node to write to); a different item for the same
    //      key follows.  Nothing is in flight: it fails the same way, not with a conflict
    for (seq2, cas2) in [(6i64, None), (4, None), (6, Some(9i64))] {
        t0 += 10_000_000_000_000;
        let net = VNet::new(&mut rng, 1, true);
        let boot: Vec<SocketAddrV4> = vec![];
        let mut d = Driver::new(out, rng.next(), net);
        d.begin("c", &boot, None, rng.next() % 1_000_000 + 1, t0);
        d.run_for(SEC, 10 * MS);
        d.api(format!("{} expect=no-closest-nodes prop=C17", put_mut_call(9, 5, b"first", Some(b"d4"), None)));
        d.settle(20 * SEC, 10 * MS);
        d.api(format!("{} expect=no-closest-nodes prop=C17", put_mut_call(9, seq2, b"second", Some(b"d4"), cas2)));
        d.settle(20 * SEC, 10 * MS);
        d.finish();
        d.out.mark_distinct(fnv(format!("D4{seq2}{cas2:?}").as_bytes()));
        d.s.shutdown();
    }
    // ---- Z1 (C06): a node whose address has port 0 — nothing can be sent there — is among the closest to the
    //      target in the answers of honest peers.  The lookup asks everybody else, the request to port 0 stays
    //      outstanding until it expires, and every call returns
    for round in 0..(if thorough { 3 } else { 2 }) {
        t0 += 10_000_000_000_000;
        let mut net = VNet::new(&mut rng, 6 + 3 * round, true);
        let target = Id::from_bytes(rng.id20()).expect("id");
        {
            let mut b = *target.as_bytes();
            b[19] ^= 1;
            let p = &mut net.peers[2];
            p.id = Id::from_bytes(b).expect("id");
            p.addr = SocketAddrV4::new(*p.addr.ip(), 0);
            p.alive = false;
        }
        let boot = vec![net.peers[0].addr];
        let mut d = Driver::new(out, rng.next(), net);
        d.begin("c", &boot, None, rng.next() % 1_000_000 + 1, t0);
        d.run_for(2 * SEC, 10 * MS);
        let calls = [format!("find_node t={}", hex(target.as_bytes())), format!("get_peers ih={}", hex(target.as_bytes())), format!("announce ih={} port=7000", hex(target.as_bytes()))];
        // (C07: an answer that lists the port-0 node next to others is an answer like any other)
        if round % 3 == 2 {
            d.api(calls[2].clone());
            d.settle(20 * SEC, 10 * MS);
        } else {
            d.lookup_and_check_closure(calls[round % 3].clone(), &target);
        }
        d.api(calls[(round + 1) % 3].clone());
        d.settle(20 * SEC, 10 * MS);
        d.finish();
        d.out.mark_distinct(fnv(format!("Z1{round}").as_bytes()) ^ d.rng.0);
        d.s.shutdown();
    }
    // ---- Z2 (C02): one key re-announced itself on an info hash: an older record sits on one node, the newer one
    //      on another.  A second get_signed_peers joins the lookup after both have answered: whatever it is
    //      handed from the lookup's memory verifies over (info_hash, timestamp) like everything else
    for order in 0..2 {
        use ed25519_dalek::Signer;
        t0 += 10_000_000_000_000;
        let mut net = VNet::new(&mut rng, 3, true);
        let ih = Id::from_bytes(rng.id20()).expect("id");
        let key = key_from_seed(41);
        let sa = SignedAnnounce::new(&key, &ih);
        let t_new = sa.timestamp();
        let t_old = t_new - 7_000_000;
        let sig_old = key.sign(&crate::streams::server::signable_announce(ih.as_bytes(), t_old)).to_bytes();
        let old = (*sa.key(), t_old, sig_old);
        let new = (*sa.key(), t_new, *sa.signature());
        net.peers[0].speers.insert(ih, vec![if order == 0 { old } else { new }]);
        net.peers[1].speers.insert(ih, vec![if order == 0 { new } else { old }]);
        net.peers[1].extra_delay = 60 * MS;
        net.peers[2].mode = 1;
        let boot = vec![net.peers[0].addr, net.peers[1].addr, net.peers[2].addr];
        let mut d = Driver::new(out, rng.next(), net);
        d.begin("c", &boot, None, rng.next() % 1_000_000 + 1, t0);
        d.run_for(2 * SEC, 10 * MS);
        d.api(format!("get_speers ih={}", hex(ih.as_bytes())));
        d.run_for(200 * MS, 5 * MS);
        d.api(format!("get_speers ih={}", hex(ih.as_bytes())));
        d.run_for(100 * MS, 5 * MS);
        d.api(format!("get_speers ih={}", hex(ih.as_bytes())));
        d.settle(20 * SEC, 10 * MS);
        d.finish();
        d.out.mark_distinct(fnv(format!("Z2{order}").as_bytes()));
        d.s.shutdown();
    }
    // ---- Z3 (C08): two announcements of different payloads on one info hash, the second while the first is in
    //      flight (queued together / during the lookup / during the store phase).  A call that returns Ok was
    //      acknowledged by a storing node, so some node holds what that call announced
    for phase in 0..3 {
        for signed in [false, true] {
            t0 += 10_000_000_000_000;
            let net = VNet::new(&mut rng, 5, true);
            let ih = Id::from_bytes(rng.id20()).expect("id");
            let boot = vec![net.peers[0].addr];
            let mut d = Driver::new(out, rng.next(), net);
            d.begin("c", &boot, None, rng.next() % 1_000_000 + 1, t0);
            d.run_for(2 * SEC, 10 * MS);
            // (the facade signs with the wall clock of the moment of the call: each record is made when it is issued)
            let first = if signed { sannounce_call(&ih, 51) } else { format!("announce ih={} port=1111", hex(ih.as_bytes())) };
            d.api(first);
            match phase {
                0 => {}
                1 => { d.pump(MS); d.pump(MS); }
                _ => {
                    let mut guard = 0;
                    while !d.s.all_sent.iter().any(|x| x.key.as_deref().map(|k| k.contains("/put/")).unwrap_or(false)) && guard < 4000 {
                        d.pump(MS);
                        guard += 1;
                    }
                }
            }
            let second = if signed { sannounce_call(&ih, 52) } else { format!("announce ih={} port=2222", hex(ih.as_bytes())) };
            let c2 = d.api(second);
            d.settle(20 * SEC, 10 * MS);
            if d.results(c2).first().map(|r| r.contains(":ok:")).unwrap_or(false) {
                let held = if signed {
                    let k2 = *key_from_seed(52).verifying_key().as_bytes();
                    d.net.peers.iter().any(|p| p.speers.get(&ih).map(|l| l.iter().any(|(k, _, _)| *k == k2)).unwrap_or(false))
                } else {
                    d.net.peers.iter().any(|p| p.peers.get(&ih).map(|l| l.iter().any(|a| a.port() == 2222)).unwrap_or(false))
                };
                if !held {
                    d.out.violation("C08", "ok-without-own-request", format!("the second of two {} calls on one info hash (phase {phase}) returned Ok, but no storing node was ever sent what it announces: the acknowledgements it reports belong to the other call", if signed { "announce_signed_peer" } else { "announce_peer" }));
                }
            }
            d.finish();
            d.out.mark_distinct(fnv(format!("Z3{phase}{signed}").as_bytes()));
            d.s.shutdown();
        }
    }
    // ---- Z4 (C09): a stranger sends REQUESTS (find_node, get_peers) whose transaction id equals one of a running
    //      lookup, with an `ip` field of its choosing, to a client and to a server.  A request answers nothing: the
    //      lookup is not advanced, the stranger does not enter the tables of a client, the address it reports is
    //      not a vote
    for mode in ["c", "s"] {
        t0 += 10_000_000_000_000;
        let mut net = VNet::new(&mut rng, 2, true);
        net.peers[0].mode = 1;
        net.peers[1].mode = 1;
        let boot = vec![net.peers[0].addr, net.peers[1].addr];
        let mut d = Driver::new(out, rng.next(), net);
        d.begin(mode, &boot, None, rng.next() % 1_000_000 + 1, t0);
        d.run_for(50 * MS, 10 * MS);
        let stranger = SocketAddrV4::new(Ipv4Addr::new(10, 66, 6, 6), 6666);
        let fake = SocketAddrV4::new(Ipv4Addr::new(45, 66, 77, 88), 7777);
        let sid = Id::from_bytes(rng.id20()).expect("id");
        let tids: Vec<u32> = d.s.all_sent.iter().filter(|x| x.key.is_some()).map(|x| x.msg.transaction_id()).collect();
        for (j, tid) in tids.iter().enumerate().take(6) {
            d.seq += 1;
            let rt = if j % 2 == 0 { RequestTypeSpecific::FindNode(FindNodeRequestArguments { target: sid }) } else { RequestTypeSpecific::GetPeers(GetPeersRequestArguments { info_hash: sid }) };
            let seq = d.seq;
            d.queue.push(InFlight { due: verif::now_ns(), from: stranger, re: None, mt: MessageType::Request(dht::RequestSpecific { requester_id: sid, request_type: rt }), ro: false, ip: Some(fake), seq, tid: Some(*tid), legacy: false });
            d.run_for(20 * MS, 10 * MS);
        }
        d.settle(20 * SEC, 10 * MS);
        d.run_for(2 * SEC, SEC);
        d.api("info".into());
        d.run("snap".into());
        if let Some(sn) = d.s.last_snapshot.clone() {
            if sn.public_address == Some(fake) {
                d.out.violation("C09", "request-counted-as-response", format!("the node believes its public address is {} — reported only in the `ip` field of requests a stranger sent under the transaction ids of a running lookup", addr_s(&fake)));
            }
            if mode == "c" && (sn.routing_table.iter().any(|(_, a, _)| *a == stranger) || sn.signed_peers_routing_table.iter().any(|(_, a, _)| *a == stranger)) {
                d.out.violation("C09", "request-counted-as-response", format!("{} never answered anything — it sent requests under the transaction ids of a running lookup to a node in client mode — and is in the routing table", addr_s(&stranger)));
            }
        }
        d.finish();
        d.out.mark_distinct(fnv(format!("Z4{mode}").as_bytes()));
        d.s.shutdown();
    }
    // ---- Z5 (C17): put A is storing (started from the lookup cache; its storing nodes have gone silent).  B
    //      supersedes it with cas = A.seq and a value of 1001 bytes; C, another item without cas, follows at
    //      once.  Whatever becomes of B, C conflicts with the write in flight
    for big in [1001usize, 40] {
        t0 += 10_000_000_000_000;
        let net = VNet::new(&mut rng, 5, true);
        let boot = vec![net.peers[0].addr];
        let mut d = Driver::new(out, rng.next(), net);
        d.begin("c", &boot, None, rng.next() % 1_000_000 + 1, t0);
        d.run_for(2 * SEC, 10 * MS);
        d.api(format!("{} expect=ok", put_mut_call(9, 5, b"first", Some(b"z5"), None)));
        d.settle(20 * SEC, 10 * MS);
        for p in d.net.peers.iter_mut() {
            p.ignore_puts = true;
        }
        d.api(put_mut_call(9, 6, b"second", Some(b"z5"), None));
        let mut guard = 0;
        let before = d.s.all_sent.len();
        while !d.s.all_sent[before..].iter().any(|x| x.key.as_deref().map(|k| k.contains("/put/")).unwrap_or(false)) && guard < 4000 {
            d.pump(MS);
            guard += 1;
        }
        let vb = vec![b'b'; big];
        d.api(put_mut_call(9, 7, &vb, Some(b"z5"), Some(6)));
        d.api(format!("{} expect=conflict-risk prop=C17", put_mut_call(9, 8, b"third", Some(b"z5"), None)));
        d.settle(30 * SEC, 10 * MS);
        d.finish();
        d.out.mark_distinct(fnv(format!("Z5{big}").as_bytes()));
        d.s.shutdown();
    }
    // ---- Z6 (C16): the same value republished under a higher seq: the node that still holds seq N answers
    //      first, the node with seq N+1 later.  get_mutable_most_recent returns seq N+1
    for (round, (fast_new, same_value)) in [(false, true), (true, true), (false, false)].iter().enumerate() {
        t0 += 10_000_000_000_000;
        let old = MutableItem::new(&key_from_seed(9), b"unchanged value", 10, None);
        let newest = MutableItem::new(&key_from_seed(9), if *same_value { b"unchanged value" } else { b"unchanged valuf" }, 11, None);
        let target = *old.target();
        let mut net = VNet::new(&mut rng, 3, true);
        net.peers[0].muts.insert(target, (old.value().to_vec(), *old.key(), old.seq(), *old.signature()));
        net.peers[1].muts.insert(target, (newest.value().to_vec(), *newest.key(), newest.seq(), *newest.signature()));
        net.peers[if *fast_new { 0 } else { 1 }].extra_delay = 150 * MS;
        let boot = vec![net.peers[0].addr, net.peers[1].addr];
        let mut d = Driver::new(out, rng.next(), net);
        d.begin("c", &boot, None, rng.next() % 1_000_000 + 1, t0);
        d.run_for(2 * SEC, 10 * MS);
        let c = d.api(format!("get_mut_recent k={} salt=none", hex(key_from_seed(9).verifying_key().as_bytes())));
        d.settle(20 * SEC, 10 * MS);
        let got = d.results(c);
        if !got.iter().any(|r| r.contains(":recent:") && r.contains("seq=11 ")) {
            d.out.violation("C16", "newest-item-missed", format!("two live nodes hold seq 10 and seq 11 of one key ({}) and both answered in time, but get_mutable_most_recent returned {:?}", if *same_value { "the same value" } else { "different values" }, got.iter().map(|r| r.chars().take(100).collect::<String>()).collect::<Vec<_>>()));
        }
        let c2 = d.api(format!("get_mut k={} salt=none seq=none", hex(key_from_seed(9).verifying_key().as_bytes())));
        d.settle(20 * SEC, 10 * MS);
        let _ = c2;
        d.finish();
        d.out.mark_distinct(fnv(format!("Z6{round}").as_bytes()));
        d.s.shutdown();
    }
    // ---- G5 (C14): forty minutes of uptime of a node whose transaction id counter crosses 2^16 (2^24) on the
    //      way: eight steady peers answer every request they can read.  All of them are still in the table
    for start in [65_536u32 - 60, 16_777_216 - 60, 1000] {
        t0 += 10_000_000_000_000;
        let net = VNet::new(&mut rng, 8, true);
        let boot = vec![net.peers[0].addr];
        let mut d = Driver::new(out, rng.next(), net);
        d.tid0 = Some(start);
        d.begin("c", &boot, None, rng.next() % 1_000_000 + 1, t0);
        d.run_for(3 * SEC, 10 * MS);
        d.run("snap".into());
        for minute in 0..40 {
            d.run_for(60 * SEC, SEC);
            if minute % 5 == 4 {
                d.run("snap".into());
            }
        }
        d.run("snap".into());
        if let Some(sn) = d.s.last_snapshot.clone() {
            for p in d.net.peers.iter() {
                if !sn.routing_table.iter().any(|(_, a, _)| *a == p.addr) {
                    d.out.violation("C14", "steady-peer-missing", format!("{} has been up and answering every well-formed request for the 40 minutes this node has run, the table has room for it ({} entries), and it is not in the routing table", addr_s(&p.addr), sn.routing_table.len()));
                    break;
                }
            }
        }
        d.finish();
        d.out.mark_distinct(fnv(format!("G5{start}").as_bytes()));
        d.s.shutdown();
    }
    // ---- I: more than 1000 distinct lookup targets roll the lookup cache (C20)
    {
        t0 += 10_000_000_000_000;
        let net = VNet::new(&mut rng, 3, true);
        let boot = vec![net.peers[0].addr];
        let mut d = Driver::new(out, rng.next(), net);
        d.begin("c", &boot, None, rng.next() % 1_000_000 + 1, t0);
        d.run_for(SEC, 10 * MS);
        let n = if thorough { 2100 } else { 1030 };
        for i in 0..n {
            let t = Id::from_bytes(d.rng.id20()).expect("id");
            let call = match i % 4 {
                0 => format!("get_peers ih={}", hex(t.as_bytes())),
                1 => format!("find_node t={}", hex(t.as_bytes())),
                2 => format!("get_speers ih={}", hex(t.as_bytes())),
                _ => format!("get_imm t={}", hex(t.as_bytes())),
            };
            d.api(call);
            d.settle(5 * SEC, 10 * MS);
            if i % 100 == 99 || i >= 995 && i < 1010 {
                d.run("snap".into());
            }
        }
        d.finish();
        d.out.mark_distinct(d.rng.0 ^ 0x1);
        d.out.count("cache-roll-lookups");
        d.s.shutdown();
    }
    out.sample("case node mode=c boot=<peer0> : init; api put_imm; steps delivering the virtual peers' replies; api get_imm; ...; adv 60 s; quiet".into());
}
