//! mvh — correspondence harness for the Lean model of Nuhvi/mainline.
//!
//! `mvh <stream> <outdir> <seed> <quick|thorough>` runs the real implementation (built from
//! /repo's working tree with `--cfg mainline_verif`) on generated operation sequences and writes
//! `ops.txt` (line protocol for the Lean driver), `impl.out` (the implementation's canonical
//! answers) and `stats.json` (distribution, samples and oracle violations).
mod sim;
mod streams;
mod util;

use std::path::Path;

fn main() {
    let args: Vec<String> = std::env::args().collect();
    if args.len() < 5 {
        eprintln!("usage: mvh <stream> <outdir> <seed> <quick|thorough> [replay-file]");
        std::process::exit(2);
    }
    let stream = args[1].as_str();
    let dir = Path::new(&args[2]);
    let seed: u64 = args[3].parse().expect("seed");
    let thorough = args[4] == "thorough";
    let replay = args.get(5).map(|s| s.as_str());
    // keep panic messages of caught panics out of stderr
    let main_thread = std::thread::current().id();
    std::panic::set_hook(Box::new(move |info| {
        // a panic of the harness itself (main thread) is reported; caught ones in worker threads are not
        if std::thread::current().id() == main_thread && std::env::var("MVH_PANIC_TRACE").is_ok() {
            eprintln!("mvh: {info}");
        }
        if let Ok(mut l) = util::LAST_PANIC.lock() {
            *l = info.to_string();
        }
    }));
    let mut out = util::Out::new(dir);
    out.home = match stream {
        "hash" | "id" => "C19",
        "closest" => "C11",
        "rtable" => "C12",
        "server" => "C03",
        "api" => "C16",
        "codec" => "C10",
        "socket" => "C09",
        "putq" => "C08",
        "net" | "mnet" => "C01",
        _ => "C05",
    };
    match stream {
        "hash" => streams::hash::run(&mut out, seed, thorough, replay),
        "id" => streams::id::run(&mut out, seed, thorough, replay),
        "closest" => streams::closest::run(&mut out, seed, thorough, replay),
        "mnet" => streams::mnet::run(&mut out, seed, thorough, replay),
        "node" => streams::node::run(&mut out, seed, thorough, replay),
        "socket" => streams::socket::run(&mut out, seed, thorough, replay),
        "putq" => streams::putq::run(&mut out, seed, thorough, replay),
        "net" => streams::net::run(&mut out, seed, thorough, replay),
        "codec" => streams::codec::run(&mut out, seed, thorough, replay),
        "api" => streams::api::run(&mut out, seed, thorough, replay),
        "server" => streams::server::run(&mut out, seed, thorough, replay),
        "rtable" => streams::rtable::run(&mut out, seed, thorough, replay),
        other => {
            eprintln!("unknown stream {other}");
            std::process::exit(2);
        }
    }
    out.finish(stream);
}
